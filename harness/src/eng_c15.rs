//! C15: histories of push_param / push_param2..5 / push_params / push_variant / push_old_param(s) (succeeding
//! or failing at any inner element) / reset on a MarshalledMessageBody, and of get / get2..5 / get_param with
//! matching and mismatching types on a MessageBodyParser.
use rustbus::message_builder::MarshalledMessage;
use rustbus::wire::errors::UnmarshalError;
use rustbus::wire::UnixFd;
use rustbus::ByteOrder;
use std::collections::HashMap;
use vcore::common::*;
use vcore::eng_wire::{bo_name, guard, ORDERS};
use vcore::typed::{Cat, Var};
use vcore::val::*;

fn state(msg: &MarshalledMessage) -> String {
    format!(
        "buf={} sig={} nfds={}",
        hex(msg.get_buf()),
        if msg.get_sig().is_empty() { "-".to_string() } else { msg.get_sig().to_string() },
        msg.body.get_fds().len()
    )
}

fn taken_fd() -> UnixFd {
    let fd = UnixFd::new(nix::unistd::dup(0).unwrap());
    let raw = fd.clone().take_raw_fd().unwrap();
    let _ = nix::unistd::close(raw);
    fd
}
/// RLIMIT_NOFILE soft limit: with 0 every system call that would create a descriptor fails with EMFILE
fn nofile_soft() -> libc::rlim_t {
    let mut r = libc::rlimit { rlim_cur: 0, rlim_max: 0 };
    unsafe { libc::getrlimit(libc::RLIMIT_NOFILE, &mut r) };
    r.rlim_cur
}
fn set_nofile_soft(cur: libc::rlim_t) {
    let mut r = libc::rlimit { rlim_cur: 0, rlim_max: 0 };
    unsafe { libc::getrlimit(libc::RLIMIT_NOFILE, &mut r) };
    r.rlim_cur = cur;
    unsafe { libc::setrlimit(libc::RLIMIT_NOFILE, &r) };
}
/// one byte on the wire; marshalling it uses up the process's descriptors (the caller restores the limit)
struct TripWire;
impl rustbus::Signature for TripWire {
    fn signature() -> rustbus::signature::Type {
        <u8 as rustbus::Signature>::signature()
    }
    fn alignment() -> usize {
        1
    }
}
impl rustbus::Marshal for TripWire {
    fn marshal(&self, ctx: &mut rustbus::wire::marshal::MarshalContext) -> Result<(), rustbus::wire::errors::MarshalError> {
        set_nofile_soft(0);
        0u8.marshal(ctx)
    }
}
fn good_fd() -> UnixFd {
    UnixFd::new(nix::unistd::dup(0).unwrap())
}

/// a string argument that is either fine or has no encoding (NUL)
fn str_arg(rng: &mut Prng, p_bad: u64) -> (String, bool) {
    if rng.chance(p_bad, 100) {
        (rng.pick(&["\0", "a\0b", "ab\0"]).to_string(), false)
    } else {
        (rng.pick(&["", "a", "hello", "ünï", "12345678"]).to_string(), true)
    }
}
fn sv(s: &str) -> String {
    format!("p/s/{}", Val::Str(s.as_bytes().to_vec()).show())
}

/// one builder operation: performs it on the real body, returns (model op text, succeeded)
fn builder_op(rng: &mut Prng, msg: &mut MarshalledMessage, out: &mut Out) -> (String, Option<bool>) {
    let kind = rng.below(16);
    match kind {
        0 => {
            msg.body.reset();
            out.hit("op_reset");
            ("R".into(), None)
        }
        1 => {
            // single typed value from the catalogue trait
            fn one<T: Cat>(rng: &mut Prng, msg: &mut MarshalledMessage) -> (String, Option<bool>) {
                let v = T::gen(rng, 2);
                let r = msg.body.push_param(&v).is_ok();
                (format!("P:p/{}/{}", T::ty().sig(), v.to_val().show()), Some(r))
            }
            out.hit("op_push_param");
            match rng.below(8) {
                0 => one::<u8>(rng, msg),
                1 => one::<u64>(rng, msg),
                2 => one::<String>(rng, msg),
                3 => one::<Vec<u64>>(rng, msg),
                4 => one::<(u8, u64)>(rng, msg),
                5 => one::<HashMap<String, u32>>(rng, msg),
                6 => one::<Vec<(u8, String)>>(rng, msg),
                _ => one::<Var<Vec<u16>>>(rng, msg),
            }
        }
        2 => {
            let (s, _) = str_arg(rng, 40);
            out.hit("op_push_param_str");
            let r = msg.body.push_param(s.as_str()).is_ok();
            (format!("P:{}", sv(&s)), Some(r))
        }
        3 => {
            // failure after a partial write inside ONE parameter: a struct whose 2nd field cannot be marshalled
            let (s, ok) = str_arg(rng, 60);
            out.hit("op_push_param_struct_partial");
            let r = msg.body.push_param((0xAABBCCDDu32, s.as_str())).is_ok();
            let item = format!("p/(us)/{}", Val::Struct(vec![Val::Num(0xAABBCCDD), Val::Str(s.as_bytes().to_vec())]).show());
            let _ = ok;
            (format!("P:{}", item), Some(r))
        }
        4 => {
            // array whose k-th element cannot be marshalled
            let n = rng.range(1, 4) as usize;
            let strs: Vec<(String, bool)> = (0..n).map(|_| str_arg(rng, 25)).collect();
            let refs: Vec<&str> = strs.iter().map(|(s, _)| s.as_str()).collect();
            out.hit("op_push_param_array_partial");
            let r = msg.body.push_param(&refs[..]).is_ok();
            let item = format!("p/as/{}", Val::Arr(strs.iter().map(|(s, _)| Val::Str(s.as_bytes().to_vec())).collect()).show());
            (format!("P:{}", item), Some(r))
        }
        5 => {
            let (a, _) = str_arg(rng, 30);
            let x = rng.next() as u32;
            out.hit("op_push_param2");
            let r = if rng.chance(1, 2) {
                let r = msg.body.push_param2(x, a.as_str()).is_ok();
                (format!("P:p/u/{}|{}", x, sv(&a)), r)
            } else {
                let r = msg.body.push_param2(a.as_str(), x).is_ok();
                (format!("P:{}|p/u/{}", sv(&a), x), r)
            };
            (r.0, Some(r.1))
        }
        6 => {
            let (a, _) = str_arg(rng, 25);
            let (b, _) = str_arg(rng, 25);
            let x = rng.next();
            out.hit("op_push_param3");
            let r = msg.body.push_param3(a.as_str(), x, b.as_str()).is_ok();
            (format!("P:{}|p/t/{}|{}", sv(&a), x, sv(&b)), Some(r))
        }
        7 => {
            let (a, _) = str_arg(rng, 20);
            let (b, _) = str_arg(rng, 20);
            out.hit("op_push_param4");
            let r = msg.body.push_param4(1u8, a.as_str(), 2u16, b.as_str()).is_ok();
            (format!("P:p/y/1|{}|p/q/2|{}", sv(&a), sv(&b)), Some(r))
        }
        8 => {
            let (a, _) = str_arg(rng, 15);
            let (b, _) = str_arg(rng, 15);
            let (c, _) = str_arg(rng, 15);
            out.hit("op_push_param5");
            let r = msg.body.push_param5(a.as_str(), 7u64, b.as_str(), true, c.as_str()).is_ok();
            (format!("P:{}|p/t/7|{}|p/b/1|{}", sv(&a), sv(&b), sv(&c)), Some(r))
        }
        9 => {
            let n = rng.range(0, 4) as usize;
            let strs: Vec<(String, bool)> = (0..n).map(|_| str_arg(rng, 20)).collect();
            let refs: Vec<&str> = strs.iter().map(|(s, _)| s.as_str()).collect();
            out.hit("op_push_params");
            let r = msg.body.push_params(&refs).is_ok();
            (format!("P:{}", strs.iter().map(|(s, _)| sv(s)).collect::<Vec<_>>().join("|")), Some(r))
        }
        10 => {
            out.hit("op_push_variant");
            if rng.chance(1, 2) {
                let (a, _) = str_arg(rng, 40);
                let r = msg.body.push_variant(a.as_str()).is_ok();
                (format!("P:v/s/{}", Val::Str(a.as_bytes().to_vec()).show()), Some(r))
            } else {
                let v = <Vec<(u8, u64)>>::gen(rng, 2);
                let r = msg.body.push_variant(&v).is_ok();
                (format!("P:v/a(yt)/{}", v.to_val().show()), Some(r))
            }
        }
        11 => {
            // dynamic API, possibly with an unencodable leaf deep inside
            let d = rng.range(0, 3) as usize;
            let ty = gen_ty(rng, d, false);
            let mut c = 0;
            let mut val = gen_val(rng, &ty, 2, &mut c);
            if rng.chance(1, 3) {
                val = poison_first_string(&ty, &val);
            }
            out.hit("op_push_old_param");
            match to_param(&ty, &val, &[]) {
                Some(p) => {
                    let val = from_param(&p, &|_| 0);
                    let r = msg.body.push_old_param(&p).is_ok();
                    (format!("P:p/{}/{}", ty.sig(), val.show()), Some(r))
                }
                None => ("P:".into(), Some(msg.body.push_params::<u8>(&[]).is_ok())),
            }
        }
        12 => {
            let n = rng.range(1, 3) as usize;
            let mut params = Vec::new();
            let mut items = Vec::new();
            for _ in 0..n {
                let ty = gen_ty(rng, 1, false);
                let mut c = 0;
                let mut val = gen_val(rng, &ty, 2, &mut c);
                if rng.chance(1, 5) {
                    val = poison_first_string(&ty, &val);
                }
                if let Some(p) = to_param(&ty, &val, &[]) {
                    items.push(format!("p/{}/{}", ty.sig(), from_param(&p, &|_| 0).show()));
                    params.push(p);
                }
            }
            out.hit("op_push_old_params");
            let r = msg.body.push_old_params(&params).is_ok();
            (format!("P:{}", items.join("|")), Some(r))
        }
        13 => {
            out.hit("op_push_fd");
            let ok = rng.chance(2, 3);
            let fd = if ok { good_fd() } else { taken_fd() };
            let r = msg.body.push_param(&fd).is_ok();
            (format!("P:{}", if ok { "f1" } else { "f0" }), Some(r))
        }
        14 => {
            // several descriptors, the last one possibly taken: the dups made before it must go again
            out.hit("op_push_fds_multi");
            let a = good_fd();
            let b = good_fd();
            let last_ok = rng.chance(1, 2);
            if !last_ok && rng.chance(1, 2) {
                // the last one is fine, but by the time it is marshalled the process has no descriptor left: its dup fails
                out.hit("op_push_fds_multi_emfile");
                let c = good_fd();
                let old = nofile_soft();
                let r = msg.body.push_param4(&a, &b, TripWire, &c).is_ok();
                set_nofile_soft(old);
                return ("P:f1|f1|f0".into(), Some(r));
            }
            let c = if last_ok { good_fd() } else { taken_fd() };
            let r = msg.body.push_param3(&a, &b, &c).is_ok();
            (format!("P:f1|f1|{}", if last_ok { "f1" } else { "f0" }), Some(r))
        }
        _ => {
            // ONE value pushed with a single push_param that fails after part of it was marshalled — rendered for the model as a
            // failing item: a struct (u32, taken fd) fails after 4 bytes; a struct / an array that starts with good
            // descriptors (already duplicated into the body's list) and ends with a taken one or a NUL string
            let t = taken_fd();
            let r = match rng.below(4) {
                0 => {
                    out.hit("op_push_struct_with_taken_fd");
                    msg.body.push_param((7u32, &t)).is_ok()
                }
                1 => {
                    out.hit("op_push_struct_good_fds_then_taken");
                    let (a, b) = (good_fd(), good_fd());
                    msg.body.push_param((&a, &b, &t)).is_ok()
                }
                2 => {
                    out.hit("op_push_array_good_fds_then_taken");
                    let (a, b) = (good_fd(), good_fd());
                    let v = vec![a, b, t.clone()];
                    msg.body.push_param(&v[..]).is_ok()
                }
                _ => {
                    out.hit("op_push_struct_good_fd_then_nul_string");
                    let a = good_fd();
                    msg.body.push_param((&a, 9u64, "a\0b")).is_ok()
                }
            };
            ("P:f0".into(), Some(r))
        }
    }
}

fn poison_first_string(ty: &Ty, v: &Val) -> Val {
    match (ty, v) {
        (Ty::Base('s'), Val::Str(_)) => Val::Str(b"a\0b".to_vec()),
        (Ty::Base('o'), Val::Str(_)) => Val::Str(b"/not//ok".to_vec()),
        (Ty::Base('g'), Val::Str(_)) => Val::Str(b"(".to_vec()),
        (Ty::Array(e), Val::Arr(vs)) => Val::Arr(vs.iter().map(|x| poison_first_string(e, x)).collect()),
        (Ty::Struct(fs), Val::Struct(vs)) => Val::Struct(fs.iter().zip(vs.iter()).map(|(f, x)| poison_first_string(f, x)).collect()),
        (Ty::Variant, Val::Variant(t, x)) => Val::Variant(t.clone(), Box::new(poison_first_string(t, x))),
        _ => v.clone(),
    }
}

/// Send the message over a (simulated) wire and continue on the received copy: its body lives behind the header
/// bytes in one buffer (`buf_offset` = header length), which is what a handler that forwards or amends a received
/// message works on. Only without descriptors (they do not travel through `decode_frame`).
fn through_the_wire(msg: &MarshalledMessage) -> Option<MarshalledMessage> {
    let mut m = rustbus::message_builder::MessageBuilder::new().signal("a.b", "M", "/o").build();
    m.body = rustbus::message_builder::MarshalledMessageBody::from_parts(
        msg.get_buf().to_vec(),
        0,
        vec![],
        msg.get_sig().to_string(),
        msg.body.byteorder(),
    );
    let mut frame = Vec::new();
    rustbus::wire::marshal::marshal(&m, std::num::NonZeroU32::new(7).unwrap(), &mut frame).ok()?;
    frame.extend_from_slice(m.get_buf());
    vcore::peer::decode_frame(&frame).ok()
}

/// how a history's body comes into being
#[derive(Clone, Copy, PartialEq)]
enum Start {
    Fresh,
    /// `from_parts` with `k * 8` foreign bytes in front of the (empty) body
    Offset(usize),
    /// 247..=258 single bytes first: the body signature crosses the 255 characters a SIGNATURE field can hold
    LongSig(usize),
}

fn builder_history(out: &mut Out, rng: &mut Prng, len: usize, start: Start) {
    let bo = *rng.pick(&ORDERS);
    let mut msg = MarshalledMessage::with_byteorder(bo);
    let mut ops = Vec::new();
    let mut obs = Vec::new();
    let fds_before = count_open_fds();
    match start {
        Start::Fresh => {}
        Start::Offset(k) => {
            out.hit("start_offset_body");
            msg.body = rustbus::message_builder::MarshalledMessageBody::from_parts(vec![0xEE; 8 * k], 8 * k, vec![], String::new(), bo);
        }
        Start::LongSig(n) => {
            out.hit("start_long_signature");
            for i in 0..n {
                let b = (i % 251) as u8;
                let r = msg.body.push_param(b).is_ok();
                ops.push(format!("P:p/y/{}", b));
                obs.push(format!("{} {}", if r { "ok" } else { "err" }, state(&msg)));
            }
        }
    }
    for _ in 0..len {
        // now and then the message travels: the rest of the history works on the received copy
        if rng.chance(1, 12) && msg.body.get_fds().is_empty() && msg.get_sig().len() <= 255 {
            if let Some(m2) = through_the_wire(&msg) {
                if state(&m2) != state(&msg) {
                    out.violation(&format!("c15.run {} {}", bo_name(bo), ops.join(";")), &format!("the received copy differs: sent [{}] received [{}]", state(&msg), state(&m2)));
                }
                out.hit("continued_on_received_copy");
                msg = m2;
            }
        }
        let before = state(&msg);
        let r = guard(|| builder_op(rng, &mut msg, out));
        let (op, res) = match r {
            Ok(x) => x,
            Err(p) => {
                out.violation(&format!("c15.run {} {}", bo_name(bo), ops.join(";")), &format!("a push panicked: {}", p));
                return;
            }
        };
        let after = state(&msg);
        let tag = match res {
            None => "reset",
            Some(true) => "ok",
            Some(false) => "err",
        };
        let req_so_far = format!("c15.run {} {};{}", bo_name(bo), ops.join(";"), op);
        // the property, directly
        if res == Some(false) && after != before {
            out.violation(&req_so_far, &format!("a failed push left a trace: before [{}] after [{}]", before, after));
        }
        if res.is_none() && after != "buf=- sig=- nfds=0" {
            out.violation(&req_so_far, &format!("reset left something attached: {}", after));
        }
        // (a body whose signature is longer than 255 characters cannot be sent and does not validate; that is not
        // the builder's business: pushes are not limited by it)
        if msg.get_sig().len() <= 255 && msg.body.validate().is_err() {
            out.violation(&req_so_far, &format!("the body does not validate after the operation: {}", after));
        }
        out.hit(&format!("result_{}", tag));
        ops.push(op);
        obs.push(format!("{} {}", tag, after));
    }
    drop(msg);
    if count_open_fds() != fds_before {
        out.violation(&format!("c15.run {} {}", bo_name(bo), ops.join(";")), "descriptors duplicated into the body were not closed when it was dropped / rolled back");
    }
    out.case(&format!("c15.run {} {}", bo_name(bo), ops.join(";")), &obs.join(" ; "), true);
}

fn count_open_fds() -> usize {
    std::fs::read_dir("/proc/self/fd").map(|d| d.count()).unwrap_or(0)
}

// ------------------------------------------------------------------------------------------------

fn err_name(e: &UnmarshalError) -> &'static str {
    match e {
        UnmarshalError::EndOfMessage => "end",
        UnmarshalError::WrongSignature => "wrongsig",
        _ => "decode",
    }
}

fn pstate(p: &rustbus::message_builder::MessageBodyParser) -> String {
    format!("next={} left={}", p.get_next_sig().unwrap_or("~"), p.sigs_left())
}

fn parser_history(out: &mut Out, rng: &mut Prng, len: usize) {
    let bo = *rng.pick(&ORDERS);
    let mut msg = MarshalledMessage::with_byteorder(bo);
    // DIRECTED histories (one in five): a body of a random first value followed by y, s, t, u, read by a script in which
    // dynamic gets alternate with multi-gets that fail after zero, one or two inner values were already decoded
    let directed = rng.chance(1, 5);
    let script: Vec<u64> = if directed { vec![9, 10, 9, 11, 12, 9, 12, 9, 9, 9] } else { vec![] };
    let len = if directed { script.len() } else { len };
    if directed {
        out.hit("parser_history_directed");
    }
    // a body from the same menu the gets use, so that matches are frequent
    let n = if directed { 1 } else { rng.range(0, 5) };
    for _ in 0..n {
        match rng.below(8) {
            0 => msg.body.push_param(u8::gen(rng, 0)).unwrap(),
            1 => msg.body.push_param(u32::gen(rng, 0)).unwrap(),
            2 => msg.body.push_param(u64::gen(rng, 0)).unwrap(),
            3 => msg.body.push_param(String::gen(rng, 0)).unwrap(),
            4 => msg.body.push_param(<Vec<u64>>::gen(rng, 2)).unwrap(),
            5 => msg.body.push_param(<(u8, u64)>::gen(rng, 2)).unwrap(),
            6 => msg.body.push_param(&<HashMap<String, u32>>::gen(rng, 2)).unwrap(),
            _ => msg.body.push_variant(u32::gen(rng, 0)).unwrap(),
        }
    }
    if directed {
        msg.body.push_param(u8::gen(rng, 0)).unwrap();
        msg.body.push_param(String::gen(rng, 0)).unwrap();
        msg.body.push_param(u64::gen(rng, 0)).unwrap();
        msg.body.push_param(u32::gen(rng, 0)).unwrap();
    }
    let mut gets = Vec::new();
    let mut obs = Vec::new();
    let mut p = msg.body.parser();
    for step in 0..len {
        let before = pstate(&p);
        macro_rules! g1 {
            ($t:ty) => {{
                gets.push(format!("g/{}", <$t>::ty().sig()));
                match p.get::<$t>() {
                    Ok(v) => (format!("ok {}", v.to_val().canon(&<$t>::ty()).show()), true),
                    Err(e) => (format!("err:{}", err_name(&e)), false),
                }
            }};
        }
        let kind = script.get(step).copied().unwrap_or_else(|| rng.below(16));
        let (r, ok) = match kind {
            0 => g1!(u8),
            1 => g1!(u32),
            2 => g1!(u64),
            3 => g1!(String),
            4 => g1!(Vec<u64>),
            5 => g1!((u8, u64)),
            6 => g1!(HashMap<String, u32>),
            7 => g1!(Var<u32>),
            8 => g1!(Vec<String>),
            // a struct type that is a proper PREFIX of the (yt) struct of the menu, and one that extends it
            14 => g1!((u8,)),
            15 => g1!((u8, u64, u8)),
            9 => {
                gets.push("d".into());
                match p.get_param() {
                    Ok(prm) => {
                        let ty = Ty::from_sig_type(&prm.sig());
                        (format!("ok {}", from_param(&prm, &|_| 0).canon(&ty).show()), true)
                    }
                    Err(e) => (format!("err:{}", err_name(&e)), false),
                }
            }
            10 => {
                gets.push("g/y,u".into());
                match p.get2::<u8, u32>() {
                    Ok((a, b)) => (format!("ok {} {}", a, b), true),
                    Err(e) => (format!("err:{}", err_name(&e)), false),
                }
            }
            11 => {
                gets.push("g/u,s".into());
                match p.get2::<u32, String>() {
                    Ok((a, b)) => (format!("ok {} {}", a, b.to_val().show()), true),
                    Err(e) => (format!("err:{}", err_name(&e)), false),
                }
            }
            12 => {
                gets.push("g/t,s,at".into());
                match p.get3::<u64, String, Vec<u64>>() {
                    Ok((a, b, c)) => (format!("ok {} {} {}", a, b.to_val().show(), c.to_val().show()), true),
                    Err(e) => (format!("err:{}", err_name(&e)), false),
                }
            }
            _ => {
                gets.push("g/y,y,u,t".into());
                match p.get4::<u8, u8, u32, u64>() {
                    Ok((a, b, c, d)) => (format!("ok {} {} {} {}", a, b, c, d), true),
                    Err(e) => (format!("err:{}", err_name(&e)), false),
                }
            }
        };
        let after = pstate(&p);
        if !ok && after != before {
            out.violation(
                &format!("c15.parse {} {} {} {} {}", bo_name(bo), if msg.get_sig().is_empty() { "-" } else { msg.get_sig() }, 0, hex(msg.get_buf()), gets.join(";")),
                &format!("a failed get moved the parser: before [{}] after [{}]", before, after),
            );
        }
        out.hit(if ok { "get_ok" } else if r.contains("wrongsig") { "get_wrongsig" } else if r.contains("end") { "get_end" } else { "get_decode_err" });
        obs.push(format!("{} {}", r, after));
    }
    let req = format!("c15.parse {} {} 0 {} {}", bo_name(bo), if msg.get_sig().is_empty() { "-" } else { msg.get_sig() }, hex(msg.get_buf()), gets.join(";"));
    out.case(&req, &obs.join(" ; "), true);
}

/// parser on corrupted bodies: a get that fails while decoding must not move either
fn parser_on_corrupt(out: &mut Out, rng: &mut Prng) {
    let bo = *rng.pick(&ORDERS);
    let mut msg = MarshalledMessage::with_byteorder(bo);
    msg.body.push_param(7u32).unwrap();
    msg.body.push_param("hello").unwrap();
    msg.body.push_param(vec![1u64, 2]).unwrap();
    let mut buf = msg.get_buf().to_vec();
    let i = rng.below(buf.len() as u64) as usize;
    buf[i] ^= 1 << rng.below(8);
    let body = rustbus::message_builder::MarshalledMessageBody::from_parts(buf.clone(), 0, vec![], "usat".into(), bo);
    let mut p = body.parser();
    let mut obs = Vec::new();
    macro_rules! step {
        ($e:expr, $show:expr) => {{
            let before = pstate(&p);
            let (r, ok) = match $e {
                Ok(v) => (format!("ok {}", $show(v)), true),
                Err(e) => (format!("err:{}", err_name(&e)), false),
            };
            let after = pstate(&p);
            if !ok && before != after {
                out.violation(&format!("c15.parse {} usat 0 {} g/u;g/s;g/at", bo_name(bo), hex(&buf)), "a get failing inside the decoder moved the parser");
            }
            obs.push(format!("{} {}", r, after));
        }};
    }
    step!(p.get::<u32>(), |v: u32| v.to_string());
    step!(p.get::<String>(), |v: String| v.to_val().show());
    step!(p.get::<Vec<u64>>(), |v: Vec<u64>| v.to_val().show());
    out.hit("parser_on_corrupt");
    out.case(&format!("c15.parse {} usat 0 {} g/u;g/s;g/at", bo_name(bo), hex(&buf)), &obs.join(" ; "), true);
}

/// A get that fails INSIDE the decoder (after the signature matched and bytes were read) leaves the parser exactly where it
/// was: asking again gives the same error again, the dynamic get gives its error twice as well, and everything equals what
/// a fresh parser brought to the same position answers.
fn failed_get_is_repeatable(out: &mut Out, rng: &mut Prng) {
    use rustbus::message_builder::MarshalledMessageBody;
    let bo = *rng.pick(&ORDERS);
    let u = |v: u32| if bo == rustbus::ByteOrder::LittleEndian { v.to_le_bytes() } else { v.to_be_bytes() };
    // (signature of the bad value, its bytes starting at offset 4: behind the leading u32; structs are padded to 8 below)
    let mut bads: Vec<(&str, Vec<u8>)> = Vec::new();
    bads.push(("b", u(2).to_vec()));
    bads.push(("(ub)", [u(7), u(2)].concat()));
    bads.push(("(uub)", [u(7), u(8), u(3)].concat()));
    bads.push(("s", [&u(3)[..], b"abc\x01"].concat()));
    bads.push(("ab", [u(8), u(1), u(2)].concat()));
    bads.push(("a(ub)", [u(16), u(1), u(1), u(1), u(5)].concat()));
    bads.push(("h", u(5).to_vec()));
    bads.push(("(uh)", [u(7), u(5)].concat()));
    for (sig, bad) in bads {
        // u32, padding to 8, the bad value, padding to 4, u32
        let mut buf = u(0x11223344).to_vec();
        if sig.starts_with('(') {
            buf.extend_from_slice(&[0, 0, 0, 0]);
        }
        buf.extend_from_slice(&bad);
        while buf.len() % 4 != 0 {
            buf.push(0);
        }
        buf.extend_from_slice(&u(0x55667788));
        let full_sig = format!("u{}u", sig);
        let body = MarshalledMessageBody::from_parts(buf.clone(), 0, vec![], full_sig.clone(), bo);
        macro_rules! probe {
            ($t:ty) => {{
                let show = |r: Result<$t, UnmarshalError>| match r {
                    Ok(_) => "ok".to_string(),
                    Err(e) => format!("err:{:?}", e),
                };
                let mut fresh = body.parser();
                let _ = fresh.get::<u32>();
                let r0 = show(fresh.get::<$t>());
                let mut p = body.parser();
                let _ = p.get::<u32>();
                let r1 = show(p.get::<$t>());
                let r2 = show(p.get::<$t>());
                let d1 = p.get_param().map(|_| ()).map_err(|e| format!("{:?}", e));
                let d2 = p.get_param().map(|_| ()).map_err(|e| format!("{:?}", e));
                let r3 = show(p.get::<$t>());
                let mut fresh2 = body.parser();
                let _ = fresh2.get::<u32>();
                let d0 = fresh2.get_param().map(|_| ()).map_err(|e| format!("{:?}", e));
                let tag = format!("{} body {} {}", bo_name(bo), full_sig, hex(&buf));
                if r0 == "ok" {
                    out.violation("failed-get", &format!("the probe value decodes ({}): not a failing get", tag));
                }
                if !(r1 == r0 && r2 == r0 && r3 == r0) {
                    out.violation("failed-get", &format!("a get that failed inside the decoder is not repeatable: fresh parser {}, then {} / {} / after two dynamic gets {} ({})", r0, r1, r2, r3, tag));
                }
                if !(d1 == d0 && d2 == d0) {
                    out.violation("failed-get", &format!("get_param after a failed get: fresh parser {:?}, then {:?} / {:?} ({})", d0, d1, d2, tag));
                }
                out.hit("failed_get_repeatable");
            }};
        }
        match sig {
            "b" => probe!(bool),
            "(ub)" => probe!((u32, bool)),
            "(uub)" => probe!((u32, u32, bool)),
            "s" => probe!(String),
            "ab" => probe!(Vec<bool>),
            "a(ub)" => probe!(Vec<(u32, bool)>),
            "h" => probe!(UnixFd),
            _ => probe!((u32, UnixFd)),
        }
    }
}

pub fn run(cfg: &Cfg) {
    std::panic::set_hook(Box::new(|_| {}));
    let mut out = Out::new(&cfg.outdir);
    let mut rng = Prng::new(cfg.seed);
    let n = if cfg.thorough { 6000 } else { 600 };
    for _ in 0..n {
        let len = if cfg.thorough { rng.range(1, 40) } else { rng.range(1, 10) } as usize;
        let start = match rng.below(12) {
            0 | 1 => Start::Offset(1 + rng.below(3) as usize),
            2 => Start::LongSig(247 + rng.below(12) as usize),
            _ => Start::Fresh,
        };
        builder_history(&mut out, &mut rng, len, start);
    }
    for _ in 0..n {
        let len = if cfg.thorough { rng.range(1, 20) } else { rng.range(1, 8) } as usize;
        parser_history(&mut out, &mut rng, len);
    }
    for _ in 0..n {
        parser_on_corrupt(&mut out, &mut rng);
    }
    for _ in 0..4 {
        failed_get_is_repeatable(&mut out, &mut rng);
    }
    let _ = ByteOrder::LittleEndian;
    out.finish(
        "bodies: fresh, from_parts behind 8/16/24 foreign bytes (buf_offset != 0), continued on the received copy after a trip over the wire (body behind the header in one buffer), started with 247..258 single bytes (signature crossing 255 characters); random histories over 16 builder operations (push_param of 8 typed kinds, &str with NUL, a struct / an array failing at an inner element after partial output, push_param2..5 and push_params with a NUL string at any position, push_variant, push_old_param(s) with a poisoned leaf, valid / taken descriptors, three descriptors of which the last is taken or cannot be duplicated any more (EMFILE injected by an element marshalled before it), a struct with a taken descriptor, reset): after every operation buffer, signature, descriptor count and validate() are observed; parser histories over 14 get kinds (9 single types, get_param, get2/3/4) on bodies drawn from the same menu (one in five directed: dynamic gets alternating with multi-gets that fail after 0, 1 or 2 inner values were decoded), and on bodies with one flipped bit; distinct by request",
        false,
    );
}
