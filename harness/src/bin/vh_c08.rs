// engine binary of property C08 (one binary per property: they compile in parallel and a check rebuilds only its own)
#![allow(dead_code)]
#[path = "../eng_c08.rs"]
mod eng_c08;

fn main() {
    let (_, cfg) = vcore::common::cfg_from_args();
    eng_c08::run(&cfg)
}
