// engine binary of property C04 (one binary per property: they compile in parallel and a check rebuilds only its own)
// The same binary is its own WORKER: `vh_c04 --worker <casefile> <start> <end>` runs the cases of a batch file in a
// separate process (2 MiB stack thread, counting allocator) so that a crash of the library kills only the worker.
#![allow(dead_code)]
#[path = "../eng_c04.rs"]
mod eng_c04;

#[global_allocator]
static ALLOC: eng_c04::CountingAlloc = eng_c04::CountingAlloc;

fn main() {
    let args: Vec<String> = std::env::args().collect();
    if args.len() >= 2 && args[1] == "--worker" {
        eng_c04::worker_main(&args[2..]);
        return;
    }
    let (_, cfg) = vcore::common::cfg_from_args();
    eng_c04::run(&cfg)
}
