// engine binary of C01, C02, C03 (the wire engine lives in vcore)
use vcore::eng_wire;

fn main() {
    let (pid, cfg) = vcore::common::cfg_from_args();
    match pid.as_str() {
        "C01" => eng_wire::run(&cfg, eng_wire::Mode::C01),
        "C02" => eng_wire::run(&cfg, eng_wire::Mode::C02),
        "C03" => eng_wire::run(&cfg, eng_wire::Mode::C03),
        other => {
            eprintln!("unknown property {}", other);
            std::process::exit(2);
        }
    }
}
