// engine binary of property C19 (one binary per property: they compile in parallel and a check rebuilds only its own)
#![allow(dead_code)]
#[path = "../eng_c19.rs"]
mod eng_c19;

fn main() {
    let (_, cfg) = vcore::common::cfg_from_args();
    eng_c19::run(&cfg)
}
