// engine binary of property C18 (one binary per property: they compile in parallel and a check rebuilds only its own);
// the counting `#[global_allocator]` lives in eng_c18.rs
#![allow(dead_code)]
#[path = "../eng_c18.rs"]
mod eng_c18;

fn main() {
    let (_, cfg) = vcore::common::cfg_from_args();
    eng_c18::run(&cfg)
}
