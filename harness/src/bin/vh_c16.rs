// engine binary of property C16 (one binary per property: they compile in parallel and a check rebuilds only its own)
#![allow(dead_code)]
#[path = "../eng_c16.rs"]
mod eng_c16;

fn main() {
    let (_, cfg) = vcore::common::cfg_from_args();
    eng_c16::run(&cfg)
}
