// engine binary of C05, C06 (header engine; uses the name oracle of the C08 engine)
#![allow(dead_code)]
#[path = "../eng_c08.rs"]
mod eng_c08;
#[path = "../eng_hdr.rs"]
mod eng_hdr;

fn main() {
    let (pid, cfg) = vcore::common::cfg_from_args();
    match pid.as_str() {
        "C05" => eng_hdr::run_c05(&cfg),
        "C06" => eng_hdr::run_c06(&cfg),
        other => {
            eprintln!("unknown property {}", other);
            std::process::exit(2);
        }
    }
}
