mod eng_c07;
mod eng_c08;
mod eng_c09;
mod eng_c10;
mod eng_c11;
mod eng_c12;
mod eng_c14;
mod eng_c17;
mod eng_c19;
mod eng_c13;
mod eng_c15;
mod eng_c16;
mod eng_hdr;
mod eng_c20;

use vcore::common::Cfg;
use vcore::eng_wire;

fn main() {
    let args: Vec<String> = std::env::args().collect();
    if args.len() < 5 {
        eprintln!("usage: vharness <property> <quick|thorough> <seed> <outdir> [replay-request-line]");
        std::process::exit(2);
    }
    let cfg = Cfg {
        thorough: args[2] == "thorough",
        seed: args[3].parse().unwrap_or(1),
        outdir: args[4].clone(),
        replay: args.get(5).cloned(),
    };
    match args[1].as_str() {
        "C01" => eng_wire::run(&cfg, eng_wire::Mode::C01),
        "C02" => eng_wire::run(&cfg, eng_wire::Mode::C02),
        "C03" => eng_wire::run(&cfg, eng_wire::Mode::C03),
        "C05" => eng_hdr::run_c05(&cfg),
        "C06" => eng_hdr::run_c06(&cfg),
        "C07" => eng_c07::run(&cfg),
        "C08" => eng_c08::run(&cfg),
        "C16" => eng_c16::run(&cfg),
        "C15" => eng_c15::run(&cfg),
        "C13" => eng_c13::run(&cfg),
        "C20" => eng_c20::run(&cfg),
        "C09" => eng_c09::run(&cfg),
        "C10" => eng_c10::run(&cfg),
        "C11" => eng_c11::run(&cfg),
        "C12" => eng_c12::run(&cfg),
        "C14" => eng_c14::run(&cfg),
        "C17" => eng_c17::run(&cfg),
        "C19" => eng_c19::run(&cfg),
        other => {
            eprintln!("unknown property {}", other);
            std::process::exit(2);
        }
    }
}
