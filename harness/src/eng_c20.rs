//! C20: machine id formatter (through the verif hook), get_machine_id stability through the public
//! path, handle_peer_message / filter_peer over generated headers against the scripted peer.
use vcore::common::*;
use vcore::peer;
use rustbus::message_builder::{MarshalledMessage, MessageBuilder};
use std::num::NonZeroU32;

fn is_hex32(s: &str) -> bool {
    s.len() == 32 && s.bytes().all(|b| b.is_ascii_digit() || (b'A'..=b'F').contains(&b))
}

/// The library keeps the machine id under a fixed path in /tmp: two runs of this engine at the same time (parallel
/// scratch slots) would disturb each other. An advisory lock serialises them; it is released when the process exits.
fn lock_machine_id_path() -> Option<std::fs::File> {
    use std::os::unix::io::AsRawFd;
    let f = std::fs::OpenOptions::new().create(true).write(true).open("/tmp/dbus_machine_uuid.vh_lock").ok()?;
    unsafe { libc::flock(f.as_raw_fd(), libc::LOCK_EX) };
    Some(f)
}

#[allow(clippy::too_many_arguments)]
fn handle_case(
    out: &mut Out,
    rng: &mut Prng,
    conn: &mut rustbus::connection::ll_conn::DuplexConn,
    server: &mut std::os::unix::net::UnixStream,
    first_id: &mut Option<String>,
    msg: &mut MarshalledMessage,
    sender: &str,
    i: Option<&str>,
    m: Option<&str>,
    sample: bool,
) {
    // the handler as a whole against the model (result, the reply with its correlation fields and body, the id
    // file before and after); every fourth time from an empty store, every third time on a connection whose
    // peer is gone (the send is refused)
    let read_cell = || std::fs::read_to_string("/tmp/dbus_machine_uuid").ok();
    if rng.below(4) == 0 {
        let _ = std::fs::remove_file("/tmp/dbus_machine_uuid");
        *first_id = None;
    }
    let dead = rng.below(3) == 0;
    let before = read_cell();
    let serial2 = 1 + rng.below(u32::MAX as u64 - 1) as u32;
    msg.dynheader.serial = NonZeroU32::new(serial2);
    // header flags are not the handler's business: NO_REPLY_EXPECTED (1), NO_AUTO_START (2), ALLOW_INTERACTIVE_AUTHORIZATION
    // (4) and undefined bits in any combination
    msg.flags = *rng.pick(&[0u8, 0, 1, 2, 3, 4, 5, 7, 0x80, 0xff]);
    // arguments are not the handler's business either: one call in three carries a body
    if rng.below(3) == 0 {
        msg.body.reset();
        match rng.below(3) {
            0 => msg.body.push_param(7u32).unwrap(),
            1 => msg.body.push_param("arg").unwrap(),
            _ => msg.body.push_param((1u8, vec![2u64])).unwrap(),
        }
    } else {
        msg.body.reset();
    }
    // only a method CALL is answered: one message in four is a signal, a return or an error that names the same interface
    // and member
    let typ_code = if rng.below(4) == 0 { 2 + rng.below(3) as u8 } else { 1 };
    msg.typ = match typ_code {
        1 => rustbus::MessageType::Call,
        2 => rustbus::MessageType::Reply,
        3 => rustbus::MessageType::Error,
        _ => rustbus::MessageType::Signal,
    };
    let (res2, written2) = if dead {
        let (mut c2, s2) = peer::connect_pair(false);
        drop(s2);
        (rustbus::peer::handle_peer_message(msg, &mut c2), Vec::new())
    } else {
        let r = rustbus::peer::handle_peer_message(msg, conn);
        (r, peer::drain(server))
    };
    let after = read_cell();
    // the draw is the environment's: when an id was created, the model is given the draw that prints as it
    let (mut d1, mut d2, mut d3) = (0u64, 0u32, 0u32);
    if before.is_none() {
        if let Some(a) = &after {
            if is_hex32(a) {
                d1 = u64::from_str_radix(&a[0..16], 16).unwrap();
                d2 = u32::from_str_radix(&a[16..24], 16).unwrap();
                d3 = u32::from_str_radix(&a[24..32], 16).unwrap();
            }
        }
    }
    let cell_s = |c: &Option<String>| c.clone().unwrap_or("~".into());
    let req2 = format!(
        "c20.handle {} {} {} {} {} {} {} {} {} {}",
        serial2,
        cps(sender),
        i.map(cps).unwrap_or("~".into()),
        m.map(cps).unwrap_or("~".into()),
        cell_s(&before),
        d1,
        d2,
        d3,
        if dead { 0 } else { 1 },
        typ_code
    );
    let frames2 = peer::split_frames(&written2).unwrap_or_default();
    let mut reps = Vec::new();
    for f in &frames2 {
        let r = peer::decode_frame(f).expect("reply decodes");
        let body = if r.get_buf().is_empty() { "~".to_string() } else { r.body.parser().get::<String>().unwrap_or("?".into()) };
        reps.push(format!(
            "[rs={} dest={} err={} serial={} body={}]",
            r.dynheader.response_serial.map(|x| x.get().to_string()).unwrap_or("~".into()),
            r.dynheader.destination.clone().unwrap_or("~".into()),
            !matches!(r.typ, rustbus::MessageType::Reply),
            "~",
            body
        ));
        if body != "~" && first_id.is_none() {
            *first_id = Some(body.clone());
        }
    }
    let rs = match &res2 {
        Ok(b) => format!("ok:{}", b),
        Err(_) => "senderr".to_string(),
    };
    let obs2 = format!("{} n={} {} cell={}", rs, frames2.len(), reps.join(" "), cell_s(&after));
    if typ_code != 1 && (!matches!(res2, Ok(false)) || !written2.is_empty()) {
        out.violation(&req2, &format!("a message that is not a method call ({:?}) was handled / answered: {:?}, {} bytes written", msg.typ, res2.as_ref().map_err(|_| ()), written2.len()));
    }
    if written2.len() > 0 && frames2.is_empty() {
        out.violation(&req2, "bytes written that are not whole frames");
    }
    out.hit(match (&res2, dead, before.is_none()) {
        (Ok(true), _, true) => "handle_replied_fresh_store",
        (Ok(true), _, false) => "handle_replied_stored",
        (Ok(false), _, _) if typ_code != 1 => "handle_not_a_call",
        (Ok(false), _, _) => "handle_nothandled",
        (Err(_), _, true) => "handle_refused_send_fresh_store",
        (Err(_), _, false) => "handle_refused_send_stored",
    });
    out.case(&req2, &obs2, sample);
}

pub fn run(cfg: &Cfg) {
    let _path_lock = lock_machine_id_path();
    let mut out = Out::new(&cfg.outdir);
    let mut rng = Prng::new(cfg.seed);

    // 1. formatter: boundary triples (every power of 16 +-1 per word) and random ones
    let mut r1s: Vec<u64> = vec![0, 1, 9, 10, 15, u64::MAX];
    for k in 1..16 {
        let p = 1u64 << (4 * k);
        r1s.extend_from_slice(&[p - 1, p, p + 1]);
    }
    let mut r2s: Vec<u32> = vec![0, 1, 15, u32::MAX];
    for k in 1..8 {
        let p = 1u32 << (4 * k);
        r2s.extend_from_slice(&[p - 1, p, p + 1]);
    }
    let nrand = if cfg.thorough { 1_000_000 } else { 10_000 };
    let mut triples: Vec<(u64, u32, u32)> = Vec::new();
    for &a in &r1s {
        for &b in &r2s {
            triples.push((a, b, *rng.pick(&r2s)));
            triples.push((a, *rng.pick(&r2s), b));
        }
    }
    for _ in 0..nrand {
        // random magnitude so that short values are as likely as long ones
        let a = rng.next() >> rng.below(64);
        let b = (rng.next() >> rng.below(32)) as u32 >> rng.below(32);
        let c = (rng.next() as u32) >> rng.below(32);
        triples.push((a, b, c));
    }
    for (a, b, c) in triples {
        let id = rustbus::verif_hooks::format_machine_uuid(a, b, c);
        let req = format!("c20.fmt {} {} {}", a, b, c);
        if !is_hex32(&id) {
            out.violation(&req, &format!("machine id {:?} is not 32 hex digits", id));
        }
        let short = a < (1 << 60) || b < (1 << 28) || c < (1 << 28);
        out.hit(if short { "fmt_with_leading_zero" } else { "fmt_full_width" });
        out.case(&req, &id, short);
    }

    // 2. stability through the public path: GetMachineId twice (file removed first), ids equal and 32 hex
    // 3. decision logic over generated headers
    let ifaces: Vec<Option<&str>> = vec![
        None,
        Some("org.freedesktop.DBus.Peer"),
        Some("org.freedesktop.DBus.Peer2"),
        Some("org.freedesktop.DBus.Pee"),
        Some("org.freedesktop.DBus.Properties"),
        Some("a.b"),
    ];
    let members: Vec<Option<&str>> = vec![
        None,
        Some("Ping"),
        Some("GetMachineId"),
        Some("ping"),
        Some("Pin"),
        Some("Pingg"),
        Some("GetMachineID"),
        Some("Get"),
    ];
    let (mut conn, mut server) = peer::connect_pair(false);
    let rounds = if cfg.thorough { 20 } else { 2 };
    let mut first_id: Option<String> = None;
    let _ = std::fs::remove_file("/tmp/dbus_machine_uuid");
    for round in 0..rounds {
        for i in &ifaces {
            for m in &members {
                let serial = 1 + rng.below(u32::MAX as u64 - 1) as u32;
                let sender = format!(":1.{}", rng.below(1000));
                // build the received message as it would arrive: a call with the given header
                let mut msg: MarshalledMessage = MessageBuilder::new()
                    .call(m.unwrap_or("X").to_string())
                    .at(sender.clone())
                    .on("/a/b")
                    .build();
                msg.dynheader.interface = i.map(|s| s.to_string());
                msg.dynheader.member = m.map(|s| s.to_string());
                msg.dynheader.sender = Some(sender.clone());
                msg.dynheader.destination = None;
                msg.dynheader.serial = NonZeroU32::new(serial);
                let filt = rustbus::peer::filter_peer(&msg.dynheader);
                let res = rustbus::peer::handle_peer_message(&msg, &mut conn);
                let written = peer::drain(&mut server);
                let req = format!(
                    "c20.peer {} {}",
                    i.map(cps).unwrap_or("~".into()),
                    m.map(cps).unwrap_or("~".into())
                );
                let obs;
                match res {
                    Ok(false) => {
                        obs = format!("nothandled filter={}", filt);
                        if !written.is_empty() {
                            out.violation(&req, "not handled but bytes were written to the peer");
                        }
                    }
                    Ok(true) => {
                        // decode what the peer got: exactly one method return
                        let frames = peer::split_frames(&written).unwrap_or_default();
                        if frames.len() != 1 {
                            out.violation(&req, &format!("{} frames written for one handled call", frames.len()));
                            out.case(&req, "replied-badly", false);
                            continue;
                        }
                        let reply = peer::decode_frame(&frames[0]).expect("reply decodes");
                        let mut ok = true;
                        ok &= matches!(reply.typ, rustbus::MessageType::Reply);
                        ok &= reply.dynheader.response_serial == NonZeroU32::new(serial);
                        ok &= reply.dynheader.destination.as_deref() == Some(sender.as_str());
                        if !ok {
                            out.violation(&req, &format!("reply is not exactly one method return to the caller with its serial: {:?}", reply.dynheader));
                        }
                        let with_id = !reply.get_buf().is_empty();
                        if with_id {
                            let id: String = reply.body.parser().get().expect("id string");
                            if !is_hex32(&id) {
                                out.violation(&req, &format!("GetMachineId returned {:?}", id));
                            }
                            match &first_id {
                                None => first_id = Some(id),
                                Some(f) => {
                                    if *f != id {
                                        out.violation(&req, "machine id changed between calls while the stored id existed");
                                    }
                                }
                            }
                        }
                        obs = format!("replied id={} filter={}", with_id, filt);
                    }
                    Err(e) => obs = format!("error {:?}", e),
                }
                out.hit(if obs.starts_with("replied") { "peer_replied" } else { "peer_nothandled" });
                out.case(&req, &obs, round == 0);

                handle_case(&mut out, &mut rng, &mut conn, &mut server, &mut first_id, &mut msg, &sender, *i, *m, round == 0);
            }
        }
    }
    // 3b. the same whole-handler comparison, weighted to the handled calls: fresh / stored id x live / dead connection
    let n_handle = if cfg.thorough { 600 } else { 60 };
    for k in 0..n_handle {
        let i = if rng.below(8) == 0 { *rng.pick(&ifaces) } else { Some("org.freedesktop.DBus.Peer") };
        let m = if rng.below(6) == 0 { *rng.pick(&members) } else if k % 2 == 0 { Some("GetMachineId") } else { Some("Ping") };
        let sender = format!(":1.{}", rng.below(1000));
        let mut msg: MarshalledMessage = MessageBuilder::new().call(m.unwrap_or("X").to_string()).at(sender.clone()).on("/a/b").build();
        msg.dynheader.interface = i.map(|s| s.to_string());
        msg.dynheader.member = m.map(|s| s.to_string());
        msg.dynheader.sender = Some(sender.clone());
        msg.dynheader.destination = None;
        handle_case(&mut out, &mut rng, &mut conn, &mut server, &mut first_id, &mut msg, &sender, i, m, k < 20);
    }
    // 4. get_machine_id cell model, tied through repeated creation on the real file
    let creations = if cfg.thorough { 200 } else { 20 };
    for _ in 0..creations {
        let _ = std::fs::remove_file("/tmp/dbus_machine_uuid");
        let mut ids = Vec::new();
        for _ in 0..3 {
            let mut msg: MarshalledMessage = MessageBuilder::new().call("GetMachineId").at(":1.1").on("/").build();
            msg.dynheader.interface = Some("org.freedesktop.DBus.Peer".into());
            msg.dynheader.sender = Some(":1.5".into());
            msg.dynheader.serial = NonZeroU32::new(7);
            let _ = rustbus::peer::handle_peer_message(&msg, &mut conn).unwrap();
            let written = peer::drain(&mut server);
            let reply = peer::decode_frame(&written).unwrap();
            let id: String = reply.body.parser().get().unwrap();
            ids.push(id);
        }
        let stored = std::fs::read_to_string("/tmp/dbus_machine_uuid").unwrap_or_default();
        if !(ids.iter().all(|i| *i == ids[0]) && is_hex32(&ids[0]) && stored == ids[0]) {
            out.violation("real-creation", &format!("ids {:?} stored {:?}", ids, stored));
        }
        out.hit("real_creation");
        // the stored id is REPLACED (another process stored a new one; the file never looked absent to this process): the
        // answer is the stored id, not one remembered from before
        let other = format!("{:032X}", 0x0123456789ABCDEF0123456789ABCDEFu128.rotate_left((ids[0].len() as u32 + ids[0].as_bytes()[0] as u32) % 64));
        std::fs::write("/tmp/dbus_machine_uuid.vh_tmp", &other).unwrap();
        std::fs::rename("/tmp/dbus_machine_uuid.vh_tmp", "/tmp/dbus_machine_uuid").unwrap();
        let mut msg: MarshalledMessage = MessageBuilder::new().call("GetMachineId").at(":1.1").on("/").build();
        msg.dynheader.interface = Some("org.freedesktop.DBus.Peer".into());
        msg.dynheader.sender = Some(":1.5".into());
        msg.dynheader.serial = NonZeroU32::new(8);
        let _ = rustbus::peer::handle_peer_message(&msg, &mut conn).unwrap();
        let written = peer::drain(&mut server);
        let id: String = peer::decode_frame(&written).unwrap().body.parser().get().unwrap();
        if id != other {
            out.violation("stored-id-replaced", &format!("the stored id is {:?}, GetMachineId answered {:?} (the id stored before was {:?})", other, id, ids[0]));
        }
        out.hit("stored_id_replaced");
    }
    // 4b. unusual environments around the stored id: the id file is a symbolic link to the file that holds the id; TMPDIR
    //     points elsewhere (the id lives in /tmp/dbus_machine_uuid whatever the environment says). The stored id is
    //     answered on every call and is left alone.
    {
        let ask = |conn: &mut rustbus::connection::ll_conn::DuplexConn, server: &mut std::os::unix::net::UnixStream| -> String {
            let mut msg: MarshalledMessage = MessageBuilder::new().call("GetMachineId").at(":1.1").on("/").build();
            msg.dynheader.interface = Some("org.freedesktop.DBus.Peer".into());
            msg.dynheader.sender = Some(":1.5".into());
            msg.dynheader.serial = NonZeroU32::new(9);
            let _ = rustbus::peer::handle_peer_message(&msg, conn).unwrap();
            let written = peer::drain(server);
            peer::decode_frame(&written).unwrap().body.parser().get::<String>().unwrap()
        };
        let stored = "00112233445566778899AABBCCDDEEFF";
        // (a) symbolic link
        let target = format!("/tmp/dbus_machine_uuid.vh_target_{}", std::process::id());
        let _ = std::fs::remove_file("/tmp/dbus_machine_uuid");
        std::fs::write(&target, stored).unwrap();
        std::os::unix::fs::symlink(&target, "/tmp/dbus_machine_uuid").unwrap();
        let ids: Vec<String> = (0..3).map(|_| ask(&mut conn, &mut server)).collect();
        let after = std::fs::read_to_string(&target).unwrap_or_default();
        if ids.iter().any(|i| i != stored) || after != stored {
            out.violation("stored-id-behind-symlink", &format!("the id file is a symbolic link to a file holding {:?}: answers {:?}, the file now holds {:?}", stored, ids, after));
        }
        let _ = std::fs::remove_file("/tmp/dbus_machine_uuid");
        let _ = std::fs::remove_file(&target);
        out.hit("stored_id_behind_symlink");
        // (b) TMPDIR set to another directory
        std::fs::write("/tmp/dbus_machine_uuid", stored).unwrap();
        let other_tmp = format!("{}/c20_tmpdir", cfg.outdir);
        let _ = std::fs::create_dir_all(&other_tmp);
        let old_tmpdir = std::env::var_os("TMPDIR");
        std::env::set_var("TMPDIR", &other_tmp);
        let ids: Vec<String> = (0..3).map(|_| ask(&mut conn, &mut server)).collect();
        match old_tmpdir {
            Some(v) => std::env::set_var("TMPDIR", v),
            None => std::env::remove_var("TMPDIR"),
        }
        let stray = std::fs::read_dir(&other_tmp).map(|d| d.count()).unwrap_or(0);
        if ids.iter().any(|i| i != stored) || stray != 0 {
            out.violation("stored-id-with-TMPDIR", &format!("/tmp/dbus_machine_uuid holds {:?} and TMPDIR points elsewhere: answers {:?}, {} file(s) appeared under TMPDIR", stored, ids, stray));
        }
        let _ = std::fs::remove_file("/tmp/dbus_machine_uuid");
        out.hit("stored_id_with_tmpdir");
    }
    // 5. a caller that has shut down its sending side (it sent its last call and only reads from now on) still gets its answer
    for member in ["Ping", "GetMachineId"] {
        let (mut c2, mut s2) = peer::connect_pair(false);
        s2.shutdown(std::net::Shutdown::Write).unwrap();
        let mut msg: MarshalledMessage = MessageBuilder::new().call(member).at(":1.1").on("/").build();
        msg.dynheader.interface = Some("org.freedesktop.DBus.Peer".into());
        msg.dynheader.sender = Some(":1.9".into());
        msg.dynheader.serial = NonZeroU32::new(41);
        let res = rustbus::peer::handle_peer_message(&msg, &mut c2);
        let written = peer::drain(&mut s2);
        let frames = peer::split_frames(&written).unwrap_or_default();
        let ok = matches!(res, Ok(true))
            && frames.len() == 1
            && peer::decode_frame(&frames[0]).map(|r| r.dynheader.response_serial == NonZeroU32::new(41) && matches!(r.typ, rustbus::MessageType::Reply)).unwrap_or(false);
        if !ok {
            out.violation(&format!("half-closed-caller {}", member), &format!("a caller that shut down its sending side called {}: result {:?}, {} frame(s) arrived instead of exactly one method return", member, res.as_ref().map_err(|e| format!("{:?}", e)), frames.len()));
        }
        out.hit("half_closed_caller");
    }
    out.finish(
        "stored id replaced between calls (atomic rename; the answer follows the stored id); the id file as a symbolic link; TMPDIR pointing elsewhere; a half-closed caller still gets exactly one method return; formatter: boundary (each power of 16 +-1 per word) x random triples, non-trivial = some word has a leading zero digit (distinct by request); peer logic: 6 interfaces x 8 members incl. absent/near-miss, non-trivial = distinct (iface,member)",
        false,
    );
}
