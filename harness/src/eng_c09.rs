//! C09: reassembly of incoming messages under arbitrary chunking, on a real `DuplexConn` connected to a
//! scripted in-process peer. Single-threaded lock step: the peer `sendmsg`s one chunk (descriptors ride on
//! the chunk that holds the first byte of their message), the client performs non-blocking `read_once` /
//! `get_next_message` calls; after every call the result, `bytes_needed_for_current_message()` and
//! `buffer_contains_whole_message()` are recorded. The model replays the same script.
//!
//! The number of bytes each `read_once` took from the socket is OBSERVED (FIONREAD before/after) and is the
//! kernel's answer handed to the model; the engine counts (`kernel_short_read`) every read that returned
//! less than min(requested, queued).
//!
//! `read_once` is also called on buffers that already hold a complete message, with the next message (and
//! its descriptors) already queued in the socket: such a call must return Ok, take nothing from the socket and
//! change nothing (it used to do a zero-length recvmsg: ConnectionClosed + the next message's descriptors
//! lost; repaired by the early return in `refill_buffer`). Checked directly on the implementation; likewise
//! that no call ever reports ConnectionClosed (the peer never hangs up in this engine).
use rustbus::connection::ll_conn::DuplexConn;
use rustbus::connection::{Error, Timeout};
use rustbus::message_builder::{MarshalledMessage, MessageBuilder};
use rustbus::wire::errors::UnmarshalError;
use rustbus::wire::UnixFd;
use rustbus::ByteOrder;
use std::collections::{BTreeSet, HashMap};
use std::num::NonZeroU32;
use std::os::unix::io::{AsRawFd, RawFd};
use std::os::unix::net::UnixStream;
use vcore::common::*;
use vcore::eng_wire::guard;
use vcore::peer;

const BIG: u64 = 4294967296;
const MAX_GROWTH: usize = 65536;

/// a pool of distinct open files; a descriptor is identified by (st_dev, st_ino) of what it refers to
struct Pool {
    dir: std::path::PathBuf,
    files: Vec<std::fs::File>,
    ids: HashMap<(u64, u64), usize>,
}

fn identity(fd: RawFd) -> Option<(u64, u64)> {
    nix::sys::stat::fstat(fd).ok().map(|s| (s.st_dev as u64, s.st_ino as u64))
}

impl Pool {
    fn new(n: usize) -> Pool {
        let dir = std::env::temp_dir().join(format!("vh_c09_{}", std::process::id()));
        let _ = std::fs::remove_dir_all(&dir);
        std::fs::create_dir_all(&dir).unwrap();
        let mut files = Vec::new();
        let mut ids = HashMap::new();
        for i in 0..n {
            let f = std::fs::File::create(dir.join(format!("f{}", i))).unwrap();
            ids.insert(identity(f.as_raw_fd()).unwrap(), i);
            files.push(f);
        }
        Pool { dir, files, ids }
    }
    fn dup(&self, id: usize) -> UnixFd {
        UnixFd::new(nix::unistd::dup(self.files[id].as_raw_fd()).unwrap())
    }
    fn id_of(&self, fd: RawFd) -> usize {
        identity(fd).and_then(|k| self.ids.get(&k).copied()).unwrap_or(999)
    }
}
impl Drop for Pool {
    fn drop(&mut self) {
        let _ = std::fs::remove_dir_all(&self.dir);
    }
}

fn open_fds() -> usize {
    std::fs::read_dir("/proc/self/fd").map(|d| d.count()).unwrap_or(0)
}

fn cksum(bs: &[u8]) -> u64 {
    let (mut a, mut b) = (1u64, 0u64);
    for x in bs {
        a = (a + *x as u64) % 65521;
        b = (b + a) % 65521;
    }
    b * 65536 + a
}

fn dots(ids: &[usize]) -> String {
    if ids.is_empty() {
        "-".into()
    } else {
        ids.iter().map(|x| x.to_string()).collect::<Vec<_>>().join(".")
    }
}

/// one message as the peer writes it
struct Frame {
    bytes: Vec<u8>,
    fds: Vec<usize>,
    serial: u32,
    member: String,
    body: Vec<u8>,
    /// keeps the descriptors to send alive
    msg: Option<MarshalledMessage>,
    /// the byte of the frame the descriptors ride on: the peer attaches them to the write that starts there
    /// (0 = the first byte, what rustbus itself does; the D-Bus specification allows any byte of the message)
    fd_pos: usize,
}

fn gen_frame(rng: &mut Prng, pool: &Pool, idx: usize, serial: u32, body_len: usize, fds: &[usize]) -> Frame {
    let bo = if rng.chance(1, 3) { ByteOrder::BigEndian } else { ByteOrder::LittleEndian };
    let member = format!("M{}x{}", idx, rng.below(1000));
    // the object path is the last header field of a message without body: its length decides the size of
    // the header modulo 8, i.e. the padding in front of the body (all residues must occur)
    let path = *rng.pick(&["/", "/o", "/ab", "/p/q", "/abcd", "/ab/cd", "/abcdef", "/abc/def"]);
    let mut msg = match rng.below(4) {
        0 => MessageBuilder::with_byteorder(bo).signal("a.b", member.clone(), path).build(),
        1 => MessageBuilder::with_byteorder(bo).call(member.clone()).on(path).build(),
        2 => MessageBuilder::with_byteorder(bo)
            .call(member.clone())
            .on(path)
            .with_interface("io.killing.spark")
            .at("x.y.z")
            .build(),
        _ => MessageBuilder::with_byteorder(bo).signal("some.inter.face", member.clone(), path).to(":1.7").build(),
    };
    if body_len > 0 {
        let data: Vec<u8> = (0..body_len).map(|_| rng.next() as u8).collect();
        match rng.below(3) {
            0 => msg.body.push_param(data.as_slice()).unwrap(),
            1 => {
                msg.body.push_param(rng.next() as u8).unwrap();
                msg.body.push_param(data.as_slice()).unwrap()
            }
            _ => {
                msg.body.push_param(data.as_slice()).unwrap();
                msg.body.push_param(rng.next() as u16).unwrap()
            }
        }
        // the signature is the last header field of a message with a body and without descriptors: vary its length
        for _ in 0..rng.below(8) {
            msg.body.push_param(rng.next() as u8).unwrap();
        }
    }
    for id in fds {
        let u = pool.dup(*id);
        msg.body.push_param(&u).unwrap();
    }
    let mut hdr = Vec::new();
    rustbus::wire::marshal::marshal(&msg, NonZeroU32::new(serial).unwrap(), &mut hdr).unwrap();
    let body = msg.get_buf().to_vec();
    let mut bytes = hdr;
    bytes.extend_from_slice(&body);
    let fd_pos = if fds.is_empty() || rng.chance(1, 2) {
        0
    } else {
        match rng.below(5) {
            0 => 1,
            1 => rng.range(2, 15) as usize,
            2 => rng.range(16, (bytes.len() - 1).max(17) as u64) as usize,
            3 => bytes.len() - 1,
            _ => rng.range(1, (bytes.len() - 1) as u64) as usize,
        }
        .min(bytes.len() - 1)
    };
    Frame { bytes, fds: fds.to_vec(), serial, member, body, msg: Some(msg), fd_pos }
}

/// a frame of raw bytes (error cases): no descriptors
fn raw_frame(bytes: Vec<u8>) -> Frame {
    Frame { bytes, fds: vec![], serial: 0, member: String::new(), body: vec![], msg: None, fd_pos: 0 }
}

struct Link {
    conn: DuplexConn,
    server: UnixStream,
}

fn inq(fd: RawFd) -> usize {
    let mut n: libc::c_int = 0;
    unsafe {
        libc::ioctl(fd, libc::FIONREAD, &mut n);
    }
    n as usize
}

fn class(e: &Error) -> &'static str {
    match e {
        Error::TimedOut => "to",
        Error::ConnectionClosed => "closed",
        Error::UnmarshalError(UnmarshalError::MessageTooLong) => "toolong",
        Error::UnmarshalError(
            UnmarshalError::InvalidByteOrder
            | UnmarshalError::InvalidMessageType
            | UnmarshalError::InvalidProtocolVersion
            | UnmarshalError::InvalidSerial,
        ) => "invalid",
        Error::UnmarshalError(_) => "malformed",
        _ => "ioerror",
    }
}

#[derive(Clone, Copy, PartialEq)]
enum Policy {
    /// after every chunk: get_next_message until it times out
    GetEach,
    /// the documented loop: guarded read_once, get_next_message when the buffer is complete
    ReadLoop,
    /// 0..3 random calls (get / guarded read_once / read_once, also on a complete buffer) after every chunk
    Mixed,
    /// like Mixed, only read_once / guarded read_once until the end of the stream
    ReadOnly,
    /// read_once until the buffer holds a complete message, then read_once twice more (must be no-ops), then
    /// get_next_message; mode 0: only after the last chunk (everything queued), 1: after every chunk,
    /// 2: after every second chunk (the peer is one chunk ahead)
    FullRead(u8),
}

struct Received {
    serial: u32,
    member: String,
    body: Vec<u8>,
    fds: Vec<usize>,
}

struct Runner<'a> {
    out: &'a mut Out,
    pool: &'a Pool,
    link: Option<Link>,
}

struct Scn<'a> {
    frames: &'a [Frame],
    script: Vec<String>,
    obs: Vec<String>,
    received: Vec<Received>,
    problems: Vec<String>,
    filled: usize,
    dirty: bool,
    /// chunks sent since the socket queue was last seen empty
    backlog: usize,
}

impl<'a> Runner<'a> {
    fn link(&mut self) -> &mut Link {
        if self.link.is_none() {
            let (conn, server) = peer::connect_pair(true);
            self.out.hit("connections");
            self.link = Some(Link { conn, server });
        }
        self.link.as_mut().unwrap()
    }

    /// one client call; kind: 'g' get_next_message, 'r' read_once, 'm' read_once unless the buffer is complete
    fn op(&mut self, s: &mut Scn, kind: char) -> String {
        let pool = self.pool;
        let link = self.link();
        let fd = link.conn.recv.as_raw_fd();
        let inq0 = inq(fd);
        let needed0 = link.conn.recv.bytes_needed_for_current_message().ok();
        let whole0 = link.conn.recv.buffer_contains_whole_message().ok();
        let recv = &mut link.conn.recv;
        let res: Result<String, String> = guard(|| match kind {
            'g' => match recv.get_next_message(Timeout::Nonblock) {
                Ok(m) => {
                    let fds: Vec<usize> = m
                        .body
                        .get_fds()
                        .iter()
                        .map(|u| u.get_raw_fd().map(|r| pool.id_of(r)).unwrap_or(998))
                        .collect();
                    let r = Received {
                        serial: m.dynheader.serial.map(|x| x.get()).unwrap_or(0),
                        member: m.dynheader.member.clone().unwrap_or_default(),
                        body: m.get_buf().to_vec(),
                        fds,
                    };
                    let t = format!("msg:{}:{}:{}:{}", r.serial, r.body.len(), cksum(&r.body), dots(&r.fds));
                    s.received.push(r);
                    // m dropped here: its descriptors are closed
                    t
                }
                Err(e) => class(&e).to_string(),
            },
            'r' => match recv.read_once(Timeout::Nonblock) {
                Ok(()) => "ok".to_string(),
                Err(e) => class(&e).to_string(),
            },
            _ => match recv.buffer_contains_whole_message() {
                Ok(true) => "skip".to_string(),
                Err(e) => class(&e).to_string(),
                Ok(false) => match recv.read_once(Timeout::Nonblock) {
                    Ok(()) => "ok".to_string(),
                    Err(e) => class(&e).to_string(),
                },
            },
        });
        let link = self.link.as_mut().unwrap();
        let inq1 = inq(fd);
        let consumed = inq0.saturating_sub(inq1);
        let res = match res {
            Ok(r) => r,
            Err(p) => {
                s.problems.push(format!("panic in call '{}': {}", kind, p));
                s.dirty = true;
                "panic".to_string()
            }
        };
        let needed = match link.conn.recv.bytes_needed_for_current_message() {
            Ok(n) => n.to_string(),
            Err(e) => class(&e).to_string(),
        };
        let whole = match link.conn.recv.buffer_contains_whole_message() {
            Ok(true) => "t".to_string(),
            Ok(false) => "f".to_string(),
            Err(e) => class(&e).to_string(),
        };
        // the kernel's answer, as observed
        let k: u64 = if consumed > 0 {
            consumed as u64
        } else if inq0 == 0 {
            0
        } else {
            BIG
        };
        s.script.push(match kind {
            'g' => "g".to_string(),
            c => format!("{}{}", c, k),
        });
        // direct checks that need no oracle
        if res == "to" && consumed == 0 {
            // a call that timed out without receiving anything must not change what the connection reports
            let n_now = link.conn.recv.bytes_needed_for_current_message().ok();
            let w_now = link.conn.recv.buffer_contains_whole_message().ok();
            if n_now != needed0 || w_now != whole0 {
                s.problems.push(format!(
                    "timed-out call '{}' changed the connection: needed {:?}->{:?}, whole {:?}->{:?}",
                    kind, needed0, n_now, whole0, w_now
                ));
            }
            self.out.hit("timeout_noop_checked");
        }
        if res == "to" && inq0 > 0 && kind == 'g' && consumed == 0 {
            s.problems.push("get_next_message timed out although bytes were queued".to_string());
        }
        if kind == 'r' && whole0 == Some(true) {
            // read_once on a buffer that already holds a complete message: Ok, nothing read, nothing changed
            self.out.hit("complete_read_once");
            if inq0 > 0 {
                self.out.hit("complete_read_once_next_queued");
                if s.frames.get(s.received.len() + 1).map_or(false, |f| !f.fds.is_empty()) {
                    self.out.hit("complete_read_once_next_queued_with_fds");
                }
            }
            if res != "ok" {
                s.problems.push(format!(
                    "read_once on a complete buffer returned '{}' instead of Ok ({} bytes of the next message queued)",
                    res, inq0
                ));
            }
            if consumed != 0 {
                s.problems.push(format!(
                    "read_once on a complete buffer took {} bytes of the next message from the socket",
                    consumed
                ));
            }
            let n_now = link.conn.recv.bytes_needed_for_current_message().ok();
            let w_now = link.conn.recv.buffer_contains_whole_message().ok();
            if n_now != needed0 || w_now != whole0 {
                s.problems.push(format!(
                    "read_once on a complete buffer changed the connection: needed {:?}->{:?}, whole {:?}->{:?}",
                    needed0, n_now, whole0, w_now
                ));
            }
        }
        if needed0.is_none() && consumed != 0 {
            // the announcement was already refused before the call: nothing may be read
            s.problems.push(format!("call on a refused announcement ({}) took {} bytes from the socket", res, consumed));
        }
        if kind != 'g' && res == "ok" {
            if let Some(n0) = needed0 {
                let req = usize::min(n0, s.filled + MAX_GROWTH).saturating_sub(s.filled);
                if consumed > req {
                    s.problems.push(format!("read_once took {} bytes, more than the {} it may request", consumed, req));
                }
                if consumed < usize::min(req, inq0) {
                    self.out.hit("kernel_short_read");
                }
            }
        }
        s.filled += consumed;
        if res.starts_with("msg:") {
            s.filled = 0;
        }
        if matches!(res.as_str(), "closed" | "invalid" | "toolong" | "malformed" | "panic" | "ioerror") {
            s.dirty = true;
        }
        if res == "closed" {
            s.problems.push(format!(
                "call '{}' reported ConnectionClosed although the peer is connected ({} bytes queued)",
                kind, inq0
            ));
        }
        if inq1 == 0 {
            s.backlog = 0;
        }
        self.out.hit(&format!("res_{}_{}", kind, res.split(':').next().unwrap()));
        s.obs.push(format!("{}/{}/{}", res, needed, whole));
        res
    }

    fn whole(&mut self) -> bool {
        matches!(self.link().conn.recv.buffer_contains_whole_message(), Ok(true))
    }

    fn drain(&mut self, s: &mut Scn) {
        for _ in 0..s.frames.len() + 2 {
            let r = self.op(s, 'g');
            if !r.starts_with("msg:") {
                break;
            }
        }
    }

    /// run one scenario: frames, chunk sizes (sum = stream length), call policy
    fn scenario(&mut self, rng: &mut Prng, frames: &[Frame], chunks: &[usize], policy: Policy, valid: bool, tag: &str) {
        self.link();
        let fds_with_link = open_fds();
        let stream: Vec<u8> = frames.iter().flat_map(|f| f.bytes.iter().copied()).collect();
        let mut starts = Vec::new();
        let mut p = 0;
        for f in frames {
            starts.push(p);
            p += f.bytes.len();
            if valid && f.bytes.len() >= 16 {
                let w = [f.bytes[12], f.bytes[13], f.bytes[14], f.bytes[15]];
                let fl = if f.bytes[0] == b'l' { u32::from_le_bytes(w) } else { u32::from_be_bytes(w) };
                self.out.hit(&format!("hdr_len_mod8_{}", (16 + fl as usize) % 8));
            }
        }
        let mut s = Scn {
            frames,
            script: Vec::new(),
            obs: Vec::new(),
            received: Vec::new(),
            problems: Vec::new(),
            filled: 0,
            dirty: false,
            backlog: 0,
        };
        let mut pos = 0;
        for (ci, &c) in chunks.iter().enumerate() {
            let mut raw: Vec<RawFd> = Vec::new();
            for (i, f) in frames.iter().enumerate() {
                if !f.fds.is_empty() {
                    let at = starts[i] + f.fd_pos;
                    if at == pos {
                        raw = f.msg.as_ref().unwrap().body.get_raw_fds();
                        if f.fd_pos > 0 {
                            self.out.hit("descriptors_on_a_later_byte");
                        }
                    } else if at > pos && at < pos + c {
                        panic!("engine bug: chunk spans over the byte a message's descriptors ride on");
                    }
                }
            }
            let sent = peer::send_with_fds(&self.link().server, &stream[pos..pos + c], &raw);
            assert_eq!(sent, c, "short write at the peer");
            pos += c;
            s.script.push(format!("a{}", c));
            s.backlog += 1;
            let last = ci + 1 == chunks.len();
            match policy {
                Policy::GetEach => self.drain(&mut s),
                Policy::ReadLoop => loop {
                    let r = self.op(&mut s, 'm');
                    if r == "skip" || self.whole() {
                        let g = self.op(&mut s, 'g');
                        if !g.starts_with("msg:") {
                            break;
                        }
                    } else if r != "ok" {
                        break;
                    }
                },
                Policy::Mixed | Policy::ReadOnly => {
                    let n = rng.below(4);
                    for _ in 0..n {
                        let pick = rng.below(10);
                        let kind = if policy == Policy::ReadOnly {
                            if pick < 5 { 'm' } else { 'r' }
                        } else if pick < 4 {
                            'g'
                        } else if pick < 7 {
                            'm'
                        } else {
                            'r'
                        };
                        self.op(&mut s, kind);
                        if s.dirty {
                            break;
                        }
                    }
                    if s.backlog > 40 {
                        self.drain(&mut s);
                    }
                }
                Policy::FullRead(mode) => {
                    let now = match mode {
                        0 => last,
                        1 => true,
                        _ => last || ci % 2 == 1,
                    };
                    // many small unread chunks fill the peer's send buffer: read before it blocks
                    let now = now || s.backlog > 40;
                    if now {
                        for _ in 0..20000 {
                            if self.whole() {
                                // the buffer is complete: two more read_once (no-ops), then take the message
                                self.op(&mut s, 'r');
                                self.op(&mut s, 'r');
                                let g = self.op(&mut s, 'g');
                                if !g.starts_with("msg:") {
                                    break;
                                }
                            } else if self.op(&mut s, 'r') != "ok" {
                                break;
                            }
                            if s.dirty {
                                break;
                            }
                        }
                    }
                }
            }
            if s.dirty {
                break;
            }
        }
        if !s.dirty {
            self.drain(&mut s);
        }
        if !s.dirty {
            // everything has been handed out: two more calls must find nothing
            self.op(&mut s, 'g');
            self.op(&mut s, 'r');
        }
        let complete = pos == stream.len();
        let req = format!(
            "c09.run {} {}",
            frames.iter().map(|f| if f.fd_pos == 0 { format!("{}/{}", hex(&f.bytes), dots(&f.fds)) } else { format!("{}/{}@{}", hex(&f.bytes), dots(&f.fds), f.fd_pos) }).collect::<Vec<_>>().join("|"),
            s.script.join(",")
        );
        // ---- the property, directly ----
        if valid {
            for (i, r) in s.received.iter().enumerate() {
                match frames.get(i) {
                    None => s.problems.push(format!("message {} returned but only {} were sent", i, frames.len())),
                    Some(f) => {
                        let want_fds: Vec<usize> = f.fds.iter().copied().take(10).collect();
                        if r.serial != f.serial || r.member != f.member {
                            s.problems.push(format!(
                                "message {} out of order or wrong header: serial {} member {} (sent {} {})",
                                i, r.serial, r.member, f.serial, f.member
                            ));
                        } else if r.body != f.body {
                            s.problems.push(format!("message {} body differs from what was sent ({} vs {} bytes)", i, r.body.len(), f.body.len()));
                        }
                        if r.fds != want_fds {
                            s.problems.push(format!(
                                "message {} came with descriptors [{}], sent with [{}]",
                                i,
                                dots(&r.fds),
                                dots(&want_fds)
                            ));
                        }
                    }
                }
            }
            if complete && !s.dirty && s.received.len() != frames.len() {
                s.problems.push(format!("{} messages sent completely, {} returned", frames.len(), s.received.len()));
            }
            if s.dirty {
                s.problems.push("a call failed on a stream of valid messages".to_string());
            }
        }
        let nrecv = s.received.len();
        let dirty = s.dirty;
        let (script_len, obs, problems) = (s.script.len(), s.obs.join(";"), std::mem::take(&mut s.problems));
        drop(s);
        if dirty {
            self.link = None; // the connection is wedged or suspect: start over
        }
        // descriptors: everything received has been dropped; nothing may stay open
        // (a discarded connection closes 3: two at the client, one at the peer)
        let fds_after = open_fds();
        let expect = if dirty { fds_with_link - 3 } else { fds_with_link };
        let mut problems = problems;
        if fds_after != expect {
            problems.push(format!(
                "descriptor leak: {} descriptors stay open after the scenario (expected {})",
                fds_after, expect
            ));
        }
        for p in &problems {
            self.out.violation(&req, &format!("[{}] {}", tag, p));
        }
        self.out.hit(&format!("scn_{}", tag));
        self.out.hit_n("messages_received", nrecv as u64);
        self.out.hit_n("chunks", chunks.len() as u64);
        self.out.hit_n("calls", (script_len - chunks.len().min(script_len)) as u64);
        self.out.case(&req, &obs, chunks.len() >= 2);
    }
}

/// chunk sizes from split points; forced splits in front of descriptor-carrying messages, chunks ≤ 90000
fn chunks_from(splits: &BTreeSet<usize>, frames: &[Frame]) -> Vec<usize> {
    let mut pts: BTreeSet<usize> = splits.clone();
    let mut p = 0;
    for f in frames {
        if !f.fds.is_empty() && p + f.fd_pos > 0 {
            pts.insert(p + f.fd_pos);
        }
        p += f.bytes.len();
    }
    let total = p;
    pts.retain(|x| *x > 0 && *x < total);
    let mut out = Vec::new();
    let mut prev = 0;
    for x in pts.iter().copied().chain(std::iter::once(total)) {
        let mut len = x - prev;
        while len > 90000 {
            out.push(90000);
            len -= 90000;
        }
        if len > 0 {
            out.push(len);
        }
        prev = x;
    }
    out
}

fn gen_set(rng: &mut Prng, pool: &Pool, n: usize, serial0: &mut u32, max_body: usize) -> Vec<Frame> {
    (0..n)
        .map(|i| {
            let body_len = match rng.below(4) {
                0 => 0,
                1 => rng.range(1, 9) as usize,
                _ => rng.range(1, max_body as u64) as usize,
            };
            let nf = match rng.below(5) {
                0 | 1 => 0,
                2 => 1,
                3 => 2,
                _ => 3,
            };
            let fds: Vec<usize> = (0..nf).map(|_| rng.below(pool.files.len() as u64) as usize).collect();
            *serial0 += 1 + rng.below(5) as u32;
            gen_frame(rng, pool, i, *serial0, body_len, &fds)
        })
        .collect()
}

fn set_u32(b: &mut [u8], off: usize, v: u32) {
    let bytes = if b[0] == b'l' { v.to_le_bytes() } else { v.to_be_bytes() };
    b[off..off + 4].copy_from_slice(&bytes);
}

/// THE PEER HANGS UP with messages still unread in the receiver's socket (it wrote, then closed or exited): everything
/// it wrote is still delivered, in order and intact, also when the receiver is in the middle of a message; only then is
/// the closed connection reported. The model has no hang-up (DESIGN §12): evaluated directly on the implementation.
fn hangup_family(out: &mut Out, rng: &mut Prng, pool: &Pool, thorough: bool) {
    use std::io::Write;
    let rounds = if thorough { 40 } else { 8 };
    for round in 0..rounds {
        let (mut conn, mut server) = peer::connect_pair(false);
        let n = 1 + rng.below(4) as usize;
        let mut serial = 100 + round as u32 * 10;
        let frames: Vec<Frame> = (0..n)
            .map(|i| {
                serial += 1;
                let body_len = if rng.chance(1, 3) { 0 } else { rng.range(1, 300) as usize };
                gen_frame(rng, pool, i, serial, body_len, &[])
            })
            .collect();
        let stream: Vec<u8> = frames.iter().flat_map(|f| f.bytes.iter().copied()).collect();
        // the receiver has consumed a prefix of the stream (possibly ending inside a message) before the peer writes the
        // rest and hangs up
        let cut = if round % 2 == 0 { 0 } else { rng.range(1, (stream.len() - 1) as u64) as usize };
        let req = format!("c09.hangup frames={} bytes={} read_before_hangup={}", n, stream.len(), cut);
        let mut got: Vec<u32> = Vec::new();
        let mut problems: Vec<String> = Vec::new();
        if cut > 0 {
            server.write_all(&stream[..cut]).unwrap();
            loop {
                match conn.recv.get_next_message(Timeout::Nonblock) {
                    Ok(m) => got.push(m.dynheader.serial.map(|s| s.get()).unwrap_or(0)),
                    Err(Error::TimedOut) => break,
                    Err(e) => {
                        problems.push(format!("before the hang-up: {:?}", e));
                        break;
                    }
                }
            }
        }
        server.write_all(&stream[cut..]).unwrap();
        drop(server);
        let mut closed_seen = false;
        for _ in 0..(n + 3) {
            match conn.recv.get_next_message(Timeout::Duration(std::time::Duration::from_millis(200))) {
                Ok(m) => {
                    let i = got.len();
                    let s = m.dynheader.serial.map(|s| s.get()).unwrap_or(0);
                    if let Some(f) = frames.get(i) {
                        if s != f.serial || m.get_buf() != &f.body[..] || m.dynheader.member.as_deref() != Some(f.member.as_str()) {
                            problems.push(format!("message {} arrived damaged (serial {} instead of {})", i, s, f.serial));
                        }
                    }
                    got.push(s);
                }
                Err(Error::ConnectionClosed) => {
                    closed_seen = true;
                    break;
                }
                Err(e) => {
                    problems.push(format!("after the hang-up: {:?} with {} of {} messages delivered", e, got.len(), n));
                    break;
                }
            }
        }
        let want: Vec<u32> = frames.iter().map(|f| f.serial).collect();
        if got != want {
            problems.push(format!("the peer wrote messages {:?} and hung up; delivered {:?}", want, got));
        }
        if !closed_seen && problems.is_empty() {
            problems.push("the closed connection was never reported after everything was delivered".into());
        }
        out.hit("hangup_case");
        out.hit(if cut == 0 { "hangup_before_any_read" } else { "hangup_mid_stream" });
        for p in problems {
            out.violation(&req, &p);
        }
    }
}

pub fn run(cfg: &Cfg) {
    std::panic::set_hook(Box::new(|_| {}));
    let mut out = Out::new(&cfg.outdir);
    let mut rng = Prng::new(cfg.seed);
    let pool = Pool::new(12);
    let mut serial: u32 = 10;
    let mut exhaustive_pairs = false;
    {
        let mut rn = Runner { out: &mut out, pool: &pool, link: None };
        let policies = [Policy::GetEach, Policy::ReadLoop, Policy::Mixed, Policy::ReadOnly];
        let nsets = if cfg.thorough { 6 } else { 3 };
        for si in 0..nsets {
            let nframes = if cfg.thorough && si == 0 {
                2
            } else if cfg.thorough && si >= 3 {
                rng.range(4, 6) as usize
            } else {
                rng.range(2, 3) as usize
            };
            let frames = gen_set(&mut rng, &pool, nframes, &mut serial, if si == 0 { 24 } else { 120 });
            let total: usize = frames.iter().map(|f| f.bytes.len()).sum();
            // every single split point, with every policy
            for sp in 1..total {
                for (pi, pol) in policies.iter().enumerate() {
                    if !cfg.thorough && (sp + pi) % 2 == 1 {
                        continue;
                    }
                    let ch = chunks_from(&BTreeSet::from([sp]), &frames);
                    rn.scenario(&mut rng, &frames, &ch, *pol, true, "split1");
                }
            }
            // pairs of split points: exhaustive for the first set in the thorough tier, sampled otherwise
            if cfg.thorough && si == 0 && total <= 320 {
                exhaustive_pairs = true;
                rn.out.hit_n("split2_exhaustive_stream_len", total as u64);
                for a in 1..total {
                    for b in a + 1..total {
                        let ch = chunks_from(&BTreeSet::from([a, b]), &frames);
                        let pol = policies[(a + b) % 4];
                        rn.scenario(&mut rng, &frames, &ch, pol, true, "split2");
                    }
                }
            } else {
                let n = if cfg.thorough { 4000 } else { 500 };
                for _ in 0..n {
                    let a = rng.range(1, total as u64 - 1) as usize;
                    let b = rng.range(1, total as u64 - 1) as usize;
                    let ch = chunks_from(&BTreeSet::from([a, b]), &frames);
                    let pol = *rng.pick(&policies);
                    rn.scenario(&mut rng, &frames, &ch, pol, true, "split2");
                }
            }
            // one byte at a time
            for pol in policies.iter() {
                let all: BTreeSet<usize> = (1..total).collect();
                let ch = chunks_from(&all, &frames);
                rn.scenario(&mut rng, &frames, &ch, *pol, true, "onebyte");
            }
            // random compositions
            let n = if cfg.thorough { 1500 } else { 200 };
            for _ in 0..n {
                let mut sp = BTreeSet::new();
                let k = rng.range(2, 12);
                for _ in 0..k {
                    sp.insert(rng.range(1, total as u64 - 1) as usize);
                }
                let ch = chunks_from(&sp, &frames);
                let pol = *rng.pick(&policies);
                rn.scenario(&mut rng, &frames, &ch, pol, true, "random");
            }
            // whole stream in one write
            for pol in policies.iter() {
                let ch = chunks_from(&BTreeSet::new(), &frames);
                rn.scenario(&mut rng, &frames, &ch, *pol, true, "onewrite");
            }
        }
        // every size of the header modulo 8 (every amount of padding in front of the body): messages without
        // descriptors, so that the last header field is a path or a signature of varying length
        let nres = if cfg.thorough { 60 } else { 20 };
        for ri in 0..nres {
            let frames: Vec<Frame> = (0..2)
                .map(|i| {
                    serial += 1;
                    let body_len = if rng.chance(1, 2) { 0 } else { rng.range(1, 40) as usize };
                    gen_frame(&mut rng, &pool, i, serial, body_len, &[])
                })
                .collect();
            let total: usize = frames.iter().map(|f| f.bytes.len()).sum();
            for (pi, pol) in [Policy::GetEach, Policy::ReadLoop, Policy::FullRead(0), Policy::ReadOnly].iter().enumerate() {
                let sp = if (ri + pi) % 2 == 0 {
                    BTreeSet::new()
                } else {
                    BTreeSet::from([rng.range(1, total as u64 - 1) as usize, rng.range(1, total as u64 - 1) as usize])
                };
                let ch = chunks_from(&sp, &frames);
                rn.scenario(&mut rng, &frames, &ch, *pol, true, "hdr_padding");
            }
        }
        // bodies beyond the 64 KiB growth step
        let nbig = if cfg.thorough { 24 } else { 3 };
        for bi in 0..nbig {
            let big_len = if bi % 3 == 2 { rng.range(131000, 150000) } else { rng.range(65000, 80000) } as usize;
            let nf = rng.below(3) as usize;
            let fds: Vec<usize> = (0..nf).map(|_| rng.below(12) as usize).collect();
            serial += 1;
            let small1 = gen_set(&mut rng, &pool, 1, &mut serial, 40);
            serial += 1;
            let bigf = gen_frame(&mut rng, &pool, 1, serial, big_len, &fds);
            let small2 = gen_set(&mut rng, &pool, 1, &mut serial, 40);
            let frames: Vec<Frame> = small1.into_iter().chain(std::iter::once(bigf)).chain(small2).collect();
            let total: usize = frames.iter().map(|f| f.bytes.len()).sum();
            let mut sp = BTreeSet::new();
            for _ in 0..rng.range(0, 5) {
                sp.insert(rng.range(1, total as u64 - 1) as usize);
            }
            let ch = chunks_from(&sp, &frames);
            let pol = policies[bi % 4];
            rn.scenario(&mut rng, &frames, &ch, pol, true, "big");
        }
        // more descriptors than one control buffer holds (documented limit: 10 per message)
        for nfd in [10usize, 11, 13] {
            serial += 1;
            let fds: Vec<usize> = (0..nfd).map(|i| i % 12).collect();
            let f0 = gen_frame(&mut rng, &pool, 0, serial, 5, &fds);
            let f1 = gen_set(&mut rng, &pool, 1, &mut serial, 20);
            let frames: Vec<Frame> = std::iter::once(f0).chain(f1).collect();
            let total: usize = frames.iter().map(|f| f.bytes.len()).sum();
            let ch = chunks_from(&BTreeSet::from([rng.range(1, total as u64 - 1) as usize]), &frames);
            rn.scenario(&mut rng, &frames, &ch, Policy::GetEach, true, if nfd > 10 { "over10fds" } else { "fds10" });
        }
        // error cases: the announcement is refused and nothing is read
        let nerr = if cfg.thorough { 6 } else { 2 };
        for round in 0..nerr {
            for kind in 0..9 {
                let good = gen_set(&mut rng, &pool, 2, &mut serial, 30);
                let mut bad = good[1].bytes.clone();
                let name = match kind {
                    0 => {
                        bad[0] = b'x';
                        "bad_endian"
                    }
                    1 => {
                        bad[1] = if round % 2 == 0 { 0 } else { 5 };
                        "bad_type"
                    }
                    2 => {
                        bad[3] = 2;
                        "bad_version"
                    }
                    3 => {
                        set_u32(&mut bad, 8, 0);
                        "zero_serial"
                    }
                    4 => {
                        set_u32(&mut bad, 12, 64 * 1024 * 1024 + 1 + 8 * round as u32);
                        "fields_too_long"
                    }
                    5 => {
                        set_u32(&mut bad, 4, 128 * 1024 * 1024 - 8 * round as u32);
                        "message_too_long"
                    }
                    6 => {
                        set_u32(&mut bad, 4, u32::MAX - round as u32);
                        "announce_4g"
                    }
                    7 => {
                        bad[16] = 0; // header field code 0
                        "bad_field"
                    }
                    _ => {
                        // make the padding between header and body non-zero if there is any
                        let fl = u32::from_le_bytes(if bad[0] == b'l' {
                            [bad[12], bad[13], bad[14], bad[15]]
                        } else {
                            [bad[15], bad[14], bad[13], bad[12]]
                        }) as usize;
                        let end = 16 + fl;
                        if end % 8 != 0 && end < bad.len() {
                            bad[end] = 7;
                        }
                        "bad_padding"
                    }
                };
                let mut frames: Vec<Frame> = Vec::new();
                let mut it = good.into_iter();
                frames.push(it.next().unwrap());
                let second = it.next().unwrap();
                let second_fds = second.fds.clone();
                let mut rf = raw_frame(bad);
                // keep the descriptors of the corrupted message riding on its first byte
                rf.fds = second_fds;
                rf.msg = second.msg;
                frames.push(rf);
                let extra = gen_set(&mut rng, &pool, 1, &mut serial, 30);
                frames.extend(extra);
                let total: usize = frames.iter().map(|f| f.bytes.len()).sum();
                let mut sp = BTreeSet::new();
                for _ in 0..rng.range(0, 3) {
                    sp.insert(rng.range(1, total as u64 - 1) as usize);
                }
                // announcements of huge messages: never send beyond the real bytes
                let ch = chunks_from(&sp, &frames);
                let pol = policies[(kind + round) % 4];
                rn.scenario(&mut rng, &frames, &ch, pol, false, name);
            }
        }
        // read_once on a buffer that already holds a complete message while the next message - with or without
        // descriptors - is already queued (formerly: zero length recvmsg)
        let nfull = if cfg.thorough { 24 } else { 8 };
        for variant in 0..nfull {
            // descriptors of the 1-3 messages of the stream
            let pat: Vec<Vec<usize>> = match variant % 8 {
                0 => vec![vec![], vec![]],
                1 => vec![vec![], vec![4]],
                2 => vec![vec![], vec![2, 7, 7]],
                3 => vec![vec![]],
                4 => vec![vec![5], vec![1, 3], vec![]],
                5 => vec![vec![], vec![], vec![9, 0]],
                6 => vec![vec![6, 6], vec![8], vec![11, 10, 2]],
                _ => vec![vec![3]],
            };
            let frames: Vec<Frame> = pat
                .iter()
                .enumerate()
                .map(|(i, fds)| {
                    serial += 1 + rng.below(3) as u32;
                    let body_len = if variant < 8 { 3 + 6 * i } else { rng.range(0, 60) as usize };
                    gen_frame(&mut rng, &pool, i, serial, body_len, fds)
                })
                .collect();
            let total: usize = frames.iter().map(|f| f.bytes.len()).sum();
            let first = frames[0].bytes.len();
            let mut splits: Vec<BTreeSet<usize>> = vec![
                BTreeSet::new(),                          // one write (plus the forced splits)
                BTreeSet::from([rng.range(1, 15) as usize]), // inside the fixed header
                BTreeSet::from([first - 1]),              // one byte before the end of the first message
                BTreeSet::from([first]),                  // exactly at the boundary
                BTreeSet::from([first + 1]),              // the first byte of the next message rides along
                BTreeSet::from([rng.range(1, total as u64 - 1) as usize, rng.range(1, total as u64 - 1) as usize]),
                (1..total).collect(),                     // one byte at a time
            ];
            if cfg.thorough {
                for _ in 0..6 {
                    let mut sp = BTreeSet::new();
                    for _ in 0..rng.range(1, 8) {
                        sp.insert(rng.range(1, total as u64 - 1) as usize);
                    }
                    splits.push(sp);
                }
            }
            for sp in &splits {
                for mode in 0..3u8 {
                    let ch = chunks_from(sp, &frames);
                    rn.scenario(&mut rng, &frames, &ch, Policy::FullRead(mode), true, "read_once_on_complete_buffer");
                }
            }
        }
    }
    hangup_family(&mut out, &mut rng, &pool, cfg.thorough);
    drop(pool);
    out.finish(
        "streams of 2-6 generated messages (call/signal, both byte orders, body 0..150000 bytes, 0-3 (10, 11, 13) real descriptors) \
         written by a scripted peer in chunks: every single split point x 4 call policies, pairs of split points (exhaustive for one \
         stream in the thorough tier, sampled otherwise), one byte at a time, random compositions, one write; after each chunk \
         non-blocking get_next_message / read_once / guarded read_once calls incl. calls that find nothing; corrupted fixed headers, \
         oversized announcements, undecodable complete frames; read_once on a buffer that already holds a complete message \
         (in the random policies and in a dedicated family: 1-3 messages with 0-3 descriptors each x 7+ chunkings x 3 schedules, the \
         next message and its descriptors already queued). A case is one (stream, chunking, call script); non-trivial = at least \
         two chunks. Outside the model (direct checks only): the peer writes 1-4 messages and HANGS UP, before the receiver read anything or \
         when it is in the middle of a message: everything written is delivered in order, then ConnectionClosed is reported",
        false,
    );
    let _ = exhaustive_pairs;
}
