//! C08: name / object path validators. Exhaustive short strings over a representative alphabet,
//! every Unicode scalar value in first and later position, length boundaries; through
//! params::validate_*, ObjectPath::new, the header name checks of wire::marshal::marshal, the Param API's owned and
//! borrowed object path variants and the three decoders on a hand-written 'o'.
use vcore::common::*;
use rustbus::message_builder::{MarshalledMessage, MessageBuilder};
use rustbus::params;
use rustbus::wire::ObjectPath;
use std::num::NonZeroU32;

// ---- independent oracle, written from the specification as byte-level checks ----
fn name_char(b: u8) -> bool {
    b.is_ascii_uppercase() || b.is_ascii_lowercase() || b.is_ascii_digit() || b == b'_'
}
fn dotted(s: &[u8], dash: bool, leading_digit_ok: bool) -> bool {
    let mut n = 0;
    for e in s.split(|b| *b == b'.') {
        if e.is_empty() {
            return false;
        }
        if !leading_digit_ok && e[0].is_ascii_digit() {
            return false;
        }
        if !e.iter().all(|b| name_char(*b) || (dash && *b == b'-')) {
            return false;
        }
        n += 1;
    }
    n >= 2
}
pub fn spec(kind: &str, s: &str) -> bool {
    let b = s.as_bytes();
    match kind {
        "iface" | "errname" => b.len() <= 255 && dotted(b, false, false),
        "bus" => {
            b.len() <= 255
                && if b.first() == Some(&b':') {
                    dotted(&b[1..], true, true)
                } else {
                    dotted(b, true, false)
                }
        }
        "member" => !b.is_empty() && b.len() <= 255 && !b[0].is_ascii_digit() && b.iter().all(|c| name_char(*c)),
        "path" => {
            b == b"/"
                || (b.first() == Some(&b'/')
                    && b[1..].split(|c| *c == b'/').all(|e| !e.is_empty() && e.iter().all(|c| name_char(*c))))
        }
        _ => unreachable!(),
    }
}

fn imp(kind: &str, s: &str) -> bool {
    match kind {
        "path" => params::validate_object_path(s).is_ok(),
        "iface" => params::validate_interface(s).is_ok(),
        "errname" => params::validate_errorname(s).is_ok(),
        "bus" => params::validate_busname(s).is_ok(),
        "member" => params::validate_membername(s).is_ok(),
        _ => unreachable!(),
    }
}

/// the same verdict must come out of the places that use the validator
fn via_api(kind: &str, s: &str) -> bool {
    let mut msg: MarshalledMessage = MessageBuilder::new().signal("a.b", "M", "/").build();
    match kind {
        "path" => {
            let w = ObjectPath::new(s).is_ok();
            msg.dynheader.object = Some(s.to_string());
            let mut buf = Vec::new();
            let m = rustbus::wire::marshal::marshal(&msg, NonZeroU32::new(1).unwrap(), &mut buf).is_ok();
            assert_eq!(w, m, "ObjectPath::new and marshal disagree on {:?}", s);
            if m {
                // what the send side put into the PATH header field is accepted by the receive side and comes out unchanged
                let d = vcore::peer::decode_frame(&buf);
                assert!(d.as_ref().map(|x| x.dynheader.object.as_deref() == Some(s)).unwrap_or(false), "a message with the valid object path {:?} ({} bytes) in its PATH header field is not decoded: {:?}", s, s.len(), d.as_ref().map(|x| x.dynheader.object.clone()));
            }
            // every other place that takes or hands out an object path: the Param API (owned and borrowed
            // variant), and the three decoders on a hand-written encoding of the string as an 'o'
            use rustbus::params::{Base, Param};
            use rustbus::wire::marshal::MarshalContext;
            let via_param = |p: Param| -> bool {
                let mut b = Vec::new();
                let mut f = Vec::new();
                let mut ctx = MarshalContext { buf: &mut b, fds: &mut f, byteorder: rustbus::ByteOrder::LittleEndian };
                rustbus::wire::marshal::container::marshal_param(&p, &mut ctx).is_ok()
            };
            let nul = s.contains('\0');
            let p_owned = via_param(Param::Base(Base::ObjectPath(s.to_string())));
            let p_ref = via_param(Param::Base(Base::ObjectPathRef(s)));
            assert_eq!((p_owned, p_ref), (m, m), "Param::Base::ObjectPath / ObjectPathRef (owned, borrowed) marshalled={:?}, the validator says {} for {:?}", (p_owned, p_ref), m, s);
            if !nul {
                let mut enc = (s.len() as u32).to_le_bytes().to_vec();
                enc.extend_from_slice(s.as_bytes());
                enc.push(0);
                let ty = vcore::val::Ty::parse("o").unwrap();
                let d_raw = vcore::eng_wire::dec_validate(rustbus::ByteOrder::LittleEndian, 0, &enc, &ty).is_ok();
                let d_par = vcore::eng_wire::dec_param(rustbus::ByteOrder::LittleEndian, 0, &enc, &ty).is_ok();
                let d_typ = vcore::eng_wire::guard(|| {
                    let mut ctx = rustbus::wire::unmarshal_context::UnmarshalContext::new(&[], rustbus::ByteOrder::LittleEndian, &enc, 0);
                    <ObjectPath<&str> as rustbus::Unmarshal>::unmarshal(&mut ctx).is_ok()
                })
                .unwrap_or(false);
                assert_eq!((d_raw, d_par, d_typ), (m, m, m), "decoders (raw validation, Param, typed) accept={:?} an 'o' holding {:?}, the validator says {}", (d_raw, d_par, d_typ), s, m);
            }
            m
        }
        "iface" => {
            msg.dynheader.interface = Some(s.to_string());
            let mut buf = Vec::new();
            let ok = rustbus::wire::marshal::marshal(&msg, NonZeroU32::new(1).unwrap(), &mut buf).is_ok();
            if ok {
                let d = vcore::peer::decode_frame(&buf);
                assert!(d.as_ref().map(|x| x.dynheader.interface.as_deref() == Some(s)).unwrap_or(false), "the receive side does not accept the interface name {:?} the send side emitted", s);
            }
            ok
        }
        "errname" => {
            msg.dynheader.error_name = Some(s.to_string());
            let mut buf = Vec::new();
            let ok = rustbus::wire::marshal::marshal(&msg, NonZeroU32::new(1).unwrap(), &mut buf).is_ok();
            if ok {
                let d = vcore::peer::decode_frame(&buf);
                assert!(d.as_ref().map(|x| x.dynheader.error_name.as_deref() == Some(s)).unwrap_or(false), "the receive side does not accept the error name {:?} the send side emitted", s);
            }
            ok
        }
        "bus" => {
            let mut m2: MarshalledMessage = MessageBuilder::new().signal("a.b", "M", "/").build();
            msg.dynheader.destination = Some(s.to_string());
            m2.dynheader.sender = Some(s.to_string());
            let mut buf = Vec::new();
            let a = rustbus::wire::marshal::marshal(&msg, NonZeroU32::new(1).unwrap(), &mut buf).is_ok();
            buf.clear();
            let b = rustbus::wire::marshal::marshal(&m2, NonZeroU32::new(1).unwrap(), &mut buf).is_ok();
            assert_eq!(a, b, "destination and sender checks disagree on {:?}", s);
            if b {
                let d = vcore::peer::decode_frame(&buf);
                assert!(d.as_ref().map(|x| x.dynheader.sender.as_deref() == Some(s)).unwrap_or(false), "the receive side does not accept the bus name {:?} the send side emitted", s);
            }
            a
        }
        "member" => {
            msg.dynheader.member = Some(s.to_string());
            let mut buf = Vec::new();
            let ok = rustbus::wire::marshal::marshal(&msg, NonZeroU32::new(1).unwrap(), &mut buf).is_ok();
            if ok {
                let d = vcore::peer::decode_frame(&buf);
                assert!(d.as_ref().map(|x| x.dynheader.member.as_deref() == Some(s)).unwrap_or(false), "the receive side does not accept the member name {:?} the send side emitted", s);
            }
            ok
        }
        _ => unreachable!(),
    }
}

const KINDS: [&str; 5] = ["path", "iface", "errname", "bus", "member"];

fn one(out: &mut Out, kind: &str, s: &str, api: bool) {
    let req = format!("c08.v {} {}", kind, cps(s));
    let v = imp(kind, s);
    if v != spec(kind, s) {
        out.violation(&req, &format!("validate_{}({:?}) = {} but the specification says {}", kind, s, v, !v));
    }
    if api {
        match vcore::eng_wire::guard(|| via_api(kind, s)) {
            Ok(a) if a == v => {}
            Ok(_) => out.violation(&req, &format!("marshal/ObjectPath::new verdict differs from validate_{} on {:?}", kind, s)),
            Err(p) => out.violation(&req, &format!("the places that validate a {} disagree: {}", kind, p)),
        }
    }
    out.hit(if v { "accepted" } else { "rejected" });
    out.case(&req, if v { "ok" } else { "reject" }, true);
}

pub fn run(cfg: &Cfg) {
    std::panic::set_hook(Box::new(|_| {}));
    let mut out = Out::new(&cfg.outdir);
    let mut rng = Prng::new(cfg.seed);
    let alphabet: Vec<char> = vec!['a', 'Z', '0', '9', '_', '-', '.', ':', '/', 'é', '٣', '\0', ' '];
    let maxlen = if cfg.thorough { 5 } else { 4 };
    // 1. exhaustive over the alphabet
    let mut idx = vec![0usize; 0];
    loop {
        let s: String = idx.iter().map(|i| alphabet[*i]).collect();
        for k in KINDS {
            one(&mut out, k, &s, idx.len() <= 3);
        }
        // the same string as every kind of name, in the other order too (a verdict must not depend on what was validated before)
        if idx.len() <= 3 {
            for k in KINDS.iter().rev() {
                let v = imp(k, &s);
                if v != spec(k, &s) {
                    out.violation(&format!("c08.v {} {}", k, cps(&s)), &format!("validate_{}({:?}) = {} after the same string was validated as the other kinds of name; the specification says {}", k, s, v, !v));
                }
            }
        }
        // next string (length-lexicographic)
        let mut i = idx.len();
        loop {
            if i == 0 {
                idx = vec![0; idx.len() + 1];
                break;
            }
            i -= 1;
            if idx[i] + 1 < alphabet.len() {
                idx[i] += 1;
                for j in i + 1..idx.len() {
                    idx[j] = 0;
                }
                break;
            }
        }
        if idx.len() > maxlen {
            break;
        }
    }
    let exhaustive_cases = out.n;
    // 2. length boundaries 254/255/256 for each kind, ASCII and with a multi-byte character
    for total in [253usize, 254, 255, 256, 257, 300] {
        let mk = |lead: &str| -> String {
            let mut s = lead.to_string();
            while s.len() < total {
                s.push('a');
            }
            s
        };
        for (k, lead) in [("iface", "a.b"), ("errname", "a.b"), ("bus", "a.b"), ("bus", ":1.2"), ("member", "M"), ("path", "/p")] {
            one(&mut out, k, &mk(lead), true);
        }
        // 2-byte character near the boundary (byte length vs char count)
        for k in ["iface", "member", "bus"] {
            let mut s = if k == "member" { "M".to_string() } else { "a.b".to_string() };
            while s.len() + 2 < total {
                s.push('a');
            }
            s.push('é');
            one(&mut out, k, &s, false);
        }
    }
    // 3. every Unicode scalar value, first and later position, all validators
    let step = if cfg.thorough { 1 } else { 1 };
    let mut cp: u32 = 0;
    let mut chars = 0u64;
    while cp <= 0x10FFFF {
        if let Some(c) = char::from_u32(cp) {
            let f = |k: &str, s: String| -> char {
                if imp(k, &s) { '1' } else { '0' }
            };
            let obs: String = [
                f("path", format!("/{}", c)), f("path", format!("/a{}", c)),
                f("iface", format!("{}.b", c)), f("iface", format!("a{}.b", c)),
                f("bus", format!("{}.b", c)), f("bus", format!("a{}.b", c)),
                f("bus", format!(":{}.b", c)), f("bus", format!(":a.{}", c)),
                f("member", format!("{}", c)), f("member", format!("a{}", c)),
            ].iter().collect();
            let want: String = [
                spec("path", &format!("/{}", c)), spec("path", &format!("/a{}", c)),
                spec("iface", &format!("{}.b", c)), spec("iface", &format!("a{}.b", c)),
                spec("bus", &format!("{}.b", c)), spec("bus", &format!("a{}.b", c)),
                spec("bus", &format!(":{}.b", c)), spec("bus", &format!(":a.{}", c)),
                spec("member", &format!("{}", c)), spec("member", &format!("a{}", c)),
            ].iter().map(|b| if *b { '1' } else { '0' }).collect();
            let req = format!("c08.char {}", cp);
            if obs != want {
                out.violation(&req, &format!("character U+{:04X}: verdicts {} but the specification says {}", cp, obs, want));
            }
            out.case(&req, &obs, obs != "0000000000");
            chars += 1;
        }
        cp += step;
    }
    out.hit_n("unicode_scalars_enumerated", chars);
    // 4. random longer strings
    let n = if cfg.thorough { 300_000 } else { 30_000 };
    for _ in 0..n {
        let len = rng.range(1, 40) as usize;
        let s: String = (0..len)
            .map(|_| {
                let r = rng.below(100);
                if r < 55 { *rng.pick(&['a', 'b', 'Z', 'q', '_']) } else if r < 70 { *rng.pick(&['0', '7']) }
                else if r < 85 { '.' } else if r < 90 { '/' } else if r < 94 { '-' } else if r < 96 { ':' }
                else { *rng.pick(&['é', ' ', '\0', '٣', '$']) }
            })
            .collect();
        let k = *rng.pick(&KINDS);
        one(&mut out, k, &s, false);
        let s2 = if k == "path" { format!("/{}", s) } else if k == "bus" && rng.chance(1, 3) { format!(":{}", s) } else { s };
        one(&mut out, k, &s2, false);
    }
    out.extra("exhaustive_prefix_cases", exhaustive_cases.to_string());
    out.extra("exhaustive_alphabet", json_str("a Z 0 9 _ - . : / é ٣ NUL space"));
    out.extra("exhaustive_max_len", maxlen.to_string());
    out.finish(
        "all strings over the 13-symbol alphabet up to the length bound x 5 validators (exhaustive), every Unicode scalar value in first and later position (exhaustive), 253..300-byte boundaries, random longer strings; distinct by request; non-trivial = every string case, and character cases with at least one accepting verdict",
        true,
    );
}
