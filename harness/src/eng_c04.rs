//! C04: no input bytes can crash, hang or exhaust a decoder.
//!
//! The engine generates inputs (valid encodings + all single-byte corruptions/truncations, nesting bombs, huge
//! declared lengths, random bytes, signature-shape mismatches, raw messages for the header side) and runs every
//! one of them in TWO WORKER PROCESSES (the optimised build and a build with debug assertions / overflow checks,
//! profile `relcheck`), at all 8 memory alignments of the buffer, through every decoding entry point. A worker runs
//! the cases on a thread with a 2 MiB stack under `catch_unwind` with a counting global allocator; it answers one
//! line per case. A worker that dies (SIGSEGV / SIGABRT), hangs or panics pins the violation to one input.
//!
//! Correspondence with the Lean model: `c04.dec` (validate_marshalled), `c04.body` (validate() / get_param loop),
//! `c04.slice` (Cow<[E]> borrowed/owned), `c04.nocrash` (crash-only).
#![allow(dead_code)]
use rustbus::message_builder::{DynamicHeader, MarshalledMessage, MarshalledMessageBody, MessageType};
use rustbus::wire::errors::UnmarshalError;
use rustbus::wire::unmarshal;
use rustbus::wire::unmarshal::traits::Variant;
use rustbus::wire::unmarshal_context::{Cursor, UnmarshalContext};
use rustbus::wire::validate_raw::validate_marshalled;
use rustbus::wire::{ObjectPath, SignatureWrapper};
use rustbus::{dbus_variant_sig, dbus_variant_var, ByteOrder, Signature, Unmarshal};
use rustbus_derive::{Marshal as DMarshal, Signature as DSignature, Unmarshal as DUnmarshal};
use std::alloc::{GlobalAlloc, Layout, System};
use std::borrow::Cow;
use std::collections::{BTreeMap, HashMap};
use std::io::{BufRead, BufReader, Write};
use std::path::{Path, PathBuf};
use std::sync::atomic::{AtomicUsize, Ordering::Relaxed};
use std::time::{Duration, Instant};
use vcore::common::*;
use vcore::eng_wire::guard;
use vcore::typed::{Cat, Var};
use vcore::val::*;

// ================================================================================================
// counting allocator (installed by bin/vh_c04.rs)

pub struct CountingAlloc;
static LIVE: AtomicUsize = AtomicUsize::new(0);
static PEAK: AtomicUsize = AtomicUsize::new(0);
static MAXONE: AtomicUsize = AtomicUsize::new(0);

#[inline]
fn note_alloc(new: usize) {
    let live = LIVE.fetch_add(new, Relaxed) + new;
    PEAK.fetch_max(live, Relaxed);
    MAXONE.fetch_max(new, Relaxed);
}
unsafe impl GlobalAlloc for CountingAlloc {
    unsafe fn alloc(&self, l: Layout) -> *mut u8 {
        let p = System.alloc(l);
        if !p.is_null() {
            note_alloc(l.size());
        }
        p
    }
    unsafe fn alloc_zeroed(&self, l: Layout) -> *mut u8 {
        let p = System.alloc_zeroed(l);
        if !p.is_null() {
            note_alloc(l.size());
        }
        p
    }
    unsafe fn dealloc(&self, p: *mut u8, l: Layout) {
        LIVE.fetch_sub(l.size(), Relaxed);
        System.dealloc(p, l)
    }
    unsafe fn realloc(&self, p: *mut u8, l: Layout, new: usize) -> *mut u8 {
        // a moving realloc needs old + new at the same time: count that
        note_alloc(new);
        let q = System.realloc(p, l, new);
        if q.is_null() {
            LIVE.fetch_sub(new, Relaxed);
        } else {
            LIVE.fetch_sub(l.size(), Relaxed);
        }
        q
    }
}

// ================================================================================================
// derived / macro generated types (same definitions as eng_c16)

#[derive(DMarshal, DUnmarshal, DSignature, Debug, PartialEq, Clone)]
struct S1 {
    a: u8,
    b: u64,
}
#[derive(DMarshal, DUnmarshal, DSignature, Debug, PartialEq, Clone)]
struct S2 {
    a: String,
    b: Vec<u64>,
    c: (u8, u32),
}
#[derive(DMarshal, DUnmarshal, DSignature, Debug, PartialEq, Clone)]
struct S3 {
    x: u32,
}
#[derive(DMarshal, DUnmarshal, DSignature, Debug, PartialEq, Clone)]
struct S4 {
    s: S1,
    m: HashMap<String, u32>,
    t: u16,
}
#[derive(DMarshal, DUnmarshal, DSignature, Debug, PartialEq)]
enum E1 {
    A(u32),
    B(String, u64),
    C { x: u8, y: Vec<u16> },
}
type T2 = (u8, u64);
type VU = Vec<u64>;
dbus_variant_sig!(MS, CaseU => u32; CaseS => String; CaseT => T2; CaseV => VU);
dbus_variant_var!(MV, CaseU => u32; CaseS => String; CaseT => (u8, u64));

// ================================================================================================
// the table of Rust types a body can be asked for

type GetFn = for<'a> fn(&'a MarshalledMessageBody) -> Result<(), UnmarshalError>;
type DecFn = for<'x, 'f, 'b> fn(&'x mut UnmarshalContext<'f, 'b>) -> Result<(), UnmarshalError>;

pub struct TEntry {
    name: String,
    sig: String,
    /// the typed decoder accepts exactly what validate_marshalled accepts (no `Var<T>` that insists on one inner type)
    strict: bool,
    has_sig: fn(&str) -> bool,
    get: GetFn,
    dec: DecFn,
}

fn type_sig(t: rustbus::signature::Type) -> String {
    let mut s = String::new();
    t.to_str(&mut s);
    s
}

fn build_table() -> Vec<TEntry> {
    let mut v: Vec<TEntry> = Vec::new();
    macro_rules! ent {
        ($t:ty, $strict:expr) => {{
            let sig = type_sig(<$t as Signature>::signature());
            let strict: Option<bool> = $strict;
            v.push(TEntry {
                name: stringify!($t).replace(' ', ""),
                strict: strict.unwrap_or(!sig.contains('v')),
                sig,
                has_sig: |s| <$t as Signature>::has_sig(s),
                get: |b| b.parser().get::<$t>().map(|_| ()),
                dec: |c| <$t as Unmarshal>::unmarshal(c).map(|_| ()),
            })
        }};
    }
    macro_rules! cat {
        ($t:ty) => {
            ent!($t, None)
        };
    }
    vcore::for_each_catalogue_type!(cat);
    ent!(Cow<[u8]>, None);
    ent!(Cow<[i16]>, None);
    ent!(Cow<[u16]>, None);
    ent!(Cow<[i32]>, None);
    ent!(Cow<[u32]>, None);
    ent!(Cow<[i64]>, None);
    ent!(Cow<[u64]>, None);
    ent!(Cow<[f64]>, None);
    ent!(Cow<[bool]>, None);
    ent!(&[u8], None);
    ent!(&str, None);
    ent!(ObjectPath<&str>, None);
    ent!(SignatureWrapper<&str>, None);
    ent!(Variant, Some(true));
    ent!(S1, None);
    ent!(S2, None);
    ent!(S3, None);
    ent!(S4, None);
    ent!(E1, Some(false));
    ent!(MS, Some(true));
    ent!(MV, Some(true));
    ent!(Vec<S1>, None);
    ent!(Vec<S2>, None);
    ent!((u8, S4), None);
    ent!(Vec<Variant>, None);
    ent!(HashMap<String, Variant>, None);
    ent!(HashMap<&str, MV>, None);
    ent!(HashMap<String, MS>, None);
    ent!((u8, Variant), None);
    ent!(Vec<E1>, None);
    ent!(Vec<MS>, None);
    ent!(Vec<Cow<[u64]>>, None);
    ent!((u8, Cow<[u64]>), None);
    ent!((u8, Cow<[u16]>), None);
    ent!((u8, &[u8]), None);
    ent!(Vec<&[u8]>, None);
    ent!(Vec<&str>, None);
    ent!(HashMap<u8, Cow<[u32]>>, None);
    v
}

// ================================================================================================
// small shared helpers

fn bo_name(bo: ByteOrder) -> &'static str {
    match bo {
        ByteOrder::LittleEndian => "le",
        ByteOrder::BigEndian => "be",
    }
}
fn parse_bo(s: &str) -> ByteOrder {
    if s == "be" {
        ByteOrder::BigEndian
    } else {
        ByteOrder::LittleEndian
    }
}
const ORDERS: [ByteOrder; 2] = [ByteOrder::LittleEndian, ByteOrder::BigEndian];

fn fnv_bytes(bs: &[u8]) -> u64 {
    let mut h: u64 = 0xcbf29ce484222325;
    for b in bs {
        h ^= *b as u64;
        h = h.wrapping_mul(0x100000001b3);
    }
    h
}

fn put_u32(bo: ByteOrder, v: u32, out: &mut Vec<u8>) {
    match bo {
        ByteOrder::LittleEndian => out.extend_from_slice(&v.to_le_bytes()),
        ByteOrder::BigEndian => out.extend_from_slice(&v.to_be_bytes()),
    }
}

/// error → small stable kind name
fn ek(e: &UnmarshalError) -> String {
    let s = format!("{:?}", e);
    if s.contains("NestingTooDeep") {
        return "NestingTooDeep".into();
    }
    s.chars().take_while(|c| c.is_ascii_alphanumeric()).collect()
}

// ================================================================================================
// independent encoder that remembers where the length fields are

pub struct Enc {
    bo: ByteOrder,
    pub buf: Vec<u8>,
    /// (offset, width) of every length field: 4 = array / string length, 1 = signature length
    pub lens: Vec<(usize, u8)>,
}
impl Enc {
    pub fn new(bo: ByteOrder) -> Enc {
        Enc { bo, buf: Vec::new(), lens: Vec::new() }
    }
    fn pad(&mut self, a: usize) {
        while self.buf.len() % a != 0 {
            self.buf.push(0);
        }
    }
    fn u16(&mut self, v: u16) {
        self.pad(2);
        match self.bo {
            ByteOrder::LittleEndian => self.buf.extend_from_slice(&v.to_le_bytes()),
            ByteOrder::BigEndian => self.buf.extend_from_slice(&v.to_be_bytes()),
        }
    }
    fn u32(&mut self, v: u32) {
        self.pad(4);
        put_u32(self.bo, v, &mut self.buf);
    }
    fn u64(&mut self, v: u64) {
        self.pad(8);
        match self.bo {
            ByteOrder::LittleEndian => self.buf.extend_from_slice(&v.to_le_bytes()),
            ByteOrder::BigEndian => self.buf.extend_from_slice(&v.to_be_bytes()),
        }
    }
    fn patch_u32(&mut self, at: usize, v: u32) {
        let mut t = Vec::new();
        put_u32(self.bo, v, &mut t);
        self.buf[at..at + 4].copy_from_slice(&t);
    }
    fn sig(&mut self, s: &str) {
        self.lens.push((self.buf.len(), 1));
        self.buf.push(s.len() as u8);
        self.buf.extend_from_slice(s.as_bytes());
        self.buf.push(0);
    }
    pub fn put(&mut self, ty: &Ty, v: &Val) {
        match (ty, v) {
            (Ty::Base(c), Val::Num(n)) => match c {
                'y' => self.buf.push(*n as u8),
                'n' | 'q' => self.u16(*n as u16),
                'b' | 'i' | 'u' | 'h' => self.u32(*n as u32),
                _ => self.u64(*n),
            },
            (Ty::Base('g'), Val::Str(b)) => {
                self.lens.push((self.buf.len(), 1));
                self.buf.push(b.len() as u8);
                self.buf.extend_from_slice(b);
                self.buf.push(0);
            }
            (Ty::Base(_), Val::Str(b)) => {
                self.pad(4);
                self.lens.push((self.buf.len(), 4));
                self.u32(b.len() as u32);
                self.buf.extend_from_slice(b);
                self.buf.push(0);
            }
            (Ty::Array(e), Val::Arr(vs)) => {
                self.pad(4);
                let at = self.buf.len();
                self.lens.push((at, 4));
                self.u32(0);
                self.pad(e.align());
                let start = self.buf.len();
                for x in vs {
                    self.put(e, x);
                }
                let n = self.buf.len() - start;
                self.patch_u32(at, n as u32);
            }
            (Ty::Dict(k, vt), Val::Arr(es)) => {
                self.pad(4);
                let at = self.buf.len();
                self.lens.push((at, 4));
                self.u32(0);
                self.pad(8);
                let start = self.buf.len();
                for e in es {
                    if let Val::Struct(kv) = e {
                        self.pad(8);
                        self.put(&Ty::Base(*k), &kv[0]);
                        self.put(vt, &kv[1]);
                    }
                }
                let n = self.buf.len() - start;
                self.patch_u32(at, n as u32);
            }
            (Ty::Struct(fs), Val::Struct(vs)) => {
                self.pad(8);
                for (f, x) in fs.iter().zip(vs.iter()) {
                    self.put(f, x);
                }
            }
            (Ty::Variant, Val::Variant(t, x)) => {
                let s = t.sig();
                self.sig(&s[..s.len().min(255)]);
                self.put(t, x);
            }
            _ => {}
        }
    }
}

fn encode(bo: ByteOrder, ty: &Ty, v: &Val) -> Enc {
    let mut e = Enc::new(bo);
    e.put(ty, v);
    e
}

/// a tower of containers: pattern characters a v ( { give the container kind of each level
fn tower(pat: &[u8], i: usize, remaining: isize) -> (Ty, Val) {
    if remaining <= 0 {
        return (Ty::Base('y'), Val::Num(7));
    }
    match pat[i % pat.len()] {
        b'a' => {
            let (t, v) = tower(pat, i + 1, remaining - 1);
            (Ty::Array(Box::new(t)), Val::Arr(vec![v]))
        }
        b'v' => {
            let (t, v) = tower(pat, i + 1, remaining - 1);
            (Ty::Variant, Val::Variant(t, Box::new(v)))
        }
        b'(' => {
            let (t, v) = tower(pat, i + 1, remaining - 1);
            (Ty::Struct(vec![Ty::Base('y'), t]), Val::Struct(vec![Val::Num(1), v]))
        }
        _ => {
            let (t, v) = tower(pat, i + 1, remaining - 2);
            (Ty::Dict('s', Box::new(t)), Val::Arr(vec![Val::Struct(vec![Val::Str(b"k".to_vec()), v])]))
        }
    }
}

/// header + header fields + body. A field value is either (type, value) or raw bytes of the variant.
enum FieldVal {
    Typed(Ty, Val),
    Raw(Vec<u8>),
}
fn build_msg(bo: ByteOrder, typ: u8, flags: u8, ver: u8, serial: u32, fields: &[(u8, FieldVal)], body: &[u8], body_len: Option<u32>) -> Vec<u8> {
    let mut e = Enc::new(bo);
    e.buf.push(if bo == ByteOrder::LittleEndian { b'l' } else { b'B' });
    e.buf.push(typ);
    e.buf.push(flags);
    e.buf.push(ver);
    e.u32(body_len.unwrap_or(body.len() as u32));
    e.u32(serial);
    e.u32(0);
    let start = e.buf.len();
    for (code, fv) in fields {
        e.pad(8);
        e.buf.push(*code);
        match fv {
            FieldVal::Typed(t, v) => {
                e.sig(&t.sig());
                e.put(t, v);
            }
            FieldVal::Raw(b) => e.buf.extend_from_slice(b),
        }
    }
    let n = e.buf.len() - start;
    e.patch_u32(12, n as u32);
    e.pad(8);
    e.buf.extend_from_slice(body);
    e.buf
}
fn fstr(code: u8, c: char, s: &str) -> (u8, FieldVal) {
    (code, FieldVal::Typed(Ty::Base(c), Val::Str(s.as_bytes().to_vec())))
}
/// a method call to /a member M with the given body signature
fn call_msg(bo: ByteOrder, sig: Option<&str>, extra: Vec<(u8, FieldVal)>, body: &[u8]) -> Vec<u8> {
    let mut f = vec![fstr(1, 'o', "/a"), fstr(3, 's', "M")];
    if let Some(s) = sig {
        f.push(fstr(8, 'g', s));
    }
    f.extend(extra);
    build_msg(bo, 1, 0, 1, 7, &f, body, None)
}

/// the byte generators behind `@name:n` tokens (inputs too large to be written as hex)
fn gen_desc(desc: &str, bo: ByteOrder) -> Vec<u8> {
    let parts: Vec<&str> = desc.trim_start_matches('@').split(':').collect();
    let n: usize = parts.get(1).and_then(|x| x.parse().ok()).unwrap_or(1);
    let vnest = |d: usize| {
        let mut b = Vec::with_capacity(3 * d + 4);
        for _ in 1..d.max(1) {
            b.extend_from_slice(&[1, b'v', 0]);
        }
        b.extend_from_slice(&[1, b'y', 0, 7]);
        b
    };
    match parts[0] {
        "vnest" => vnest(n),
        "svnest" => {
            let mut b = Vec::with_capacity(8 * n + 4);
            for _ in 0..n {
                b.extend_from_slice(&[3, b'(', b'v', b')', 0, 0, 0, 0]);
            }
            b.extend_from_slice(&[1, b'y', 0, 7]);
            b
        }
        "avnest" => {
            let mut b = Vec::with_capacity(8 * n + 4);
            for i in 0..n {
                b.extend_from_slice(&[2, b'a', b'v', 0]);
                put_u32(bo, (8 * (n - 1 - i) + 4) as u32, &mut b);
            }
            b.extend_from_slice(&[1, b'y', 0, 7]);
            b
        }
        "msgvnest" => call_msg(bo, Some("v"), vec![], &vnest(n)),
        "hdrvnest" => call_msg(bo, None, vec![(0x20, FieldVal::Raw(vnest(n)))], &[]),
        _ => Vec::new(),
    }
}

fn bytes_of(tok: &str, bo: ByteOrder) -> Vec<u8> {
    if tok.starts_with('@') {
        gen_desc(tok, bo)
    } else {
        unhex(tok)
    }
}

// ================================================================================================
// WORKER

const CV: usize = 0; // validation style entry points (no value tree is built)
const CT: usize = 1; // typed entry points, header parsing
const CP: usize = 2; // Param tree entry points

struct Stats {
    peak: [usize; 3],
    one: [usize; 3],
    who: [String; 3],
    calls: [u64; 8],
    slow_ns: u128,
    slow_who: String,
}
impl Stats {
    fn new() -> Stats {
        Stats { peak: [0; 3], one: [0; 3], who: [String::new(), String::new(), String::new()], calls: [0; 8], slow_ns: 0, slow_who: String::new() }
    }
    /// one measured, guarded call into the library
    fn call<R>(&mut self, cls: usize, a: usize, name: &str, f: impl FnOnce() -> R) -> Result<R, String> {
        let base = LIVE.load(Relaxed);
        PEAK.store(base, Relaxed);
        MAXONE.store(0, Relaxed);
        let t0 = Instant::now();
        let r = guard(f);
        let dt = t0.elapsed().as_nanos();
        let peak = PEAK.load(Relaxed).saturating_sub(base);
        let one = MAXONE.load(Relaxed);
        if peak > self.peak[cls] {
            self.peak[cls] = peak;
            self.who[cls] = name.to_string();
        }
        if one > self.one[cls] {
            self.one[cls] = one;
        }
        if dt > self.slow_ns {
            self.slow_ns = dt;
            self.slow_who = name.to_string();
        }
        self.calls[a % 8] += 1;
        r.map_err(|p| p.replace(['\t', '\n', '\r', '|'], " "))
    }
}

/// walk a `ParamIter` to its leaves (the recursion is the caller's: it stops at 200 levels, deeper values count as one leaf)
fn iter_walk(mut p: unmarshal::iter::ParamIter, depth: usize) -> Result<usize, UnmarshalError> {
    if p.is_base() || depth >= 200 {
        return Ok(1);
    }
    let mut n = 0usize;
    while let Some(r) = p.recurse() {
        n += iter_walk(r?, depth + 1)?;
        if n > 1_000_000 {
            break;
        }
    }
    Ok(n)
}

/// rendering of Ok(Ok(x)) / Ok(Err(e)) / Err(panic)
fn oc<T>(r: Result<Result<T, UnmarshalError>, String>, show: impl Fn(&T) -> String) -> String {
    match r {
        Ok(Ok(x)) => {
            let s = show(&x);
            if s.is_empty() {
                "ok".to_string()
            } else {
                format!("ok {}", s)
            }
        }
        Ok(Err(e)) => format!("err {}", ek(&e)),
        Err(p) => format!("panic {}", p),
    }
}

/// bytes placed so that the first byte sits at an address ≡ a (mod 8)
struct ABuf {
    w: Vec<u64>,
    a: usize,
    len: usize,
}
impl ABuf {
    fn new(bytes: &[u8], a: usize) -> ABuf {
        let mut w = vec![0xA5A5A5A5A5A5A5A5u64; (bytes.len() + a + 15) / 8 + 1];
        unsafe { std::ptr::copy_nonoverlapping(bytes.as_ptr(), (w.as_mut_ptr() as *mut u8).add(a), bytes.len()) };
        ABuf { w, a, len: bytes.len() }
    }
    fn s(&self) -> &[u8] {
        unsafe { std::slice::from_raw_parts((self.w.as_ptr() as *const u8).add(self.a), self.len) }
    }
}
/// a body whose first byte sits at an address ≡ a (mod 8): k filler bytes + buf_offset = k
fn body_at(bytes: &[u8], a: usize, sigs: &str, bo: ByteOrder) -> MarshalledMessageBody {
    let mut v: Vec<u8> = Vec::with_capacity(bytes.len() + 16);
    let p = v.as_ptr() as usize;
    let k = (a + 8 - p % 8) % 8;
    v.resize(k, 0xAA);
    v.extend_from_slice(bytes);
    MarshalledMessageBody::from_parts(v, k, vec![], sigs.to_string(), bo)
}

trait Bits: Copy {
    const SIZE: usize;
    fn bits(self) -> u64;
}
macro_rules! bits_int {
    ($($t:ty),*) => {$(impl Bits for $t { const SIZE: usize = std::mem::size_of::<$t>(); fn bits(self) -> u64 { self as u64 & (u64::MAX >> (64 - 8 * std::mem::size_of::<$t>())) } })*};
}
bits_int!(u8, i16, u16, i32, u32, i64, u64);
impl Bits for f64 {
    const SIZE: usize = 8;
    fn bits(self) -> u64 {
        self.to_bits()
    }
}
impl Bits for bool {
    const SIZE: usize = 4;
    fn bits(self) -> u64 {
        self as u64
    }
}

struct Worker {
    tab: Vec<TEntry>,
    by_sig: HashMap<String, Vec<usize>>,
    st: Stats,
}

fn get_param_loop(body: &MarshalledMessageBody) -> Result<(usize, String), UnmarshalError> {
    let mut p = body.parser();
    let mut n = 0usize;
    loop {
        match p.get_param() {
            Ok(_) => {
                n += 1;
                if n > 300 {
                    return Ok((n, "LOOP".into()));
                }
            }
            Err(e) => return Ok((n, ek(&e))),
        }
    }
}

impl Worker {
    fn new() -> Worker {
        let tab = build_table();
        let mut by_sig: HashMap<String, Vec<usize>> = HashMap::new();
        for (i, e) in tab.iter().enumerate() {
            by_sig.entry(e.sig.clone()).or_default().push(i);
        }
        Worker { tab, by_sig, st: Stats::new() }
    }

    // ---- dec: one value of one type at offset 0 -------------------------------------------------
    fn dec_at(&mut self, bo: ByteOrder, ty: &rustbus::signature::Type, sig: &str, bytes: &[u8], a: usize, typed: bool) -> String {
        let ab = ABuf::new(bytes, a);
        let buf = ab.s();
        let v = self.st.call(CV, a, "validate_marshalled", || validate_marshalled(bo, 0, buf, ty).map_err(|e| e.1));
        let mut s = format!("V={}", oc(v, |n| n.to_string()));
        let p = self.st.call(CP, a, "unmarshal_with_sig", || {
            let mut ctx = UnmarshalContext::new(&[], bo, buf, 0);
            unmarshal::container::unmarshal_with_sig(ty, &mut ctx).map(|_| buf.len() - ctx.remainder().len())
        });
        s.push_str(&format!("|P={}", oc(p, |n| n.to_string())));
        if typed {
            if let Some(ix) = self.by_sig.get(sig) {
                for &i in ix {
                    let e = &self.tab[i];
                    let dec = e.dec;
                    let t = self.st.call(CT, a, &e.name, || {
                        let mut ctx = UnmarshalContext::new(&[], bo, buf, 0);
                        dec(&mut ctx).map(|_| buf.len() - ctx.remainder().len())
                    });
                    s.push_str(&format!("|T{}:{}={}", if e.strict { "s" } else { "w" }, e.name, oc(t, |n| n.to_string())));
                }
            }
        }
        s
    }

    // ---- body: validate(), get_param loop, unmarshall_all --------------------------------------
    fn body_at(&mut self, bo: ByteOrder, sigs: &str, bytes: &[u8], a: usize) -> String {
        let body = body_at(bytes, a, sigs, bo);
        let ab = ABuf::new(bytes, a);
        let v = self.st.call(CV, a, "body.validate", || body.validate());
        let mut s = format!("Bv={}", oc(v, |_| String::new()));
        let p = self.st.call(CP, a, "get_param loop", || get_param_loop(&body));
        s.push_str(&format!("|Bp={}", oc(p, |(n, k)| format!("{}:{}", n, k))));
        let c = self.st.call(CP, a, "unmarshal_with_sig loop", || {
            let types = rustbus::signature::Type::parse_description(sigs)?;
            let buf = ab.s();
            let mut ctx = UnmarshalContext::new(&[], bo, buf, 0);
            for t in &types {
                unmarshal::container::unmarshal_with_sig(t, &mut ctx)?;
            }
            Ok(buf.len() - ctx.remainder().len())
        });
        s.push_str(&format!("|Bc={}", oc(c, |n| n.to_string())));
        let nsig = self.st.call(CV, a, "sigs_left", || Ok::<_, UnmarshalError>(body.parser().sigs_left()));
        s.push_str(&format!("|Bn={}", oc(nsig, |n| n.to_string())));
        let msg = MarshalledMessage { body, dynheader: DynamicHeader::default(), typ: MessageType::Signal, flags: 0 };
        let all = self.st.call(CP, a, "unmarshall_all", || msg.unmarshall_all().map(|m| m.params.len()));
        s.push_str(&format!("|Ba={}", oc(all, |n| n.to_string())));
        // the lazy decoder `wire::unmarshal::iter` (public, experimental): walk every value of the body to its leaves
        let it = self.st.call(CV, a, "iter walk", || {
            let types = rustbus::signature::Type::parse_description(sigs)?;
            let buf = ab.s();
            let mut offset = 0usize;
            let mut leaves = 0usize;
            for t in &types {
                match unmarshal::iter::ParamIter::new(t, &mut offset, buf, bo) {
                    None => break,
                    Some(r) => leaves += iter_walk(r?, 0)?,
                }
            }
            Ok(leaves)
        });
        s.push_str(&format!("|Bi={}", oc(it, |n| n.to_string())));
        s
    }

    // ---- typed: parser().get::<T>() for every T of the table, get2/get3, Variant ----------------
    fn typed_gets(&mut self, body: &MarshalledMessageBody, a: usize) -> String {
        let first = self.st.call(CV, a, "get_next_sig", || Ok::<_, UnmarshalError>(body.parser().get_next_sig().map(|x| x.to_string())));
        let first = match first {
            Ok(Ok(f)) => f,
            other => return format!("next_sig={}", oc(other, |_| String::new())),
        };
        let mut s = format!("next_sig=ok {}", first.as_deref().unwrap_or("-"));
        let (mut nomatch, mut odd) = (0usize, 0usize);
        for i in 0..self.tab.len() {
            let (hs, get) = (self.tab[i].has_sig, self.tab[i].get);
            let m = match &first {
                Some(f) => self.st.call(CV, a, "has_sig", || hs(f)),
                None => Ok(false),
            };
            let r = self.st.call(CT, a, &self.tab[i].name, || get(body));
            match m {
                Ok(true) => s.push_str(&format!("|G:{}={}", self.tab[i].name, oc(r, |_| String::new()))),
                Ok(false) => {
                    nomatch += 1;
                    let want = if first.is_some() { "err WrongSignature" } else { "err EndOfMessage" };
                    let got = oc(r, |_| String::new());
                    if got != want {
                        odd += 1;
                        s.push_str(&format!("|G!:{}={}", self.tab[i].name, got));
                    }
                }
                Err(p) => s.push_str(&format!("|HS:{}=panic {}", self.tab[i].name, p)),
            }
        }
        s.push_str(&format!("|nomatch={}:{}", nomatch, odd));
        // get2 / get3 over a small menu
        let mut g2 = Vec::new();
        let mut g2err: BTreeMap<String, usize> = BTreeMap::new();
        macro_rules! two {
            ($x:ty; $($y:ty),*) => {$(
                let r = self.st.call(CT, a, "get2", || body.parser().get2::<$x, $y>().map(|_| ()));
                match oc(r, |_| String::new()).as_str() {
                    "ok" => g2.push(concat!(stringify!($x), "+", stringify!($y)).replace(' ', "")),
                    e => *g2err.entry(e.to_string()).or_insert(0) += 1,
                }
            )*};
        }
        macro_rules! twos {
            ($($x:ty),*) => {$( two!($x; u8, u32, u64, String, Vec<u64>, Variant, (u8, u64), S1); )*};
        }
        twos!(u8, u32, u64, String, Vec<u64>, Variant, (u8, u64), S1);
        macro_rules! three {
            ($x:ty, $y:ty; $($z:ty),*) => {$(
                let r = self.st.call(CT, a, "get3", || body.parser().get3::<$x, $y, $z>().map(|_| ()));
                match oc(r, |_| String::new()).as_str() {
                    "ok" => g2.push(concat!(stringify!($x), "+", stringify!($y), "+", stringify!($z)).replace(' ', "")),
                    e => *g2err.entry(e.to_string()).or_insert(0) += 1,
                }
            )*};
        }
        macro_rules! threes {
            ($($x:ty, $y:ty);*) => {$( three!($x, $y; u8, u64, String, Variant); )*};
        }
        threes!(u8, u8; u8, u64; u8, String; u64, u8; u64, u64; String, u8; String, String; Variant, u8; Variant, Variant; u8, Variant);
        s.push_str(&format!("|multi=ok {}", g2.join(",")));
        for (k, n) in &g2err {
            if k.starts_with("panic") {
                s.push_str(&format!("|multi!={}", k));
            } else {
                s.push_str(&format!("|multi_{}={}", k.replace(' ', "_"), n));
            }
        }
        // a variant and what is in it
        if first.as_deref() == Some("v") {
            macro_rules! inner {
                ($($t:ty),*) => {$(
                    let r = self.st.call(CT, a, "Variant.get", || {
                        let v = body.parser().get::<Variant>()?;
                        v.get::<$t>().map(|_| ())
                    });
                    s.push_str(&format!("|var:{}={}", stringify!($t).replace(' ', ""), oc(r, |_| String::new())));
                )*};
            }
            inner!(u8, u32, u64, String, Vec<u64>, (u8, u64), S1, Cow<[u64]>, Cow<[u16]>, Variant, HashMap<String, Variant>, MV, E1);
        }
        s
    }
    fn typed_at(&mut self, bo: ByteOrder, sigs: &str, bytes: &[u8], a: usize) -> String {
        let body = body_at(bytes, a, sigs, bo);
        self.typed_gets(&body, a)
    }

    // ---- hdr: raw message bytes ----------------------------------------------------------------
    fn hdr_at(&mut self, bytes: &[u8], a: usize) -> String {
        let ab = ABuf::new(bytes, a);
        let full = ab.s();
        let r = self.st.call(CT, a, "unmarshal_header..next_message", || {
            let mut cur = Cursor::new(full);
            let hdr = unmarshal::unmarshal_header(&mut cur).map_err(|e| format!("H:{}", ek(&e)))?;
            let dh = unmarshal::unmarshal_dynamic_header(&hdr, &mut cur).map_err(|e| format!("D:{}", ek(&e)))?;
            let used = cur.consumed();
            unmarshal::unmarshal_next_message(&hdr, dh, full.to_vec(), used, vec![]).map_err(|e| format!("M:{}", ek(&e)))
        });
        let msg = match r {
            Ok(Ok(m)) => m,
            Ok(Err(stage)) => return format!("hdr=err {}", stage),
            Err(p) => return format!("hdr=panic {}", p),
        };
        let mut s = format!("hdr=ok {}", msg.get_sig().len());
        let v = self.st.call(CV, a, "body.validate", || msg.body.validate());
        s.push_str(&format!("|Bv={}", oc(v, |_| String::new())));
        let p = self.st.call(CP, a, "get_param loop", || get_param_loop(&msg.body));
        s.push_str(&format!("|Bp={}", oc(p, |(n, k)| format!("{}:{}", n, k))));
        let t = self.typed_gets(&msg.body, a);
        // keep the header observation short: only the results that are not errors
        let oks = t.split('|').filter(|f| f.contains("=ok") || f.contains("panic")).count();
        let pan: Vec<&str> = t.split('|').filter(|f| f.contains("panic")).collect();
        s.push_str(&format!("|typed_ok={}", oks));
        for x in pan {
            s.push_str(&format!("|{}", x));
        }
        let all = self.st.call(CP, a, "unmarshall_all", || msg.unmarshall_all().map(|m| m.params.len()));
        s.push_str(&format!("|Ba={}", oc(all, |n| n.to_string())));
        s
    }

    // ---- slice: Cow<[E]> / Vec<E> / validate at a context offset -------------------------------
    fn slice_at<'a, E>(&mut self, bo: ByteOrder, elem: char, off: usize, buf: &'a [u8], a: usize) -> (String, String)
    where
        E: Bits + Clone + Unmarshal<'a, 'a> + Signature + 'a,
    {
        let ty = rustbus::signature::Type::parse_description(&format!("a{}", elem)).unwrap().remove(0);
        let c = self.st.call(CT, a, "Cow<[E]>::unmarshal", || {
            let mut ctx = UnmarshalContext::new(&[], bo, buf, off);
            <Cow<'a, [E]> as Unmarshal>::unmarshal(&mut ctx).map(|c| {
                let used = buf.len() - ctx.remainder().len() - off;
                let borrowed = matches!(c, Cow::Borrowed(_));
                let els: Vec<u64> = c.iter().map(|e| e.clone().bits()).collect();
                (borrowed, used, els)
            })
        });
        let w = self.st.call(CT, a, "Vec<E>::unmarshal", || {
            let mut ctx = UnmarshalContext::new(&[], bo, buf, off);
            <Vec<E> as Unmarshal>::unmarshal(&mut ctx).map(|c| {
                let used = buf.len() - ctx.remainder().len() - off;
                let els: Vec<u64> = c.iter().map(|e| e.clone().bits()).collect();
                (used, els)
            })
        });
        let v = self.st.call(CV, a, "validate_marshalled", || validate_marshalled(bo, off, buf, &ty).map_err(|e| e.1));
        // what the elements are, read independently
        let mut eq = "na";
        if let (Ok(Ok((_, used, els))), Ok(Ok((_, wels)))) = (&c, &w) {
            let mut p = off;
            p += (4 - p % 4) % 4;
            p += 4;
            p += (E::SIZE - p % E::SIZE) % E::SIZE;
            let mut want = Vec::new();
            while p + E::SIZE <= off + used {
                let mut x: u64 = 0;
                for k in 0..E::SIZE {
                    let b = buf[p + k] as u64;
                    x |= if bo == ByteOrder::LittleEndian { b << (8 * k) } else { b << (8 * (E::SIZE - 1 - k)) };
                }
                want.push(x);
                p += E::SIZE;
            }
            eq = if *els == want && *wels == want { "same" } else { "DIFF" };
        }
        let cow = oc(c, |(b, n, _)| format!("{} {}", if *b { "borrowed" } else { "owned" }, n));
        let rest = format!("vec={}|val={}|eq={}", oc(w, |(n, _)| n.to_string()), oc(v, |n| n.to_string()), eq);
        (cow, rest)
    }
    fn slice_case(&mut self, bo: ByteOrder, elem: char, off: usize, bytes: &[u8]) -> String {
        let mut s = String::new();
        let mut rests: Vec<String> = Vec::new();
        for a in 0..8 {
            let ab = ABuf::new(bytes, a);
            let buf = ab.s();
            let (cow, rest) = match elem {
                'y' => self.slice_at::<u8>(bo, elem, off, buf, a),
                'n' => self.slice_at::<i16>(bo, elem, off, buf, a),
                'q' => self.slice_at::<u16>(bo, elem, off, buf, a),
                'i' => self.slice_at::<i32>(bo, elem, off, buf, a),
                'u' => self.slice_at::<u32>(bo, elem, off, buf, a),
                'x' => self.slice_at::<i64>(bo, elem, off, buf, a),
                't' => self.slice_at::<u64>(bo, elem, off, buf, a),
                'd' => self.slice_at::<f64>(bo, elem, off, buf, a),
                _ => self.slice_at::<bool>(bo, elem, off, buf, a),
            };
            if elem == 'y' {
                let r = self.st.call(CT, a, "&[u8]::unmarshal", || {
                    let mut ctx = UnmarshalContext::new(&[], bo, buf, off);
                    <&[u8] as Unmarshal>::unmarshal(&mut ctx).map(|_| buf.len() - ctx.remainder().len() - off)
                });
                rests.push(format!("{}|ref={}", rest, oc(r, |n| n.to_string())));
            } else {
                rests.push(rest);
            }
            s.push_str(&format!("c{}={}|", a, cow));
        }
        if rests.iter().all(|r| *r == rests[0]) {
            s.push_str(&rests[0]);
        } else {
            s.push_str(&format!("ALIGNDEP={}", rests.join(" / ").replace('|', ";")));
        }
        s
    }

    // ---- big: arrays that really are as long as they say -----------------------------------------
    fn big_case(&mut self, bo: ByteOrder, elem: char, len: usize, aligns: &[usize]) -> (String, usize) {
        let mut bytes: Vec<u8> = Vec::with_capacity(len + 16);
        put_u32(bo, len as u32, &mut bytes);
        if elem == 't' {
            bytes.extend_from_slice(&[0, 0, 0, 0]);
        }
        bytes.resize(bytes.len() + len, 0x01);
        let total = bytes.len();
        let ty = rustbus::signature::Type::parse_description(&format!("a{}", elem)).unwrap().remove(0);
        let mut obs: Vec<String> = Vec::new();
        for &a in aligns {
            let ab = ABuf::new(&bytes, a);
            let buf = ab.s();
            let v = self.st.call(CV, a, "validate_marshalled", || validate_marshalled(bo, 0, buf, &ty).map_err(|e| e.1));
            let mut s = format!("V={}", oc(v, |n| n.to_string()));
            macro_rules! t {
                ($name:expr, $t:ty) => {
                    let r = self.st.call(CT, a, $name, || {
                        let mut ctx = UnmarshalContext::new(&[], bo, buf, 0);
                        <$t as Unmarshal>::unmarshal(&mut ctx).map(|_| buf.len() - ctx.remainder().len())
                    });
                    s.push_str(&format!("|Ts:{}={}", $name, oc(r, |n| n.to_string())));
                };
            }
            if elem == 't' {
                t!("Vec<u64>", Vec<u64>);
                t!("Cow<[u64]>", Cow<[u64]>);
            } else {
                t!("&[u8]", &[u8]);
                t!("Vec<u8>", Vec<u8>);
                t!("Cow<[u8]>", Cow<[u8]>);
            }
            obs.push(s);
        }
        let o = if obs.iter().all(|x| *x == obs[0]) { obs[0].clone() } else { format!("ALIGNDEP={}", obs.join(" / ").replace('|', ";")) };
        (o, total)
    }

    // ---- one case line -> (status, observation, input length) ---------------------------------
    fn run_case(&mut self, line: &str) -> (String, String, usize) {
        let tok: Vec<&str> = line.split(' ').collect();
        // tok[0] = family, tok[1] = kind
        let kind = tok.get(1).copied().unwrap_or("");
        let per_align = |w: &mut Worker, f: &mut dyn FnMut(&mut Worker, usize) -> String| -> (String, String) {
            let mut obs: Vec<String> = Vec::new();
            for a in 0..8 {
                obs.push(f(w, a));
            }
            if obs.iter().all(|o| *o == obs[0]) {
                ("ok".to_string(), obs[0].clone())
            } else {
                let k = obs.iter().position(|o| *o != obs[0]).unwrap();
                ("align".to_string(), format!("a0: {} a{}: {}", obs[0], k, obs[k]))
            }
        };
        match kind {
            "dec" if tok.len() >= 5 => {
                let bo = parse_bo(tok[2]);
                let sig = tok[3];
                let bytes = bytes_of(tok[4], bo);
                let ty = match rustbus::signature::Type::parse_description(sig) {
                    Ok(mut t) if t.len() == 1 => t.remove(0),
                    _ => return ("ok".into(), "badsig".into(), bytes.len()),
                };
                // a Param tree of a very long input is skipped (it legitimately needs a large multiple of the input)
                let (st, o) = per_align(self, &mut |w, a| w.dec_at(bo, &ty, sig, &bytes, a, true));
                (st, o, bytes.len())
            }
            "body" if tok.len() >= 5 => {
                let bo = parse_bo(tok[2]);
                let sigs = if tok[3] == "-" { "" } else { tok[3] };
                let bytes = bytes_of(tok[4], bo);
                let (st, o) = per_align(self, &mut |w, a| w.body_at(bo, sigs, &bytes, a));
                (st, o, bytes.len())
            }
            "typed" if tok.len() >= 5 => {
                let bo = parse_bo(tok[2]);
                let sigs = if tok[3] == "-" { "" } else { tok[3] };
                let bytes = bytes_of(tok[4], bo);
                let (st, o) = per_align(self, &mut |w, a| w.typed_at(bo, sigs, &bytes, a));
                (st, o, bytes.len())
            }
            "hdr" if tok.len() >= 4 => {
                let bo = parse_bo(tok[2]);
                let bytes = bytes_of(tok[3], bo);
                let (st, o) = per_align(self, &mut |w, a| w.hdr_at(&bytes, a));
                (st, o, bytes.len())
            }
            "slice" if tok.len() >= 6 => {
                let bo = parse_bo(tok[2]);
                let elem = tok[3].chars().next().unwrap_or('y');
                let off: usize = tok[4].parse().unwrap_or(0);
                let bytes = bytes_of(tok[5], bo);
                if off > bytes.len() {
                    return ("ok".into(), "badoff".into(), bytes.len());
                }
                let o = self.slice_case(bo, elem, off, &bytes);
                let st = if o.contains("ALIGNDEP") { "align" } else { "ok" };
                (st.into(), o, bytes.len())
            }
            "hassig" if tok.len() >= 3 => {
                let sig = tok[2];
                let mut yes = Vec::new();
                let mut s = String::new();
                for i in 0..self.tab.len() {
                    let hs = self.tab[i].has_sig;
                    match self.st.call(CV, 0, "has_sig", || hs(sig)) {
                        Ok(true) => yes.push(self.tab[i].name.clone()),
                        Ok(false) => {}
                        Err(p) => s.push_str(&format!("|HS:{}=panic {}", self.tab[i].name, p)),
                    }
                }
                (format!("ok"), format!("hassig=ok {}{}", yes.len(), s), sig.len())
            }
            "big" if tok.len() >= 6 => {
                let bo = parse_bo(tok[2]);
                let elem = tok[3].chars().next().unwrap_or('y');
                let len: usize = tok[4].parse().unwrap_or(0);
                let aligns: Vec<usize> = tok[5].split(',').filter_map(|x| x.parse().ok()).collect();
                let (o, total) = self.big_case(bo, elem, len, &aligns);
                let st = if o.contains("ALIGNDEP") { "align" } else { "ok" };
                (st.into(), o, total)
            }
            // only reachable through a replay line `c04.nocrash x selftest <what>`: exercises the parent's watchdog
            "selftest" if tok.len() >= 3 => match tok[2] {
                "hang" => loop {
                    std::thread::sleep(Duration::from_secs(1));
                },
                "overflow" => {
                    fn rec(n: u64) -> u64 {
                        let a = [n; 64];
                        if n == 0 { 0 } else { rec(n - 1) + std::hint::black_box(a)[7] }
                    }
                    ("ok".into(), format!("selftest={}", rec(u64::MAX / 2)), 0)
                }
                "abort" => std::process::abort(),
                "panic" => {
                    let r = self.st.call(CV, 0, "selftest", || -> Result<usize, UnmarshalError> { panic!("selftest panic") });
                    ("ok".into(), format!("selftest={}", oc(r, |n| n.to_string())), 0)
                }
                "alloc" => {
                    let r = self.st.call(CV, 0, "selftest", || Ok::<usize, UnmarshalError>(Vec::<u8>::with_capacity(1 << 24).capacity()));
                    ("ok".into(), format!("selftest={}", oc(r, |n| n.to_string())), 0)
                }
                _ => ("ok".into(), "selftest=ok".into(), 0),
            },
            _ => ("ok".into(), "badcase".into(), 0),
        }
    }
}

/// `--worker <casefile> <start> <end>`
pub fn worker_main(args: &[String]) {
    std::panic::set_hook(Box::new(|info| {
        let msg = info.payload().downcast_ref::<String>().cloned().or_else(|| info.payload().downcast_ref::<&str>().map(|s| s.to_string())).unwrap_or_default();
        let loc = info.location().map(|l| format!("{}:{}", l.file(), l.line())).unwrap_or_default();
        let _ = writeln!(std::io::stderr(), "PANIC {} @ {}", msg.replace('\n', " "), loc);
    }));
    let file = args.get(0).cloned().unwrap_or_default();
    let start: usize = args.get(1).and_then(|x| x.parse().ok()).unwrap_or(0);
    let end: usize = args.get(2).and_then(|x| x.parse().ok()).unwrap_or(usize::MAX);
    let text = std::fs::read_to_string(&file).unwrap_or_default();
    let h = std::thread::Builder::new()
        .name("case".into())
        .stack_size(2 * 1024 * 1024)
        .spawn(move || {
            let mut w = Worker::new();
            let out = std::io::stdout();
            for (i, line) in text.lines().enumerate() {
                if i < start || i >= end {
                    continue;
                }
                w.st = Stats::new();
                let (st, obs, len) = w.run_case(line);
                let s = &w.st;
                let mut o = out.lock();
                let _ = writeln!(
                    o,
                    "{}\t{}\t{}\t{}\t{}\t{}\t{}\t{}\t{}\t{}\t{}\t{}\t{}\t{}",
                    i,
                    st,
                    obs,
                    len,
                    s.peak[0],
                    s.one[0],
                    s.peak[1],
                    s.one[1],
                    s.peak[2],
                    s.one[2],
                    format!("{};{};{}", s.who[0], s.who[1], s.who[2]).replace(['\t', ' '], ""),
                    s.calls.iter().map(|c| c.to_string()).collect::<Vec<_>>().join(","),
                    s.slow_ns / 1000,
                    s.slow_who.replace(['\t', ' '], "")
                );
                let _ = o.flush();
            }
        })
        .unwrap();
    if h.join().is_err() {
        std::process::exit(3);
    }
}

// ================================================================================================
// PARENT: worker processes

#[derive(Clone, Debug)]
enum WRes {
    /// the worker answered: the fields of its line after the index
    Answered(Vec<String>),
    /// the worker died / hung on this case, alone as well
    Died(String),
    /// the worker died / hung on this case inside the batch but answered when the case was run alone
    BatchOnly(String, Vec<String>),
}

fn stderr_tail(p: &Path) -> String {
    let s = std::fs::read(p).unwrap_or_default();
    let s = String::from_utf8_lossy(&s);
    let lines: Vec<&str> = s.lines().filter(|l| !l.trim().is_empty()).collect();
    let tail: Vec<&str> = lines.iter().rev().take(3).rev().cloned().collect();
    let mut t = tail.join(" / ");
    if t.len() > 400 {
        t = t[t.len() - 400..].to_string();
    }
    t
}

/// run cases [start, end) in one worker process; returns the answered lines (in order) and, if not all were
/// answered, what happened
fn spawn_and_collect(exe: &Path, casefile: &Path, start: usize, end: usize, errfile: &Path, timeout: Duration) -> (Vec<Vec<String>>, Option<String>) {
    use std::os::unix::process::ExitStatusExt;
    use std::process::{Command, Stdio};
    let err = std::fs::File::create(errfile).ok();
    let mut cmd = Command::new(exe);
    cmd.arg("--worker").arg(casefile).arg(start.to_string()).arg(end.to_string()).stdin(Stdio::null()).stdout(Stdio::piped());
    match err {
        Some(f) => cmd.stderr(Stdio::from(f)),
        None => cmd.stderr(Stdio::null()),
    };
    let mut child = match cmd.spawn() {
        Ok(c) => c,
        Err(e) => return (Vec::new(), Some(format!("could not start the worker: {}", e))),
    };
    let stdout = child.stdout.take().unwrap();
    let (tx, rx) = std::sync::mpsc::channel::<String>();
    let reader = std::thread::spawn(move || {
        for l in BufReader::new(stdout).lines() {
            match l {
                Ok(l) => {
                    if tx.send(l).is_err() {
                        break;
                    }
                }
                Err(_) => break,
            }
        }
    });
    let mut got: Vec<Vec<String>> = Vec::new();
    let mut fate: Option<String> = None;
    loop {
        if start + got.len() >= end {
            break;
        }
        match rx.recv_timeout(timeout) {
            Ok(line) => {
                let mut f: Vec<String> = line.split('\t').map(|x| x.to_string()).collect();
                let idx: usize = f.get(0).and_then(|x| x.parse().ok()).unwrap_or(usize::MAX);
                if idx != start + got.len() || f.len() < 14 {
                    fate = Some(format!("the worker answered out of order / garbled: {:?}", &line[..line.len().min(80)]));
                    let _ = child.kill();
                    break;
                }
                f.remove(0);
                got.push(f);
            }
            Err(std::sync::mpsc::RecvTimeoutError::Timeout) => {
                let _ = child.kill();
                fate = Some(format!("hung: no answer within {} s (killed)", timeout.as_secs()));
                break;
            }
            Err(std::sync::mpsc::RecvTimeoutError::Disconnected) => break,
        }
    }
    let status = child.wait();
    let _ = reader.join();
    if start + got.len() < end && fate.is_none() {
        fate = Some(match status {
            Ok(st) => match st.signal() {
                Some(sig) => {
                    let name = match sig {
                        11 => "SIGSEGV",
                        6 => "SIGABRT",
                        4 => "SIGILL",
                        7 => "SIGBUS",
                        9 => "SIGKILL",
                        _ => "",
                    };
                    format!("died with signal {} {}; stderr: {}", sig, name, stderr_tail(errfile))
                }
                None => format!("exited with code {:?} before answering; stderr: {}", st.code(), stderr_tail(errfile)),
            },
            Err(e) => format!("wait failed: {}", e),
        });
    }
    (got, fate)
}

/// all cases of [start, end) with crash recovery: the first unanswered case is the culprit, it is confirmed alone
fn run_range(exe: &Path, casefile: &Path, start: usize, end: usize, errfile: &Path, timeout: Duration) -> Vec<WRes> {
    let mut res: Vec<WRes> = Vec::new();
    let mut s = start;
    let mut deaths = 0;
    while s < end {
        let (got, fate) = spawn_and_collect(exe, casefile, s, end, errfile, timeout);
        s += got.len();
        res.extend(got.into_iter().map(WRes::Answered));
        if s >= end {
            break;
        }
        let fate = fate.unwrap_or_else(|| "stopped answering".into());
        let (alone, fate2) = spawn_and_collect(exe, casefile, s, s + 1, errfile, timeout);
        if alone.len() == 1 {
            res.push(WRes::BatchOnly(fate, alone.into_iter().next().unwrap()));
        } else {
            res.push(WRes::Died(fate2.unwrap_or(fate)));
        }
        s += 1;
        deaths += 1;
        if deaths > 400 {
            // something is thoroughly broken: do not spend hours restarting
            while s < end {
                res.push(WRes::Died("not run: more than 400 worker deaths in this shard".into()));
                s += 1;
            }
        }
    }
    res
}

/// one build of the worker over all cases, in `shards` parallel processes
fn run_build(exe: &Path, casefile: &Path, n: usize, shards: usize, outdir: &str, tag: &str, timeout: Duration) -> Vec<WRes> {
    let shards = shards.max(1).min(n.max(1));
    let per = (n + shards - 1) / shards;
    let mut handles = Vec::new();
    for k in 0..shards {
        let (a, b) = (k * per, ((k + 1) * per).min(n));
        if a >= b {
            continue;
        }
        let (exe, casefile) = (exe.to_path_buf(), casefile.to_path_buf());
        let errfile = PathBuf::from(format!("{}/worker_{}_{}.err", outdir, tag, k));
        handles.push(std::thread::spawn(move || run_range(&exe, &casefile, a, b, &errfile, timeout)));
    }
    let mut res = Vec::new();
    for h in handles {
        res.extend(h.join().unwrap_or_default());
    }
    res
}

/// target/relcheck/vh_c04 next to target/release/vh_c04; built on demand
fn relcheck_binary() -> Result<PathBuf, String> {
    let exe = std::env::current_exe().map_err(|e| e.to_string())?;
    let dir = exe.parent().ok_or("no parent")?; // .../target/release
    let target = dir.parent().ok_or("no target dir")?;
    let harness = target.parent().ok_or("no harness dir")?;
    let rel = target.join("relcheck").join(exe.file_name().ok_or("no file name")?);
    let mtime = |p: &Path| std::fs::metadata(p).and_then(|m| m.modified()).ok();
    let fresh = match (mtime(&rel), mtime(&exe)) {
        (Some(r), Some(e)) => r >= e,
        _ => false,
    };
    if fresh {
        return Ok(rel);
    }
    eprintln!("C04: building the debug-assertion worker (cargo build --offline --profile relcheck --bin vh_c04) ...");
    let out = std::process::Command::new("cargo")
        .args(["build", "--offline", "--profile", "relcheck", "--bin", "vh_c04"])
        .current_dir(harness)
        .env("CARGO_NET_OFFLINE", "true")
        .output()
        .map_err(|e| format!("cargo could not be started: {}", e))?;
    if !out.status.success() || !rel.exists() {
        let e = String::from_utf8_lossy(&out.stderr);
        let tail: String = e.lines().rev().take(6).collect::<Vec<_>>().into_iter().rev().collect::<Vec<_>>().join(" / ");
        return Err(format!("cargo build --profile relcheck failed: {}", tail));
    }
    // cargo leaves an up-to-date binary untouched: mark it as checked against this release binary
    if let Ok(f) = std::fs::File::options().write(true).open(&rel) {
        let _ = f.set_modified(std::time::SystemTime::now());
    }
    Ok(rel)
}

// ================================================================================================
// PARENT: case generation

#[derive(Clone)]
struct Case {
    fam: String,
    kind: String,
    args: Vec<String>,
}
impl Case {
    fn line(&self) -> String {
        format!("{} {} {}", self.fam, self.kind, self.args.join(" "))
    }
}

fn sig_ok(s: &str) -> bool {
    !s.is_empty() && s.len() <= 255 && rustbus::params::validate_signature(s).is_ok() && rustbus::signature::Type::parse_description(s).is_ok()
}

fn cat_val<T: Cat>(rng: &mut Prng) -> (Ty, Val) {
    // canon: dict entries in a fixed order (a HashMap iterates in a different order in every process)
    let ty = T::ty();
    let v = T::gen(rng, 2).to_val().canon(&ty);
    (ty, v)
}

const HUGE: [u32; 6] = [1 << 26, (1 << 26) + 1, (1 << 26) + 8, 1 << 31, u32::MAX, u32::MAX - 7];

struct Gen {
    rng: Prng,
    cases: Vec<Case>,
    thorough: bool,
}
impl Gen {
    fn push(&mut self, fam: &str, kind: &str, args: Vec<String>) {
        self.cases.push(Case { fam: fam.to_string(), kind: kind.to_string(), args });
    }
    fn tok(bytes: &[u8]) -> String {
        hex(bytes)
    }
    fn sigtok(s: &str) -> String {
        if s.is_empty() {
            "-".into()
        } else {
            s.to_string()
        }
    }
    fn dec(&mut self, fam: &str, bo: ByteOrder, sig: &str, bytes: &str) {
        self.push(fam, "dec", vec![bo_name(bo).into(), sig.into(), bytes.into()]);
    }
    fn body(&mut self, fam: &str, bo: ByteOrder, sigs: &str, bytes: &str) {
        self.push(fam, "body", vec![bo_name(bo).into(), Self::sigtok(sigs), bytes.into()]);
    }
    fn typed(&mut self, fam: &str, bo: ByteOrder, sigs: &str, bytes: &str) {
        self.push(fam, "typed", vec![bo_name(bo).into(), Self::sigtok(sigs), bytes.into()]);
    }
    fn hdr(&mut self, fam: &str, bo: ByteOrder, bytes: &str) {
        self.push(fam, "hdr", vec![bo_name(bo).into(), bytes.into()]);
    }
    fn trio(&mut self, fam: &str, bo: ByteOrder, sig: &str, bytes: &[u8]) {
        let h = hex(bytes);
        self.dec(fam, bo, sig, &h);
        self.body(fam, bo, sig, &h);
        self.typed(fam, bo, sig, &h);
    }
    /// one entry point group, chosen at random (dec most often)
    fn one_of(&mut self, fam: &str, bo: ByteOrder, sig: &str, bytes: &[u8]) {
        let h = hex(bytes);
        match self.rng.below(10) {
            0..=5 => self.dec(fam, bo, sig, &h),
            6..=7 => self.body(fam, bo, sig, &h),
            _ => self.typed(fam, bo, sig, &h),
        }
    }

    fn catalogue_values(&mut self) -> Vec<(Ty, Val)> {
        let mut v = Vec::new();
        let rng = &mut self.rng;
        macro_rules! m {
            ($t:ty) => {
                v.push(cat_val::<$t>(rng))
            };
        }
        vcore::for_each_catalogue_type!(m);
        v
    }

    // ---- (1) valid encodings, single-byte corruptions, truncations ------------------------------
    fn fam_cat(&mut self) {
        let rounds = if self.thorough { 3 } else { 1 };
        for round in 0..rounds {
            let vals = self.catalogue_values();
            for (i, (ty, val)) in vals.iter().enumerate() {
                let bo = ORDERS[(i + round) % 2];
                let e = encode(bo, ty, val);
                let sig = ty.sig();
                self.trio("cat", bo, &sig, &e.buf);
                if i % 4 == round {
                    let m = call_msg(bo, Some(&sig), vec![], &e.buf);
                    self.hdr("cat", bo, &hex(&m));
                }
                // all single byte corruptions and truncations
                let mut muts: Vec<Vec<u8>> = Vec::new();
                for p in 0..e.buf.len() {
                    let b = e.buf[p];
                    let r = self.rng.next() as u8;
                    let mut seen = vec![b];
                    for nb in [0u8, 0xff, b.wrapping_add(1), r] {
                        if !seen.contains(&nb) {
                            seen.push(nb);
                            let mut m = e.buf.clone();
                            m[p] = nb;
                            muts.push(m);
                        }
                    }
                }
                for l in 0..e.buf.len() {
                    muts.push(e.buf[..l].to_vec());
                }
                let all = self.thorough && round == 0;
                let cap = if all { 500 } else if self.thorough { 32 } else { 24 };
                if muts.len() > cap {
                    // a random subset, without replacement
                    for k in 0..cap {
                        let j = k + self.rng.below((muts.len() - k) as u64) as usize;
                        muts.swap(k, j);
                    }
                    muts.truncate(cap);
                }
                for m in muts {
                    self.one_of("cat", bo, &sig, &m);
                }
            }
        }
    }

    // ---- (2) nesting bombs ------------------------------------------------------------------------
    fn fam_bomb(&mut self) {
        let a32s32 = format!("{}{}", "a".repeat(32), "(".repeat(32));
        let va32s32 = format!("v{}", a32s32);
        let pats: Vec<&str> = vec!["v", "a", "(", "av", "(v", "{v", "a(v", "av(", "va", "v(", "{(v", &a32s32, &va32s32];
        let depths: Vec<isize> = if self.thorough { vec![3, 10, 31, 32, 33, 34, 62, 63, 64, 65, 66, 67, 100, 130] } else { vec![10, 32, 33, 63, 64, 65, 66, 100] };
        for pat in &pats {
            for &d in &depths {
                let (ty, val) = tower(pat.as_bytes(), 0, d);
                let (ty, val) = if sig_ok(&ty.sig()) { (ty, val) } else { (Ty::Variant, Val::Variant(ty, Box::new(val))) };
                let sig = ty.sig();
                for bo in ORDERS {
                    let e = encode(bo, &ty, &val);
                    self.trio("bomb", bo, &sig, &e.buf);
                    if bo == ByteOrder::LittleEndian || self.thorough {
                        self.hdr("bomb", bo, &hex(&call_msg(bo, Some(&sig), vec![], &e.buf)));
                        if sig.len() <= 255 {
                            self.hdr("bomb", bo, &hex(&call_msg(bo, None, vec![(0x21, FieldVal::Typed(ty.clone(), val.clone()))], &[])));
                        }
                        // the same value as one element of a{sv}
                        let dty = Ty::Dict('s', Box::new(Ty::Variant));
                        let dval = Val::Arr(vec![Val::Struct(vec![Val::Str(b"key".to_vec()), Val::Variant(ty.clone(), Box::new(val.clone()))])]);
                        let de = encode(bo, &dty, &dval);
                        self.trio("bomb", bo, "a{sv}", &de.buf);
                    }
                }
            }
        }
        // a variant whose signature is 255 characters of nested arrays; the longest valid one
        for bo in ORDERS {
            let mut b = vec![255u8];
            b.extend(std::iter::repeat(b'a').take(254));
            b.push(b'y');
            b.push(0);
            b.extend_from_slice(&[0; 16]);
            self.trio("bomb", bo, "v", &b);
            let mut b = vec![255u8];
            b.extend(std::iter::repeat(b'(').take(127));
            b.push(b'y');
            b.extend(std::iter::repeat(b')').take(127));
            b.push(0);
            b.extend_from_slice(&[0; 16]);
            self.trio("bomb", bo, "v", &b);
        }
        // generated towers: written as hex while short, as a generator descriptor (crash only) otherwise
        let big: Vec<usize> = if self.thorough { vec![1, 2, 10, 62, 63, 64, 65, 66, 100, 1000, 1365, 10_000, 100_000, 1_000_000] } else { vec![1, 10, 63, 64, 65, 100, 1000, 100_000] };
        for name in ["vnest", "svnest", "avnest"] {
            for &d in &big {
                for bo in ORDERS {
                    if bo == ByteOrder::BigEndian && name != "avnest" && d > 100 {
                        continue;
                    }
                    let desc = format!("@{}:{}", name, d);
                    let bytes = gen_desc(&desc, bo);
                    let tok = if bytes.len() <= 4096 { hex(&bytes) } else { desc };
                    self.dec("bomb", bo, "v", &tok);
                    self.body("bomb", bo, "v", &tok);
                    self.typed("bomb", bo, "v", &tok);
                }
            }
        }
        for name in ["msgvnest", "hdrvnest"] {
            for &d in &big {
                let desc = format!("@{}:{}", name, d);
                let bytes = gen_desc(&desc, ByteOrder::LittleEndian);
                let tok = if bytes.len() <= 4096 { hex(&bytes) } else { desc };
                self.hdr("bomb", ByteOrder::LittleEndian, &tok);
            }
        }
    }

    // ---- (3) huge declared lengths ------------------------------------------------------------------
    fn patch_len(bo: ByteOrder, buf: &[u8], at: usize, w: u8, v: u32) -> Vec<u8> {
        let mut m = buf.to_vec();
        if w == 1 {
            m[at] = v as u8;
        } else {
            let mut t = Vec::new();
            put_u32(bo, v, &mut t);
            m[at..at + 4].copy_from_slice(&t);
        }
        m
    }
    fn fam_huge(&mut self) {
        // hand made: a length field followed by few bytes
        let sigs = ["ay", "at", "aq", "ab", "as", "s", "o", "aay", "a{sv}", "a{yt}", "a(yt)", "av", "aas", "a{sat}"];
        for sig in sigs {
            for bo in ORDERS {
                for tail in [0usize, 1, 4, 7, 8, 20] {
                    let mut ls: Vec<u32> = HUGE.to_vec();
                    ls.push(tail as u32 + 1);
                    ls.push(tail as u32);
                    for l in ls {
                        let mut b = Vec::new();
                        put_u32(bo, l, &mut b);
                        for k in 0..tail {
                            b.push(if self.rng.chance(1, 2) { 0 } else { k as u8 });
                        }
                        self.one_of("huge", bo, sig, &b);
                    }
                }
            }
        }
        // nested: every length field of valid encodings replaced
        let mut pool: Vec<(Ty, Val)> = self.catalogue_values();
        let extra = if self.thorough { 400 } else { 60 };
        for _ in 0..extra {
            let d = self.rng.range(1, 4) as usize;
            let ty = gen_ty(&mut self.rng, d, false);
            let mut fdc = 0;
            let val = gen_val(&mut self.rng, &ty, 3, &mut fdc);
            pool.push((ty, val));
        }
        let per = if self.thorough { 6 } else { 2 };
        for (ty, val) in pool {
            let bo = *self.rng.pick(&ORDERS);
            let e = encode(bo, &ty, &val);
            if e.lens.is_empty() {
                continue;
            }
            let sig = ty.sig();
            for _ in 0..per {
                let (at, w) = *self.rng.pick(&e.lens);
                let remaining = (e.buf.len() - at - w as usize) as u32;
                let l = match self.rng.below(5) {
                    0 => remaining + 1,
                    1 => remaining,
                    _ => *self.rng.pick(&HUGE),
                };
                let l = if w == 1 { *self.rng.pick(&[255u32, remaining + 1, remaining, 0, 254]) } else { l };
                let m = Self::patch_len(bo, &e.buf, at, w, l);
                self.one_of("huge", bo, &sig, &m);
            }
        }
        // through the header side: body_len / header field array length
        for bo in ORDERS {
            let body = encode(bo, &Ty::Array(Box::new(Ty::Base('t'))), &Val::Arr(vec![Val::Num(5)]));
            for l in HUGE {
                let m = build_msg(bo, 1, 0, 1, 7, &[fstr(1, 'o', "/a"), fstr(3, 's', "M"), fstr(8, 'g', "at")], &body.buf, Some(l));
                self.hdr("huge", bo, &hex(&m));
                let mut m = call_msg(bo, Some("at"), vec![], &body.buf);
                let mut t = Vec::new();
                put_u32(bo, l, &mut t);
                m[12..16].copy_from_slice(&t);
                self.hdr("huge", bo, &hex(&m));
                // the body array announces l bytes
                let mut b2 = body.buf.clone();
                b2[0..4].copy_from_slice(&t);
                self.hdr("huge", bo, &hex(&call_msg(bo, Some("at"), vec![], &b2)));
            }
        }
    }

    // ---- (4) random bytes under random signatures, random values with flips -----------------------
    fn fam_rand(&mut self) {
        let n = if self.thorough { 30_000 } else { 3_000 };
        for _ in 0..n {
            let d = self.rng.range(0, 3) as usize;
            let allow_fd = self.rng.chance(1, 10);
            let ty = gen_ty(&mut self.rng, d, allow_fd);
            let sig = ty.sig();
            let bo = *self.rng.pick(&ORDERS);
            let len = self.rng.range(0, 48) as usize;
            let buf: Vec<u8> = (0..len).map(|_| if self.rng.chance(2, 3) { *self.rng.pick(&[0u8, 0, 0, 1, 2, 4, 8, 97]) } else { self.rng.next() as u8 }).collect();
            self.one_of("rand", bo, &sig, &buf);
        }
        for _ in 0..n {
            let d = self.rng.range(0, 4) as usize;
            let ty = gen_ty(&mut self.rng, d, false);
            let mut fdc = 0;
            let val = gen_val(&mut self.rng, &ty, 3, &mut fdc);
            let bo = *self.rng.pick(&ORDERS);
            let mut e = encode(bo, &ty, &val).buf;
            let flips = self.rng.range(0, 3);
            for _ in 0..flips {
                if !e.is_empty() {
                    let p = self.rng.below(e.len() as u64) as usize;
                    e[p] ^= 1 << self.rng.below(8);
                }
            }
            // several types in one body
            if self.rng.chance(1, 4) {
                let ty2 = gen_ty(&mut self.rng, 1, false);
                let val2 = gen_val(&mut self.rng, &ty2, 2, &mut fdc);
                let mut en = Enc::new(bo);
                en.buf = e.clone();
                en.put(&ty2, &val2);
                let sigs = format!("{}{}", ty.sig(), ty2.sig());
                if sig_ok(&sigs) {
                    let h = hex(&en.buf);
                    self.body("rand", bo, &sigs, &h);
                    self.typed("rand", bo, &sigs, &h);
                    continue;
                }
            }
            self.one_of("rand", bo, &ty.sig(), &e);
        }
        // long valid values: the memory a decoder takes must stay proportional to the input
        let longs: Vec<(&str, usize)> = vec![("ay", 40_000), ("at", 4_000), ("as", 3_000), ("a{sv}", 1_500), ("a(yt)", 2_000), ("av", 3_000), ("aay", 6_000), ("a{ys}", 200), ("ab", 5_000), ("aas", 2_000)];
        for (sig, n) in longs {
            let n = if self.thorough { n } else { n / 2 };
            let ty = Ty::parse(sig).unwrap();
            let val = self.long_val(&ty, n);
            for bo in ORDERS {
                let e = encode(bo, &ty, &val);
                self.trio("rand", bo, sig, &e.buf);
                self.hdr("rand", bo, &hex(&call_msg(bo, Some(sig), vec![], &e.buf)));
            }
        }
    }
    fn long_val(&mut self, ty: &Ty, n: usize) -> Val {
        match ty {
            Ty::Array(e) => Val::Arr(
                (0..n)
                    .map(|_| {
                        let mut fdc = 0;
                        match **e {
                            Ty::Array(_) => Val::Arr(vec![]),
                            Ty::Base('s') => Val::Str(vec![]),
                            _ => gen_val(&mut self.rng, e, 1, &mut fdc),
                        }
                    })
                    .collect(),
            ),
            Ty::Dict(k, v) => Val::Arr(
                (0..n)
                    .map(|i| {
                        let mut fdc = 0;
                        let key = if *k == 's' { Val::Str(format!("k{}", i).into_bytes()) } else { Val::Num(i as u64 % 256) };
                        Val::Struct(vec![key, gen_val(&mut self.rng, v, 0, &mut fdc)])
                    })
                    .collect(),
            ),
            _ => Val::Num(0),
        }
    }

    // ---- (5) signature shape mismatches -------------------------------------------------------------
    fn mutate_ty(&mut self, ty: &Ty) -> Ty {
        let bases = ['y', 'b', 'n', 'q', 'i', 'u', 'x', 't', 'd', 's', 'o', 'g'];
        match ty {
            Ty::Base(_) => match self.rng.below(4) {
                0 => Ty::Array(Box::new(ty.clone())),
                1 => Ty::Struct(vec![ty.clone()]),
                2 => Ty::Variant,
                _ => Ty::Base(*self.rng.pick(&bases)),
            },
            Ty::Array(e) => match self.rng.below(4) {
                0 => (**e).clone(),
                1 => Ty::Array(Box::new(ty.clone())),
                _ => Ty::Array(Box::new(self.mutate_ty(e))),
            },
            Ty::Dict(k, v) => match self.rng.below(4) {
                0 => Ty::Dict(*self.rng.pick(&bases), v.clone()),
                1 => Ty::Array(Box::new(Ty::Struct(vec![Ty::Base(*k), (**v).clone()]))),
                _ => Ty::Dict(*k, Box::new(self.mutate_ty(v))),
            },
            Ty::Struct(fs) => {
                let mut fs = fs.clone();
                match self.rng.below(6) {
                    0 if fs.len() > 1 => {
                        fs.pop();
                    }
                    1 if fs.len() > 1 => {
                        fs.remove(0);
                    }
                    2 => fs.push(Ty::Base(*self.rng.pick(&bases))),
                    3 => fs.insert(0, Ty::Base('y')),
                    4 if fs.len() > 1 => fs.swap(0, 1),
                    _ => {
                        let i = self.rng.below(fs.len() as u64) as usize;
                        fs[i] = self.mutate_ty(&fs[i].clone());
                    }
                }
                Ty::Struct(fs)
            }
            Ty::Variant => Ty::Base(*self.rng.pick(&bases)),
        }
    }
    fn fam_mismatch(&mut self) {
        let rounds = if self.thorough { 4 } else { 1 };
        let mut sigpool: Vec<String> = ["(yt)", "(y)", "(ytu)", "(ty)", "(saq(yu))", "(sat(yu))", "(sat(yu)u)", "(sat)", "(s)", "(u)", "(uu)", "((yt)a{su}q)", "((yt)a{su})", "((yt)a{su}qq)", "((y)a{su}q)", "((yt))", "a{sv}", "aa{sv}", "a(yt)", "(((u)))", "v", "av", "a{sv}", "(v)", "(yv)", "a(y)", "(y(y(y(y))))"].iter().map(|s| s.to_string()).collect();
        for _ in 0..rounds {
            let vals = self.catalogue_values();
            for (ty, val) in vals {
                let bo = *self.rng.pick(&ORDERS);
                let e = encode(bo, &ty, &val);
                let mut m = self.mutate_ty(&ty);
                if self.rng.chance(1, 3) {
                    m = self.mutate_ty(&m);
                }
                let ms = m.sig();
                if !sig_ok(&ms) {
                    continue;
                }
                let h = hex(&e.buf);
                self.typed("mismatch", bo, &ms, &h);
                if self.rng.chance(1, 4) {
                    self.body("mismatch", bo, &ms, &h);
                }
                // more / fewer types in the body than values
                if self.rng.chance(1, 5) {
                    self.typed("mismatch", bo, &format!("{}{}", ty.sig(), ms), &h);
                    self.typed("mismatch", bo, "", &h);
                }
                if sigpool.len() < 400 && !sigpool.contains(&ms) {
                    sigpool.push(ms);
                }
            }
        }
        // the derived structs and the enums against equal / shorter / longer / different signatures
        let derived: Vec<(Ty, Val)> = vec![
            (Ty::parse("(yt)").unwrap(), Val::Struct(vec![Val::Num(1), Val::Num(2)])),
            (Ty::parse("(sat(yu))").unwrap(), Val::Struct(vec![Val::Str(b"ab".to_vec()), Val::Arr(vec![Val::Num(3)]), Val::Struct(vec![Val::Num(1), Val::Num(2)])])),
            (Ty::parse("(u)").unwrap(), Val::Struct(vec![Val::Num(9)])),
            (
                Ty::parse("((yt)a{su}q)").unwrap(),
                Val::Struct(vec![Val::Struct(vec![Val::Num(1), Val::Num(2)]), Val::Arr(vec![Val::Struct(vec![Val::Str(b"k".to_vec()), Val::Num(5)])]), Val::Num(7)]),
            ),
            (Ty::Variant, Val::Variant(Ty::Base('u'), Box::new(Val::Num(5)))),
            (Ty::Variant, Val::Variant(Ty::parse("(st)").unwrap(), Box::new(Val::Struct(vec![Val::Str(b"x".to_vec()), Val::Num(5)])))),
            (Ty::Variant, Val::Variant(Ty::parse("(yaq)").unwrap(), Box::new(Val::Struct(vec![Val::Num(1), Val::Arr(vec![Val::Num(5)])])))),
            (Ty::Variant, Val::Variant(Ty::parse("at").unwrap(), Box::new(Val::Arr(vec![Val::Num(5), Val::Num(6)])))),
            (Ty::Variant, Val::Variant(Ty::parse("(yt)").unwrap(), Box::new(Val::Struct(vec![Val::Num(1), Val::Num(6)])))),
            (Ty::Variant, Val::Variant(Ty::parse("a{sv}").unwrap(), Box::new(Val::Arr(vec![])))),
        ];
        let pool = sigpool.clone();
        for (ty, val) in &derived {
            for bo in ORDERS {
                let e = encode(bo, ty, val);
                let h = hex(&e.buf);
                self.trio("mismatch", bo, &ty.sig(), &e.buf);
                let k = if self.thorough { pool.len() } else { 40 };
                for s in pool.iter().take(k) {
                    self.typed("mismatch", bo, s, &h);
                }
            }
        }
        for s in &pool {
            self.push("mismatch", "hassig", vec![s.clone()]);
        }
        // body signatures that no header can deliver (validate_signature refuses them) but `from_parts` takes: balanced
        // brackets, so that SignatureIter (which expects a valid signature) can walk them; the body entry points
        // must answer with an error. Crash-only: the model has no such types.
        let a33 = format!("{}y", "a".repeat(33));
        let s33 = format!("{}y{}", "(".repeat(33), ")".repeat(33));
        for sig in [a33.as_str(), s33.as_str(), "a{vs}", "a{sss}", "()", "a()", "{ss}", "a{}", "z", "yzy", "a{(y)s}", "r", "e", "a{s}", "(y)()", "yy{yy}", "a{sa{vs}}"] {
            for bo in ORDERS {
                for bytes in [vec![], vec![0u8; 16], vec![4, 0, 0, 0, 1, 2, 3, 4, 0, 0, 0, 0]] {
                    self.body("mismatch", bo, sig, &hex(&bytes));
                }
            }
        }
    }

    // ---- Cow<[E]> / Vec<E> / &[u8] at every alignment ---------------------------------------------
    fn fam_slice(&mut self) {
        let sizes = |c: char| match c {
            'y' => 1usize,
            'n' | 'q' => 2,
            'i' | 'u' | 'b' => 4,
            _ => 8,
        };
        for elem in ['y', 'n', 'q', 'i', 'u', 'x', 't', 'd', 'b'] {
            let sz = sizes(elem);
            for bo in ORDERS {
                for off in 0..8usize {
                    let counts: Vec<usize> = if self.thorough { vec![0, 1, 2, 3, 5, 9] } else { vec![0, 1, 3] };
                    for n in counts {
                        // len = whole elements, and whole elements + r bytes
                        let mut rs: Vec<usize> = vec![0];
                        if sz > 1 && (self.thorough || (n + off) % 2 == 0) {
                            rs.push(1);
                            rs.push(sz - 1);
                            if sz == 8 {
                                rs.push(4);
                            }
                        }
                        for r in rs {
                            let mut b: Vec<u8> = vec![0xEE; off];
                            while b.len() % 4 != 0 {
                                b.push(0);
                            }
                            put_u32(bo, (n * sz + r) as u32, &mut b);
                            while b.len() % sz != 0 {
                                b.push(0);
                            }
                            for k in 0..(n * sz + r) {
                                b.push(if elem == 'b' { ((k % 4 == if bo == ByteOrder::LittleEndian { 0 } else { 3 }) && k % 8 < 4) as u8 } else { (k as u8).wrapping_mul(37).wrapping_add(1) });
                            }
                            let extra = self.rng.below(4) as usize;
                            for _ in 0..extra {
                                b.push(0x5A);
                            }
                            self.push("slice", "slice", vec![bo_name(bo).into(), elem.to_string(), off.to_string(), hex(&b)]);
                            // one corruption of it: a byte changed, or cut short
                            let mut m = b.clone();
                            if self.rng.chance(1, 2) && m.len() > off {
                                let p = off + self.rng.below((m.len() - off) as u64) as usize;
                                m[p] = *self.rng.pick(&[0u8, 1, 0xff, 4, 8]);
                            } else {
                                let cut = self.rng.below(m.len() as u64 - off as u64 + 1) as usize;
                                m.truncate(off + cut);
                            }
                            self.push("slice", "slice", vec![bo_name(bo).into(), elem.to_string(), off.to_string(), hex(&m)]);
                        }
                    }
                    // huge declared lengths
                    for l in [HUGE[0], HUGE[1], HUGE[3], HUGE[4], 9, 8] {
                        let mut b: Vec<u8> = vec![0xEE; off];
                        while b.len() % 4 != 0 {
                            b.push(0);
                        }
                        put_u32(bo, l, &mut b);
                        b.extend_from_slice(&[0; 8]);
                        self.push("huge", "slice", vec![bo_name(bo).into(), elem.to_string(), off.to_string(), hex(&b)]);
                    }
                }
            }
        }
        let n = if self.thorough { 3000 } else { 300 };
        for _ in 0..n {
            let elem = *self.rng.pick(&['y', 'n', 'q', 'i', 'u', 'x', 't', 'd', 'b']);
            let bo = *self.rng.pick(&ORDERS);
            let len = self.rng.range(0, 40) as usize;
            let off = self.rng.range(0, 8.min(len as u64)) as usize;
            let buf: Vec<u8> = (0..len).map(|_| if self.rng.chance(2, 3) { *self.rng.pick(&[0u8, 0, 0, 1, 2, 4, 8, 16]) } else { self.rng.next() as u8 }).collect();
            self.push("rand", "slice", vec![bo_name(bo).into(), elem.to_string(), off.to_string(), hex(&buf)]);
        }
    }

    // ---- raw messages: fixed header, header fields, framing -----------------------------------------
    fn fam_hdr(&mut self) {
        let bodies: Vec<(&str, Ty, Val)> = vec![
            ("-", Ty::Base('y'), Val::Num(0)),
            ("u", Ty::Base('u'), Val::Num(77)),
            ("s", Ty::Base('s'), Val::Str(b"hello".to_vec())),
            ("at", Ty::parse("at").unwrap(), Val::Arr(vec![Val::Num(1), Val::Num(2)])),
            ("a{sv}", Ty::parse("a{sv}").unwrap(), Val::Arr(vec![Val::Struct(vec![Val::Str(b"k".to_vec()), Val::Variant(Ty::Base('u'), Box::new(Val::Num(1)))])])),
            ("(yt)", Ty::parse("(yt)").unwrap(), Val::Struct(vec![Val::Num(1), Val::Num(2)])),
            ("v", Ty::Variant, Val::Variant(Ty::parse("(yt)").unwrap(), Box::new(Val::Struct(vec![Val::Num(1), Val::Num(2)])))),
        ];
        let mut valid: Vec<(ByteOrder, Vec<u8>)> = Vec::new();
        for (sig, ty, val) in &bodies {
            for bo in ORDERS {
                let body = if *sig == "-" { Vec::new() } else { encode(bo, ty, val).buf };
                let s = if *sig == "-" { None } else { Some(*sig) };
                let extra = vec![fstr(2, 's', "a.b"), fstr(6, 's', "org.x"), fstr(7, 's', ":1.5"), (9, FieldVal::Typed(Ty::Base('u'), Val::Num(0))), (0x30, FieldVal::Typed(Ty::parse("a{sv}").unwrap(), Val::Arr(vec![])))];
                let m = call_msg(bo, s, extra, &body);
                self.hdr("hdr", bo, &hex(&m));
                valid.push((bo, m));
                // other message types
                self.hdr("hdr", bo, &hex(&build_msg(bo, 2, 1, 1, 9, &[(5, FieldVal::Typed(Ty::Base('u'), Val::Num(3)))], &[], None)));
                self.hdr("hdr", bo, &hex(&build_msg(bo, 3, 0, 1, 9, &[(5, FieldVal::Typed(Ty::Base('u'), Val::Num(3))), fstr(4, 's', "a.b.E")], &[], None)));
                self.hdr("hdr", bo, &hex(&build_msg(bo, 4, 0, 1, 9, &[fstr(1, 'o', "/a"), fstr(2, 's', "a.b"), fstr(3, 's', "M")], &[], None)));
            }
        }
        // headers that end at every residue modulo 8 (the member name is the last field): 0..7 bytes of padding separate
        // header and body; these join the messages that are corrupted and truncated below
        for bo in ORDERS {
            for k in 1..=8usize {
                let member = "M".repeat(k);
                let body = [1u8, 2, 3, 4, 5, 6, 7, 8];
                let m = build_msg(bo, 4, 0, 1, 9, &[fstr(1, 'o', "/a"), fstr(2, 's', "a.b"), fstr(8, 'g', "t"), fstr(3, 's', &member)], &body, None);
                self.hdr("hdr", bo, &hex(&m));
                valid.push((bo, m));
            }
        }
        // every string-like header field holding a boundary string (empty, a lone separator, one element, ...)
        let edge = ["", ".", ":", "/", "a", "a.", ".a", "a..b", ":.", ":1", ":a.", "..", "::", "-", "_", "1", "a.1", "\u{e9}", "a.b", "//", "/a/", ":1.5"];
        for bo in ORDERS {
            for (code, t) in [(1u8, 'o'), (2, 's'), (3, 's'), (4, 's'), (6, 's'), (7, 's'), (8, 'g')] {
                for e in edge {
                    let mut fields = vec![fstr(1, 'o', "/a"), fstr(2, 's', "a.b"), fstr(3, 's', "M")];
                    fields.retain(|f| f.0 != code);
                    fields.push(fstr(code, t, e));
                    self.hdr("hdr", bo, &hex(&build_msg(bo, 4, 0, 1, 9, &fields, &[], None)));
                    // and in an error message, where ERROR_NAME is the required one
                    let mut fields = vec![(5, FieldVal::Typed(Ty::Base('u'), Val::Num(3))), fstr(4, 's', "a.b.E")];
                    fields.retain(|f| f.0 != code);
                    fields.push(fstr(code, t, e));
                    self.hdr("hdr", bo, &hex(&build_msg(bo, 3, 0, 1, 9, &fields, &[], None)));
                }
            }
        }
        // every single byte corruption / truncation of the header part
        for (bo, m) in &valid {
            let hdr_end = m.len();
            let mut muts: Vec<Vec<u8>> = Vec::new();
            for p in 0..hdr_end {
                let b = m[p];
                for nb in [0u8, 0xff, b.wrapping_add(1), self.rng.next() as u8] {
                    if nb != b {
                        let mut x = m.clone();
                        x[p] = nb;
                        muts.push(x);
                    }
                }
            }
            let cap = if self.thorough { 700 } else { 150 };
            if muts.len() > cap {
                for k in 0..cap {
                    let j = k + self.rng.below((muts.len() - k) as u64) as usize;
                    muts.swap(k, j);
                }
                muts.truncate(cap);
            }
            // EVERY truncation (not sampled): a buffer may end anywhere, also inside the padding between header and body
            for l in 0..m.len() {
                muts.push(m[..l].to_vec());
            }
            for x in muts {
                self.hdr("hdr", *bo, &hex(&x));
            }
        }
        // signature strings that are not signatures, in the SIGNATURE header field
        let a33 = format!("{}y", "a".repeat(33));
        let s33 = format!("{}y{}", "(".repeat(33), ")".repeat(33));
        let long = "y".repeat(255);
        let bad = ["(", ")", "a", "aa", "{ss}", "a{vs}", "a{s}", "a{sss}", "()", "a()", "z", "yy(", "(y", "y)", "a{sv", "a{(y)s}", "\u{e9}", &a33, &s33, &long, "a{sa{sa{sa{sv}}}}", "(a)", "a{}", "ay(", "r", "e", "m", "*", "?", "yyyyyyyyyyyya"];
        for s in bad {
            for bo in ORDERS {
                let body = [0u8; 16];
                let m = call_msg(bo, Some(s), vec![], &body);
                self.hdr("hdr", bo, &hex(&m));
            }
        }
        // a signature field whose bytes are not a string at all
        for bo in ORDERS {
            for raw in [vec![1u8, b'g', 0, 5, b'(', b'(', 0xff, 0xfe, b')', 0], vec![1, b'g', 0, 3, b'a', 0, b'y', 0], vec![1, b'g', 0, 200, b'y', 0], vec![1, b'g', 1, 1, b'y', 0], vec![2, b'g', b'g', 0, 0, 0, 0], vec![0, 0], vec![1, b'v', 0, 1, b'g', 0, 1, b'y', 0], vec![255]] {
                let m = build_msg(bo, 1, 0, 1, 7, &[fstr(1, 'o', "/a"), fstr(3, 's', "M"), (8, FieldVal::Raw(raw))], &[0u8; 8], None);
                self.hdr("hdr", bo, &hex(&m));
            }
        }
        // random bytes behind a plausible fixed header
        let n = if self.thorough { 10_000 } else { 1_500 };
        for _ in 0..n {
            let bo = *self.rng.pick(&ORDERS);
            let flen = self.rng.range(0, 60) as usize;
            let mut m = vec![if bo == ByteOrder::LittleEndian { b'l' } else { b'B' }, self.rng.range(0, 5) as u8, self.rng.next() as u8, if self.rng.chance(9, 10) { 1 } else { self.rng.next() as u8 }];
            put_u32(bo, if self.rng.chance(1, 2) { 0 } else { self.rng.below(24) as u32 }, &mut m);
            put_u32(bo, self.rng.below(3) as u32, &mut m);
            put_u32(bo, if self.rng.chance(3, 4) { flen as u32 } else { self.rng.next() as u32 }, &mut m);
            for _ in 0..flen {
                let b = if self.rng.chance(2, 3) { *self.rng.pick(&[0u8, 0, 1, 2, 3, 6, 8, b'g', b's', b'o', b'u', b'v', b'a', b'/']) } else { self.rng.next() as u8 };
                m.push(b);
            }
            let tail = self.rng.below(24) as usize;
            for _ in 0..tail {
                m.push(0);
            }
            self.hdr("hdr", bo, &hex(&m));
        }
    }

    // ---- arrays that really are longer than the protocol allows ------------------------------------
    fn fam_big(&mut self) {
        let lens: Vec<(char, usize, &str)> =
            if self.thorough { vec![('y', 1 << 26, "0,1,3,4,7"), ('y', (1 << 26) + 1, "0,1,4"), ('t', 1 << 26, "0,1,2,4"), ('t', (1 << 26) + 8, "0,4,5")] } else { vec![('y', 1 << 26, "0,3"), ('y', (1 << 26) + 1, "0,1"), ('t', (1 << 26) + 8, "0,4")] };
        for (elem, len, aligns) in lens {
            for bo in ORDERS {
                if bo == ByteOrder::BigEndian && !self.thorough && elem == 'y' {
                    continue;
                }
                self.push("huge", "big", vec![bo_name(bo).into(), elem.to_string(), len.to_string(), aligns.to_string()]);
            }
        }
    }
}

// ================================================================================================
// PARENT: evaluation

/// allowed peak live bytes (and largest single allocation) of one decode call: 64 KiB + K × input length
const ALLOC_BASE: usize = 64 * 1024;
const ALLOC_K: [usize; 3] = [1, 32, 256];
const CLS_NAME: [&str; 3] = ["validating", "typed/header", "Param tree"];
/// allowed wall clock of one decode call: 5 s + 1 µs per input byte
fn time_bound_us(len: usize) -> u128 {
    5_000_000 + len as u128
}

fn field<'a>(obs: &'a str, key: &str) -> Option<&'a str> {
    obs.split('|').find_map(|f| f.strip_prefix(key).and_then(|r| r.strip_prefix('=')))
}
/// "ok 12" -> Some(Some(12)), "ok" -> Some(None), else None
fn accepted(v: &str) -> Option<Option<usize>> {
    if v == "ok" {
        Some(None)
    } else {
        v.strip_prefix("ok ").map(|n| n.split(' ').last().and_then(|x| x.parse().ok()))
    }
}
fn same_decision(a: &str, b: &str) -> bool {
    match (accepted(a), accepted(b)) {
        (Some(x), Some(y)) => x == y,
        (None, None) => true,
        _ => false,
    }
}
fn canon_ok_reject(v: &str) -> String {
    match accepted(v) {
        Some(Some(n)) => format!("ok {}", n),
        Some(None) => "ok".into(),
        None => {
            if v.starts_with("err") {
                "reject".into()
            } else {
                "crash".into()
            }
        }
    }
}

fn is_hex_tok(t: &str) -> bool {
    !t.starts_with('@')
}
fn tok_len(t: &str) -> usize {
    if t == "-" {
        0
    } else {
        t.len() / 2
    }
}

struct Eval<'a> {
    out: &'a mut Out,
    builds: Vec<&'static str>,
    /// largest peak / length seen for inputs of at least 256 bytes, largest peak for shorter ones (per class)
    max_ratio: [f64; 3],
    max_small: [usize; 3],
}

impl<'a> Eval<'a> {
    fn hit_outcome(&mut self, prefix: &str, v: &str) {
        let k = if v.starts_with("ok") {
            "ok".to_string()
        } else if let Some(e) = v.strip_prefix("err ") {
            format!("err.{}", e.split([' ', ':']).last().unwrap_or(e))
        } else if v.starts_with("panic") {
            "panic".to_string()
        } else {
            "other".to_string()
        };
        self.out.hit(&format!("{}.{}", prefix, k));
        if v.contains("NestingTooDeep") {
            self.out.hit("depth_limit_hit");
        }
        if v.contains("MessageTooLong") {
            self.out.hit("length_limit_hit");
        }
    }

    /// the request lines of one case: (request, key of the observation to show)
    fn requests(&self, c: &Case) -> Vec<(String, String)> {
        let short = |t: &str| is_hex_tok(t) && tok_len(t) <= 4096;
        let descr = |c: &Case| {
            let args: Vec<String> = c.args.iter().map(|a| if a.len() > 8192 && is_hex_tok(a) { format!("#{:016x}:{}", fnv_bytes(a.as_bytes()), a.len() / 2) } else { a.clone() }).collect();
            format!("c04.nocrash {} {} {}", c.fam, c.kind, args.join(" "))
        };
        match c.kind.as_str() {
            "dec" if short(&c.args[2]) => vec![(format!("c04.dec {} {} {}", c.args[0], c.args[1], c.args[2]), "V".into())],
            "body" if short(&c.args[2]) && (c.args[1] == "-" || sig_ok(&c.args[1])) => vec![
                (format!("c04.body {} ~ {} {}", c.args[0], c.args[1], c.args[2]), "~".into()),
                (format!("c04.body {} 0 {} {}", c.args[0], c.args[1], c.args[2]), "0".into()),
            ],
            "slice" if short(&c.args[3]) => (0..8).map(|b| (format!("c04.slice {} {} {} {} {}", c.args[0], b, c.args[1], c.args[2], c.args[3]), format!("c{}", b))).collect(),
            _ => vec![(descr(c), "survived".into())],
        }
    }

    /// worker deaths / hangs first: they are the most valuable violations and the list is capped
    fn report_deaths(&mut self, c: &Case, res: &[Option<&WRes>]) {
        for (b, r) in res.iter().enumerate() {
            let build = self.builds[b];
            match r {
                Some(WRes::Died(d)) => {
                    let req0 = self.requests(c)[0].0.clone();
                    self.out.violation(&req0, &format!("worker ({} build) {}", build, d));
                }
                Some(WRes::BatchOnly(d, _)) => {
                    let req0 = self.requests(c)[0].0.clone();
                    self.out.violation(&req0, &format!("worker ({} build) {} -- inside its batch; it answered when run alone", build, d));
                }
                _ => {}
            }
        }
    }

    fn eval_case(&mut self, c: &Case, res: &[Option<&WRes>]) {
        let reqs = self.requests(c);
        let req0 = reqs[0].0.clone();
        self.out.hit(&format!("fam.{}", c.fam));
        self.out.hit(&format!("entry.{}", c.kind));
        let mut bad = false; // crashed / panicked / hung / over the bound somewhere
        let mut fields: Vec<Option<Vec<String>>> = Vec::new();
        for (b, r) in res.iter().enumerate() {
            let build = self.builds[b];
            match r {
                None => fields.push(None),
                Some(WRes::Answered(f)) => fields.push(Some(f.clone())),
                // (the violation itself has been reported by report_deaths, ahead of everything else)
                Some(WRes::Died(_)) => {
                    bad = true;
                    self.out.hit(&format!("build.{}.died", build));
                    fields.push(None);
                }
                Some(WRes::BatchOnly(_, f)) => {
                    bad = true;
                    self.out.hit(&format!("build.{}.died", build));
                    fields.push(Some(f.clone()));
                }
            }
        }
        // per build: alignment dependence, allocation and time bounds, call counters
        for (b, f) in fields.iter().enumerate() {
            let build = self.builds[b];
            let Some(f) = f else { continue };
            if f[0] == "align" {
                bad = true;
                self.out.violation(&req0, &format!("result depends on the memory alignment of the buffer ({} build): {}", build, &f[1][..f[1].len().min(600)]));
            }
            let len: usize = f[2].parse().unwrap_or(0);
            let whos: Vec<&str> = f[9].split(';').collect();
            for cls in 0..3 {
                let peak: usize = f[3 + 2 * cls].parse().unwrap_or(0);
                let one: usize = f[4 + 2 * cls].parse().unwrap_or(0);
                let bound = ALLOC_BASE + ALLOC_K[cls] * len;
                if peak > bound || one > bound {
                    bad = true;
                    self.out.violation(
                        &req0,
                        &format!("memory out of proportion ({} build): {} call {} had {} bytes live at its peak (largest single allocation {}) for an input of {} bytes; bound 64 KiB + {} x length = {}", build, CLS_NAME[cls], whos.get(cls).unwrap_or(&""), peak, one, len, ALLOC_K[cls], bound),
                    );
                    self.out.hit("alloc_bound_exceeded");
                }
                if peak > ALLOC_BASE && len > 0 {
                    let r = (peak - ALLOC_BASE) as f64 / len as f64;
                    if r > self.max_ratio[cls] {
                        self.max_ratio[cls] = r;
                    }
                } else if peak > self.max_small[cls] {
                    self.max_small[cls] = peak;
                }
            }
            let slow: u128 = f[11].parse().unwrap_or(0);
            if slow > time_bound_us(len) {
                bad = true;
                self.out.violation(&req0, &format!("time out of proportion ({} build): {} took {} ms for {} bytes", build, f[12], slow / 1000, len));
            }
            let mut total = 0;
            for (a, n) in f[10].split(',').enumerate() {
                let n: u64 = n.parse().unwrap_or(0);
                total += n;
                self.out.hit_n(&format!("align.{}", a), n);
            }
            self.out.hit_n(&format!("build.{}.calls", build), total);
        }
        // the two builds must agree
        let obs: String = match (&fields[0], fields.get(1).and_then(|x| x.as_ref())) {
            (Some(a), Some(b)) => {
                if a[1] != b[1] {
                    bad = true;
                    let (x, y) = (&a[1], &b[1]);
                    let p = x.bytes().zip(y.bytes()).position(|(p, q)| p != q).unwrap_or(0).saturating_sub(40);
                    self.out.violation(&req0, &format!("result depends on the build: release ..{} / relcheck ..{}", &x[p.min(x.len())..(p + 160).min(x.len())], &y[p.min(y.len())..(p + 160).min(y.len())]));
                }
                a[1].clone()
            }
            (Some(a), None) => a[1].clone(),
            (None, Some(b)) => b[1].clone(),
            (None, None) => String::new(),
        };
        // a caught panic anywhere
        for f in obs.split('|') {
            if f.contains("=panic") {
                bad = true;
                self.out.violation(&req0, &format!("a decoding entry point panicked: {}", &f[..f.len().min(300)]));
                self.out.hit("panic_caught");
            }
        }
        if obs.contains("LOOP") {
            bad = true;
            self.out.violation(&req0, "get_param() keeps returning values: more than 300 from a signature of at most 255 types");
        }
        match c.kind.as_str() {
            "dec" if !obs.is_empty() => {
                let v = field(&obs, "V").unwrap_or("?").to_string();
                self.hit_outcome("dec.V", &v);
                let has_fd = c.args[1].contains('h');
                if let Some(p) = field(&obs, "P") {
                    self.hit_outcome("dec.P", p);
                    // a variant may carry a unix fd index; unmarshal_with_sig then wants the descriptor (none attached here)
                    if !has_fd && !same_decision(&v, p) && !(p == "err BadFdIndex" && accepted(&v).is_some()) {
                        self.out.violation(&req0, &format!("unmarshal_with_sig and validate_marshalled disagree on the same bytes: validate {} / param {}", v, p));
                    }
                }
                for f in obs.split('|') {
                    if let Some(rest) = f.strip_prefix("Ts:").or_else(|| f.strip_prefix("Tw:")) {
                        let strict = f.starts_with("Ts:");
                        if let Some((name, t)) = rest.split_once('=') {
                            self.hit_outcome("dec.T", t);
                            let mut ok = if strict { same_decision(&v, t) } else { accepted(t).is_none() || same_decision(&v, t) };
                            // (typed containers used not to count their own nesting level - repaired in /repo by da613af;
                            // a typed decoder accepting what validate refuses as too deep is a disagreement again)
                            if !ok {
                                self.out.violation(&req0, &format!("the typed decoder {} and validate_marshalled disagree on the same bytes: validate {} / typed {}", name, v, t));
                            }
                        }
                    }
                }
            }
            "body" if !obs.is_empty() => {
                let len = if is_hex_tok(&c.args[2]) { Some(tok_len(&c.args[2])) } else { None };
                let bv = field(&obs, "Bv").unwrap_or("?").to_string();
                let bp = field(&obs, "Bp").unwrap_or("?").to_string();
                let bc = field(&obs, "Bc").unwrap_or("?").to_string();
                let ba = field(&obs, "Ba").unwrap_or("?").to_string();
                self.hit_outcome("body.validate", &bv);
                self.hit_outcome("body.get_param", if bp.ends_with(":EndOfMessage") { "ok" } else { &bp });
                self.hit_outcome("body.unmarshall_all", &ba);
                // the lazy decoder walks whatever the validator accepts (descriptor indices aside: none are attached here)
                let bi = field(&obs, "Bi").unwrap_or("?").to_string();
                self.hit_outcome("body.iter_walk", &bi);
                if accepted(&bv).is_some() && accepted(&bi).is_none() && !bi.contains("BadFdIndex") && !bi.starts_with("panic") {
                    self.out.violation(&req0, &format!("wire::unmarshal::iter cannot walk a body that validate() accepts: validate {} / iter {}", bv, bi));
                }
                let loop_all = bp.ends_with(":EndOfMessage");
                let used_all = match (accepted(&bc), len) {
                    (Some(Some(n)), Some(l)) => n == l,
                    (Some(Some(_)), None) => accepted(&bv).is_some(),
                    _ => false,
                };
                if !c.args[1].contains('h') && !bp.contains("BadFdIndex") {
                    if accepted(&bv).is_some() != (loop_all && used_all) {
                        self.out.violation(&req0, &format!("validate() and the get_param() loop disagree on the same body: validate {} / get_param {} / consumed {}", bv, bp, bc));
                    }
                    if accepted(&ba).is_some() != loop_all {
                        self.out.violation(&req0, &format!("unmarshall_all and the get_param() loop disagree: unmarshall_all {} / get_param {}", ba, bp));
                    }
                }
            }
            "typed" | "hdr" if !obs.is_empty() => {
                if c.kind == "hdr" {
                    let hv = field(&obs, "hdr").unwrap_or("?").to_string();
                    self.hit_outcome("hdr.parse", &hv);
                    if let Some(x) = field(&obs, "Bv") {
                        self.hit_outcome("hdr.body.validate", x);
                    }
                    if let Some(x) = field(&obs, "Ba") {
                        self.hit_outcome("hdr.unmarshall_all", x);
                    }
                }
                let mut n_ok = 0;
                for f in obs.split('|') {
                    if let Some(rest) = f.strip_prefix("G:") {
                        if let Some((_, t)) = rest.split_once('=') {
                            self.hit_outcome("typed.get", t);
                            if t == "ok" {
                                n_ok += 1;
                            }
                        }
                    }
                    if let Some(rest) = f.strip_prefix("var:") {
                        if let Some((_, t)) = rest.split_once('=') {
                            self.hit_outcome("typed.variant_get", t);
                        }
                    }
                    if f.starts_with("G!:") {
                        self.out.violation(&req0, &format!("get::<T>() for a type whose has_sig rejects the signature did not answer WrongSignature: {}", f));
                    }
                }
                let _ = n_ok;
                if let Some(m) = field(&obs, "multi") {
                    self.out.hit_n("typed.get2_get3.ok", m.matches(',').count() as u64 + (m.len() > 3) as u64);
                }
            }
            "slice" if !obs.is_empty() => {
                let vec = field(&obs, "vec").unwrap_or("?").to_string();
                let val = field(&obs, "val").unwrap_or("?").to_string();
                self.hit_outcome("slice.Vec", &vec);
                if field(&obs, "eq") == Some("DIFF") {
                    self.out.violation(&req0, "Cow<[E]> / Vec<E> elements differ from the bytes of the message");
                }
                if !same_decision(&vec, &val) {
                    self.out.violation(&req0, &format!("Vec<E>::unmarshal and validate_marshalled disagree: typed {} / validate {}", vec, val));
                }
                if let Some(r) = field(&obs, "ref") {
                    if !same_decision(r, &val) {
                        self.out.violation(&req0, &format!("&[u8]::unmarshal and validate_marshalled disagree: typed {} / validate {}", r, val));
                    }
                }
                for b in 0..8 {
                    let cw = field(&obs, &format!("c{}", b)).unwrap_or("?").to_string();
                    self.out.hit(&format!("slice.Cow.{}", if cw.starts_with("ok ") { cw.split(' ').nth(1).unwrap_or("?") } else { cw.split(' ').next().unwrap_or("?") }));
                    if !same_decision(&cw, &val) {
                        self.out.violation(&req0, &format!("Cow<[E]>::unmarshal (buffer at address = {} mod 8) and validate_marshalled disagree: typed {} / validate {}", b, cw, val));
                    }
                }
            }
            "big" if !obs.is_empty() => {
                let v = field(&obs, "V").unwrap_or("?").to_string();
                self.hit_outcome("big.V", &v);
                let len: usize = c.args[2].parse().unwrap_or(0);
                if accepted(&v).is_some() != (len <= (1 << 26)) {
                    self.out.violation(&req0, &format!("an array of {} bytes: validate_marshalled answered {} (the limit is 2^26)", len, v));
                }
                for f in obs.split('|') {
                    if let Some(rest) = f.strip_prefix("Ts:") {
                        if let Some((name, t)) = rest.split_once('=') {
                            self.hit_outcome("big.T", t);
                            if !same_decision(&v, t) {
                                self.out.violation(&req0, &format!("an array of {} bytes: {} answered {} but validate_marshalled {}", len, name, t, v));
                            }
                        }
                    }
                }
            }
            _ => {}
        }
        // the correspondence cases
        for (req, key) in &reqs {
            let o = if obs.is_empty() {
                if key == "survived" { "crashed".to_string() } else { "crash".to_string() }
            } else {
                match key.as_str() {
                    "survived" => if bad { "failed".to_string() } else { "survived".to_string() },
                    "V" => canon_ok_reject(field(&obs, "V").unwrap_or("?")),
                    "~" => if accepted(field(&obs, "Bv").unwrap_or("?")).is_some() { "ok".into() } else if field(&obs, "Bv").unwrap_or("?").starts_with("err") { "reject".into() } else { "crash".into() },
                    "0" => {
                        let bp = field(&obs, "Bp").unwrap_or("?");
                        let bc = field(&obs, "Bc").unwrap_or("?");
                        let len = tok_len(&c.args[2]);
                        if bp.starts_with("panic") || bc.starts_with("panic") {
                            "crash".into()
                        } else if bp.ends_with(":EndOfMessage") && accepted(bc) == Some(Some(len)) {
                            "ok".into()
                        } else {
                            "reject".into()
                        }
                    }
                    k => {
                        let v = field(&obs, k).unwrap_or("?");
                        let w = v.strip_prefix("ok ").unwrap_or("?");
                        if w.starts_with("borrowed ") || w.starts_with("owned ") {
                            w.to_string()
                        } else if v.starts_with("err") {
                            "reject".into()
                        } else {
                            "crash".into()
                        }
                    }
                }
            };
            let trivial = c.kind == "dec" && c.args[1].len() == 1 && c.args[1] != "v" && o.starts_with("ok");
            self.out.case(req, &o, !trivial);
        }
    }
}

fn rule_text() -> String {
    format!(
        "inputs: (1) every catalogue type's generated value encoded by an independent encoder + single-byte corruptions (0x00, 0xff, +1, random; all positions (up to 500 per value) for one value of every type in the thorough tier, a random subset of 24-32 otherwise) + truncations; (2) nesting bombs: towers of variants / arrays / structs / dict entries in 13 patterns to depth 10..130 around the limits 32 and 64, the same inside a{{sv}}, in a message body and in an unknown header field, 255-character variant signatures, generated towers of 10^3..10^6 levels (crash-only); (3) declared lengths 2^26, 2^26+1, 2^26+8, 2^31, 2^32-1, 2^32-8, remaining+1, remaining in every length field of valid encodings, in body_len and the header field array, arrays that really hold 2^26 and 2^26+1/+8 bytes; (4) random bytes under random valid signatures, random values with bit flips, 20-80 KB values; (5) typed gets under mutated signatures (shorter / longer / reordered structs, other element types), derived structs and enums against a pool of signatures, has_sig of every type against the pool; Cow<[E]>/Vec<E>/&[u8] for 9 element types x offsets 0..7 x lengths that are and are not multiples of the element size; raw messages (valid, every string-like header field holding boundary strings such as the empty string or a lone separator, every corruption of the header, invalid signature strings in the SIGNATURE field, random header fields). Every case runs in two worker processes (release build; relcheck build = debug assertions + overflow checks, std's unsafe precondition checks abort), on a 2 MiB stack under catch_unwind, at all 8 alignments of the buffer, both byte orders by generation. Entry points: validate_marshalled, unmarshal_with_sig, Unmarshal::unmarshal of every table type with the signature (326 catalogue types + 38 borrowed / derived / macro types), MarshalledMessageBody::validate, parser().get_param loop, get::<T> for all 364 types, get2 (64 pairs), get3 (40 triples), Variant::get, unmarshall_all, sigs_left / get_next_sig, has_sig, unmarshal_header + unmarshal_dynamic_header + unmarshal_next_message. Violation: worker death (signal), hang (no answer in 30 s), caught panic, result differing between alignments or builds, decoders disagreeing on accept/consumed, peak live bytes or largest single allocation of one call above 64 KiB + K x input length with K = {} for validating calls, {} for typed / header calls, {} for calls that build a Param tree, one call longer than 5 s + 1 us/byte. c04.dec / c04.body / c04.slice observations are compared with the Lean model; distinct by request text",
        ALLOC_K[0], ALLOC_K[1], ALLOC_K[2]
    )
}

fn case_from_request(line: &str) -> Option<Case> {
    let t: Vec<&str> = line.split(' ').collect();
    let s = |i: usize| t.get(i).map(|x| x.to_string()).unwrap_or_default();
    match t.first().copied()? {
        "c04.dec" => Some(Case { fam: "replay".into(), kind: "dec".into(), args: vec![s(1), s(2), s(3)] }),
        "c04.body" => Some(Case { fam: "replay".into(), kind: "body".into(), args: vec![s(1), s(3), s(4)] }),
        "c04.slice" => Some(Case { fam: "replay".into(), kind: "slice".into(), args: vec![s(1), s(3), s(4), s(5)] }),
        "c04.nocrash" if t.len() >= 3 => Some(Case { fam: s(1), kind: s(2), args: t[3..].iter().map(|x| x.to_string()).collect() }),
        _ => None,
    }
}

pub fn run(cfg: &Cfg) {
    let t_start = Instant::now();
    let mut out = Out::new(&cfg.outdir);
    let exe = std::env::current_exe().expect("own path");
    let relcheck = relcheck_binary();
    // ---- cases
    let mut g = Gen { rng: Prng::new(cfg.seed), cases: Vec::new(), thorough: cfg.thorough };
    if let Some(line) = &cfg.replay {
        match case_from_request(line) {
            Some(c) if !c.args.iter().any(|a| a.starts_with('#')) => g.cases.push(c),
            _ => eprintln!("C04: this request line cannot be replayed (not a c04 request, or its bytes are only given as a hash)"),
        }
    } else {
        g.fam_cat();
        g.fam_bomb();
        g.fam_huge();
        g.fam_rand();
        g.fam_mismatch();
        g.fam_slice();
        g.fam_hdr();
        g.fam_big();
    }
    let cases = g.cases;
    let casefile = PathBuf::from(format!("{}/cases.txt", cfg.outdir));
    {
        let mut f = std::io::BufWriter::new(std::fs::File::create(&casefile).expect("case file"));
        for c in &cases {
            writeln!(f, "{}", c.line()).unwrap();
        }
    }
    // the big descriptors last in their shard would serialise: shards are contiguous, that is fine
    let timeout = Duration::from_secs(30);
    let ncpu = std::thread::available_parallelism().map(|n| n.get()).unwrap_or(4);
    let shards = (ncpu / 2).clamp(1, 6);
    let mut builds: Vec<&'static str> = vec!["release"];
    let n = cases.len();
    let (r_rel, r_chk) = {
        let (e1, cf1, od1) = (exe.clone(), casefile.clone(), cfg.outdir.clone());
        let h1 = std::thread::spawn(move || run_build(&e1, &cf1, n, shards, &od1, "release", timeout));
        let h2 = match &relcheck {
            Ok(p) => {
                let (e2, cf2, od2) = (p.clone(), casefile.clone(), cfg.outdir.clone());
                Some(std::thread::spawn(move || run_build(&e2, &cf2, n, shards, &od2, "relcheck", timeout)))
            }
            Err(_) => None,
        };
        (h1.join().unwrap_or_default(), h2.map(|h| h.join().unwrap_or_default()))
    };
    match &relcheck {
        Ok(_) => builds.push("relcheck"),
        Err(e) => out.violation("c04.nocrash build relcheck", &format!("relcheck worker could not be built: {}", e)),
    }
    let t_workers = t_start.elapsed();
    {
        let mut ev = Eval { out: &mut out, builds: builds.clone(), max_ratio: [0.0; 3], max_small: [0; 3] };
        for pass in 0..2 {
            for (i, c) in cases.iter().enumerate() {
                let mut rs: Vec<Option<&WRes>> = vec![r_rel.get(i)];
                if let Some(r) = &r_chk {
                    rs.push(r.get(i));
                }
                if pass == 0 {
                    ev.report_deaths(c, &rs);
                } else {
                    ev.eval_case(c, &rs);
                }
            }
        }
        let (mr, ms) = (ev.max_ratio, ev.max_small);
        out.extra("alloc_seen", json_str(&format!("largest (peak - 64 KiB) / length: {:.2} / {:.2} / {:.2}; largest peak among inputs whose calls stayed below 64 KiB: {} / {} / {} bytes (validating / typed+header / Param tree)", mr[0], mr[1], mr[2], ms[0], ms[1], ms[2])));
    }
    if cfg.replay.is_some() {
        for (tag, r) in [("release", Some(&r_rel)), ("relcheck", r_chk.as_ref())] {
            if let Some(r) = r {
                for x in r {
                    println!("{}: {:?}", tag, x);
                }
            }
        }
    }
    out.extra("cases", n.to_string());
    out.extra("worker_seconds", format!("{:.1}", t_workers.as_secs_f64()));
    out.extra("table_types", build_table().len().to_string());
    out.extra("alloc_bound", json_str(&format!("64 KiB + K x input length, K = {:?} (validating, typed/header, Param tree)", ALLOC_K)));
    let _ = std::fs::remove_file(&casefile);
    if let Ok(rd) = std::fs::read_dir(&cfg.outdir) {
        for e in rd.flatten() {
            let name = e.file_name().to_string_lossy().to_string();
            if name.starts_with("worker_") && name.ends_with(".err") && e.metadata().map(|m| m.len() == 0).unwrap_or(false) {
                let _ = std::fs::remove_file(e.path());
            }
        }
    }
    out.finish(&rule_text(), false);
}
