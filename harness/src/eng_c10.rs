//! C10: one message under short writes, EAGAIN, errors and suspend/resume on a REAL socket.
//!
//! A real `DuplexConn` (through the real auth code) is connected to an in-process peer. The client's
//! SO_SNDBUF is set small (the kernel then takes `sndbuf/2 - 64` bytes per skb, two of them while the
//! queue is empty), optionally the queue is pre-filled with filler bytes standing for earlier unread
//! traffic, so that `write_once(Timeout::Nonblock)` really returns short counts and EAGAIN. Client
//! and peer run in lock-step on one thread: client call -> observe -> the peer reads a chosen amount.
//! The OBSERVED results (n per call, EAGAIN, error) are the model's input events; compared with the
//! model are: what the kernel holds after every call (bytes read by the peer + FIONREAD, i.e. NOT
//! the value the library returned), `all_bytes_written()`, the descriptor deliveries seen by the peer,
//! a hash of the byte stream the peer read, the reported serial, whether the final consumption of
//! the context panicked. Direct checks (no model): see `finish_checks`.
use rustbus::connection::ll_conn::{force_finish_on_error, DuplexConn, SendMessageContext};
use rustbus::connection::{Error, Timeout};
use rustbus::message_builder::{MarshalledMessage, MessageBuilder};
use rustbus::wire::UnixFd;
use rustbus::ByteOrder;
use std::num::NonZeroU32;
use std::os::unix::io::{AsRawFd, RawFd};
use std::os::unix::net::UnixStream;
use std::time::Duration;
use vcore::common::*;
use vcore::eng_wire::guard;
use vcore::peer;

fn sockopt_set(fd: RawFd, opt: libc::c_int, v: i32) {
    unsafe {
        libc::setsockopt(fd, libc::SOL_SOCKET, opt, &v as *const i32 as *const libc::c_void, 4);
    }
}

fn fionread(fd: RawFd) -> usize {
    let mut n: libc::c_int = 0;
    unsafe {
        libc::ioctl(fd, libc::FIONREAD, &mut n);
    }
    n as usize
}

fn ident(fd: RawFd) -> (u64, u64) {
    unsafe {
        let mut st: libc::stat = std::mem::zeroed();
        if libc::fstat(fd, &mut st) != 0 {
            return (0, 0);
        }
        (st.st_dev as u64, st.st_ino as u64)
    }
}

/// anonymous files whose (dev, inode) identify a descriptor at the peer
fn make_files(n: usize) -> Vec<(RawFd, (u64, u64))> {
    (0..n)
        .map(|i| {
            let name = std::ffi::CString::new(format!("vh-c10-{}", i)).unwrap();
            let fd = unsafe { libc::memfd_create(name.as_ptr(), 0) };
            assert!(fd >= 0, "memfd_create");
            (fd, ident(fd))
        })
        .collect()
}

fn pattern(seed: u8, n: usize) -> Vec<u8> {
    (0..n).map(|i| (seed as usize + i + (i >> 8) * 3) as u8).collect()
}

fn fnv32(bs: &[u8]) -> u32 {
    let mut h: u32 = 2166136261;
    for b in bs {
        h = (h ^ (*b as u32)).wrapping_mul(16777619);
    }
    h
}

fn rd_u32(bo_l: bool, b: &[u8]) -> u32 {
    let a = [b[0], b[1], b[2], b[3]];
    if bo_l {
        u32::from_le_bytes(a)
    } else {
        u32::from_be_bytes(a)
    }
}

struct Built {
    msg: MarshalledMessage,
    fdids: Vec<usize>,
    pre: Vec<u8>,
    patlen: usize,
    seed: u8,
    post: Vec<u8>,
}

fn header_len(msg: &MarshalledMessage) -> usize {
    let mut b = Vec::new();
    rustbus::wire::marshal::marshal(msg, NonZeroU32::new(1).unwrap(), &mut b).expect("marshal");
    b.len()
}

/// a message with a chosen header length (None: whatever the names give), `patlen` counter bytes in
/// an `ay`, descriptors before or after it
fn build(rng: &mut Prng, files: &[(RawFd, (u64, u64))], hdr_target: Option<usize>, patlen: usize, nfds: usize, with_array: bool) -> Built {
    let bo = if rng.chance(1, 2) { ByteOrder::LittleEndian } else { ByteOrder::BigEndian };
    let stretch = |rng: &mut Prng, base: &str, max: u64| -> String {
        let mut s = base.to_string();
        for _ in 0..rng.below(max) {
            s.push('x');
        }
        s
    };
    let iface = stretch(rng, "a.b", 40);
    let member = stretch(rng, "M", 40);
    let mut msg = if rng.chance(1, 2) {
        MessageBuilder::with_byteorder(bo).signal(iface, member, "/o").build()
    } else {
        let mut c = MessageBuilder::with_byteorder(bo).call(member).on("/o").at(stretch(rng, "org.dest", 30));
        if rng.chance(1, 2) {
            c = c.with_interface(iface);
        }
        c.build()
    };
    if rng.chance(1, 3) {
        msg.dynheader.sender = Some(stretch(rng, ":1.7", 10));
    }
    if rng.chance(1, 4) {
        msg.flags = rng.next() as u8;
    }
    // body
    let seed = rng.next() as u8;
    let pat = pattern(seed, patlen);
    let fds_first = rng.chance(1, 2);
    let mut fdids = Vec::new();
    let push_fds = |msg: &mut MarshalledMessage, rng: &mut Prng, fdids: &mut Vec<usize>| {
        for _ in 0..nfds {
            let id = rng.below(files.len() as u64) as usize;
            let ufd = UnixFd::new(nix::unistd::dup(files[id].0).unwrap());
            msg.body.push_param(&ufd).unwrap();
            fdids.push(id);
        }
    };
    if fds_first {
        push_fds(&mut msg, rng, &mut fdids);
    }
    if with_array {
        msg.body.push_param(&pat[..]).unwrap();
    }
    if !fds_first {
        push_fds(&mut msg, rng, &mut fdids);
    }
    // header length: stretch the object path
    if let Some(target) = hdr_target {
        let mut k: i64 = 1;
        for _ in 0..12 {
            msg.dynheader.object = Some(format!("/{}", "p".repeat(k.max(1) as usize)));
            let l = header_len(&msg) as i64;
            if l == target as i64 {
                break;
            }
            // the length moves by one per character up to the padding: aim at the top of the 8-byte step
            k = (k + (target as i64 - l)).max(1);
        }
    }
    // locate the pattern in the body
    let body = msg.get_buf().to_vec();
    let (pre, patlen2, post) = if with_array && patlen > 0 {
        let off = if fds_first { 4 * nfds + 4 } else { 4 };
        if body.len() >= off + patlen && body[off..off + patlen] == pat[..] {
            (body[..off].to_vec(), patlen, body[off + patlen..].to_vec())
        } else {
            (body.clone(), 0, vec![])
        }
    } else {
        (body.clone(), 0, vec![])
    };
    Built { msg, fdids, pre, patlen: patlen2, seed, post }
}

/// the peer end: counts the stream position, keeps the bytes of the current message
struct PeerEnd {
    s: UnixStream,
    rx_total: usize,
    base: usize,
    got: Vec<u8>,
    deliveries: Vec<(usize, Vec<(u64, u64)>)>,
}

impl PeerEnd {
    fn pending(&self) -> usize {
        fionread(self.s.as_raw_fd())
    }
    /// what the kernel has accepted for the current message
    fn kernel_sent(&self) -> usize {
        (self.rx_total + self.pending()).saturating_sub(self.base)
    }
    fn read(&mut self, want: usize) {
        if want == 0 {
            return;
        }
        // never read across the start of the current message in one call (descriptor position)
        let want = if self.rx_total < self.base { want.min(self.base - self.rx_total) } else { want };
        let (bytes, fds) = peer::recv_with_fds(&self.s, want);
        let pos = self.rx_total;
        if !fds.is_empty() {
            let ids = fds.iter().map(|f| ident(*f)).collect();
            for f in &fds {
                unsafe {
                    libc::close(*f);
                }
            }
            self.deliveries.push((pos.saturating_sub(self.base), ids));
        }
        if pos >= self.base {
            self.got.extend_from_slice(&bytes);
        }
        self.rx_total += bytes.len();
    }
    fn drain_all(&mut self) {
        let mut guard = 0;
        while self.pending() > 0 && guard < 100000 {
            self.read(1 << 20);
            guard += 1;
        }
    }
}

#[derive(Clone, Copy, PartialEq)]
enum EndKind {
    Drop,
    Forget,
    Progress,
    Ffe,
}

struct Spec {
    sndbuf: i32,
    filler: usize,
    hdr_target: Option<usize>,
    patlen: usize,
    nfds: usize,
    with_array: bool,
    suspend_num: u64, // suspend before a call with probability suspend_num/4
    fail_den: u64,    // 0: never inject the failing Timeout::Duration(0)
    abandon_after: Option<usize>,
    use_write: u64, // probability (x/8) that a step is a `write(Nonblock)` instead of `write_once`
    preset: Option<u32>,
    class: &'static str,
}

fn res_of(r: &Result<usize, Error>) -> String {
    match r {
        Ok(n) => format!("k{}", n),
        Err(Error::IoError(e)) if e.kind() == std::io::ErrorKind::WouldBlock => "e".into(),
        Err(Error::TimedOut) => "t".into(),
        Err(_) => "f".into(),
    }
}

fn scenario(out: &mut Out, rng: &mut Prng, conn: &mut DuplexConn, pe: &mut PeerEnd, files: &[(RawFd, (u64, u64))], sp: &Spec) {
    let cfd = conn.send.as_raw_fd();
    sockopt_set(cfd, libc::SO_SNDBUF, sp.sndbuf);
    let b = build(rng, files, sp.hdr_target, sp.patlen, sp.nfds, sp.with_array);
    let mut msg = b.msg;
    msg.dynheader.serial = sp.preset.and_then(NonZeroU32::new);
    let body: Vec<u8> = msg.get_buf().to_vec();
    // earlier unread traffic: filler bytes straight into the socket
    pe.drain_all();
    if sp.filler > 0 {
        let junk = vec![0xEEu8; sp.filler];
        let mut done = 0;
        while done < junk.len() {
            let n = unsafe { libc::send(cfd, junk[done..].as_ptr() as *const libc::c_void, junk.len() - done, libc::MSG_DONTWAIT) };
            if n <= 0 {
                break;
            }
            done += n as usize;
        }
    }
    pe.base = pe.rx_total + pe.pending();
    pe.got.clear();
    pe.deliveries.clear();

    let mut steps: Vec<String> = Vec::new();
    let mut items: Vec<String> = Vec::new();
    let mut viol: Vec<String> = Vec::new();
    // one context exists at a time; the slot `ctx` is re-filled after into_progress/resume, which the
    // borrow checker cannot see through a single variable: hand out the borrows from a raw pointer
    let send_ptr: *mut rustbus::connection::ll_conn::SendConn = &mut conn.send;
    let ctx0 = match unsafe { &mut *send_ptr }.send_message(&msg) {
        Ok(c) => c,
        Err(e) => {
            out.violation("c10.run <build>", &format!("send_message refused a valid message: {:?}", e));
            return;
        }
    };
    let serial = ctx0.serial().get();
    let mut hdr = Vec::new();
    rustbus::wire::marshal::marshal(&msg, NonZeroU32::new(serial).unwrap(), &mut hdr).expect("marshal");
    let total = hdr.len() + body.len();
    if ctx0.bytes_total() != total {
        viol.push(format!("bytes_total() = {} but header {} + body {}", ctx0.bytes_total(), hdr.len(), body.len()));
    }
    let mut ctx: Option<SendMessageContext> = Some(ctx0);
    let mut sum_ret: usize = 0; // what the library claims
    let mut eagains_in_row = 0;
    let mut ncalls = 0usize;
    let mut done_by_write: Option<u32> = None;
    let mut extra_after_complete = if rng.chance(1, 2) { 1 } else { 0 };
    let max_calls = 200_000;
    let mut cut_kinds: Vec<&'static str> = Vec::new();
    let mut lib_panic = false;
    let mut stalled = false;
    loop {
        let c = ctx.as_ref().unwrap();
        let complete = c.all_bytes_written();
        if complete != (pe.kernel_sent() == total) {
            viol.push(format!("all_bytes_written() = {} while the kernel holds {} of {} bytes", complete, pe.kernel_sent(), total));
        }
        if pe.kernel_sent() > total {
            // more than the message went out: stop before a `write` can spin on an empty offer
            viol.push(format!("the kernel holds {} bytes for a message of {} bytes", pe.kernel_sent(), total));
            lib_panic = true;
            break;
        }
        if stalled {
            viol.push(format!("write_once returned Ok(0) with {} of {} bytes sent (write() would spin for ever)", pe.kernel_sent(), total));
            lib_panic = true;
            break;
        }
        if complete {
            if extra_after_complete == 0 {
                break;
            }
            extra_after_complete -= 1;
        }
        if let Some(n) = sp.abandon_after {
            if ncalls >= n && !complete {
                break;
            }
        }
        if ncalls >= max_calls {
            viol.push("step budget exhausted".into());
            break;
        }
        // suspend / resume
        if rng.below(4) < sp.suspend_num {
            let c = ctx.take().unwrap();
            let st = match guard(move || c.into_progress()) {
                Ok(st) => st,
                Err(p) => {
                    viol.push(format!("into_progress panicked with {} of {} bytes sent: {}", pe.kernel_sent(), total, p));
                    lib_panic = true;
                    break;
                }
            };
            let c2 = SendMessageContext::resume(unsafe { &mut *send_ptr }, &msg, st);
            if c2.serial().get() != serial {
                viol.push("serial changed across into_progress/resume".into());
            }
            ctx = Some(c2);
            steps.push("s".into());
            items.push("s".into());
            out.hit("suspend_resume");
        }
        let before = pe.kernel_sent();
        let hoff = before.min(hdr.len());
        let boff = before - hoff;
        ncalls += 1;
        if rng.below(8) < sp.use_write {
            // `write(Nonblock)`: loops write_once until complete or EAGAIN; with a 1 ns budget the clock
            // (`calc_timeout_left`) normally ends it before the first write_once
            let wt = if rng.chance(1, 8) { Timeout::Duration(Duration::from_nanos(1)) } else { Timeout::Nonblock };
            let c = ctx.take().unwrap();
            let r = match guard(move || c.write(wt)) {
                Ok(r) => r,
                Err(p) => {
                    viol.push(format!("write panicked: {}", p));
                    lib_panic = true;
                    break;
                }
            };
            let after = pe.kernel_sent();
            let d = after - before.min(after);
            match r {
                Ok(s) => {
                    steps.push(format!("W{}k", d));
                    items.push(format!("W:done{}:{}:c", s.get(), after));
                    done_by_write = Some(s.get());
                    if after != total {
                        viol.push(format!("write() reported completion with {} of {} bytes in the kernel", after, total));
                    }
                    out.hit("write_done");
                    break;
                }
                Err((c, e)) => {
                    let kind = res_of(&Err(e));
                    steps.push(format!("W{}{}", d, kind));
                    items.push(format!("W:{}:{}:{}", kind, after, if c.all_bytes_written() { "c" } else { "p" }));
                    // (an error from a write() on an ALREADY complete context is legitimate: timeout first)
                    if c.all_bytes_written() && before != total {
                        viol.push("write() completed the message but returned an error".into());
                    }
                    ctx = Some(c);
                    sum_ret += d;
                    out.hit(&format!("write_err_{}", kind));
                    eagains_in_row += 1;
                }
            }
        } else {
            let inject_fail = sp.fail_den > 0 && rng.chance(1, sp.fail_den);
            let timeout = if inject_fail {
                Timeout::Duration(Duration::ZERO)
            } else if rng.chance(1, 16) {
                Timeout::Duration(Duration::from_millis(1))
            } else {
                Timeout::Nonblock
            };
            let cm = ctx.as_mut().unwrap();
            let r = match guard(|| cm.write_once(timeout)) {
                Ok(r) => r,
                Err(p) => {
                    viol.push(format!("write_once panicked at {} of {} bytes: {}", before, total, p));
                    lib_panic = true;
                    break;
                }
            };
            let after = pe.kernel_sent();
            let kind = res_of(&r);
            let c = ctx.as_ref().unwrap();
            match &r {
                Ok(n) => {
                    sum_ret += n;
                    steps.push(format!("a{}", n));
                    eagains_in_row = 0;
                    if after - before.min(after) != *n {
                        viol.push(format!("write_once returned {} but the kernel took {} bytes", n, after as i64 - before as i64));
                    }
                    if *n > 0 && after < total {
                        let k = if after < hdr.len() { "cut_in_header" } else if after == hdr.len() { "cut_at_seam" } else { "cut_in_body" };
                        cut_kinds.push(k);
                    }
                    if *n == 0 {
                        out.hit(if before == total { "zero_write_after_completion" } else { "zero_write_incomplete" });
                        stalled = before != total;
                    }
                }
                Err(_) => {
                    steps.push(kind.clone());
                    if after != before {
                        viol.push(format!("write_once failed ({}) but the kernel took {} bytes", kind, after as i64 - before as i64));
                    }
                    if kind == "e" {
                        eagains_in_row += 1;
                        out.hit(if before == 0 { "eagain_first" } else { "eagain_later" });
                    } else {
                        out.hit("other_error");
                    }
                }
            }
            items.push(format!("h{}o{}:{}:{}:{}", hoff, boff, kind, after, if c.all_bytes_written() { "c" } else { "p" }));
        }
        if sum_ret != pe.kernel_sent() {
            viol.push(format!("sum of returned counts {} != bytes the kernel holds {}", sum_ret, pe.kernel_sent()));
        }
        // the peer reads a chosen amount
        let pend = pe.pending();
        let want = if eagains_in_row >= 2 {
            pend
        } else {
            match rng.below(6) {
                0 => 0,
                1 => rng.range(1, 64) as usize,
                2 => rng.range(1, 4096) as usize,
                3 => pend / 2,
                _ => pend,
            }
        };
        pe.read(want.min(pend));
        if eagains_in_row >= 4 {
            pe.drain_all();
        }
    }
    if lib_panic {
        // the context is gone or in an unknown state: never run its Drop
        std::mem::forget(ctx.take());
        steps.push("LIBPANIC".into());
    }
    // how the context ends
    let end_kind = if sp.abandon_after.is_some() && rng.chance(1, 2) { EndKind::Drop } else { *rng.pick(&[EndKind::Drop, EndKind::Forget, EndKind::Progress, EndKind::Ffe]) };
    let final_sent = pe.kernel_sent();
    let mut end_tok = "none";
    let mut end_obs = "ok".to_string();
    let mut reported = done_by_write;
    if let Some(c) = ctx.take() {
        reported = Some(c.serial().get());
        let partial = final_sent != 0 && final_sent != total;
        let r = match end_kind {
            EndKind::Drop => {
                end_tok = "drop";
                guard(move || drop(c))
            }
            EndKind::Forget => {
                end_tok = "forget";
                guard(move || c.force_finish())
            }
            EndKind::Progress => {
                end_tok = "progress";
                guard(move || {
                    let _ = c.into_progress();
                })
            }
            EndKind::Ffe => {
                end_tok = "ffe";
                guard(move || {
                    let _ = force_finish_on_error((c, ()));
                })
            }
        };
        if r.is_err() {
            end_obs = "panic".into();
        }
        out.hit(&format!("end_{}_{}", end_tok, if partial { "partial" } else if final_sent == 0 { "untouched" } else { "complete" }));
        // direct: Drop panics exactly for a partially sent message, the consuming functions never
        let should_panic = end_kind == EndKind::Drop && partial;
        if r.is_err() != should_panic {
            viol.push(format!("{} of a context with {} of {} bytes sent {}", end_tok, final_sent, total, if r.is_err() { "panicked" } else { "did not panic" }));
        }
    }
    // everything the kernel took must arrive
    pe.drain_all();
    finish_checks(&mut viol, &msg, &hdr, &body, serial, reported, final_sent, total, pe, &b.fdids, files);

    let fdids_s = if b.fdids.is_empty() { "-".to_string() } else { b.fdids.iter().map(|x| x.to_string()).collect::<Vec<_>>().join(",") };
    let req = format!(
        "c10.run {} {} {} {} {} {} {} {} {}",
        hex(&hdr),
        hex(&b.pre),
        b.patlen,
        b.seed,
        hex(&b.post),
        fdids_s,
        serial,
        if steps.is_empty() { "-".to_string() } else { steps.join(",") },
        end_tok
    );
    let deliveries = if pe.deliveries.is_empty() {
        "-".to_string()
    } else {
        pe.deliveries
            .iter()
            .map(|(pos, ids)| {
                format!(
                    "{}:{}",
                    pos,
                    ids.iter().map(|i| files.iter().position(|f| f.1 == *i).map(|p| p.to_string()).unwrap_or("?".into())).collect::<Vec<_>>().join(".")
                )
            })
            .collect::<Vec<_>>()
            .join(";")
    };
    let obs = format!(
        "{} end={} sent={}/{} wire={}:{} fds={} serial={}",
        if items.is_empty() { "-".to_string() } else { items.join(",") },
        end_obs,
        final_sent,
        total,
        pe.got.len(),
        fnv32(&pe.got),
        deliveries,
        reported.unwrap_or(0)
    );
    let short_req = if req.len() > 400 { format!("{}...[{} steps, class {}]", &req[..60], steps.len(), sp.class) } else { req.clone() };
    for v in viol {
        out.violation(&short_req, &v);
    }
    cut_kinds.sort();
    cut_kinds.dedup();
    for k in cut_kinds {
        out.hit(k);
    }
    out.hit(&format!("class_{}", sp.class));
    out.hit(&format!("fds_{}", b.fdids.len()));
    out.hit(if body.is_empty() { "header_only" } else if total < 4096 { "size_lt_4k" } else if total < 65536 { "size_lt_64k" } else if total < (1 << 20) { "size_lt_1m" } else { "size_ge_1m" });
    out.hit_n("write_once_calls", ncalls as u64);
    out.case(&req, &obs, ncalls >= 2 || !b.fdids.is_empty());
}

/// Direct evaluation of the property on what the peer saw.
#[allow(clippy::too_many_arguments)]
fn finish_checks(
    viol: &mut Vec<String>,
    msg: &MarshalledMessage,
    hdr: &[u8],
    body: &[u8],
    serial: u32,
    reported: Option<u32>,
    final_sent: usize,
    total: usize,
    pe: &PeerEnd,
    fdids: &[usize],
    files: &[(RawFd, (u64, u64))],
) {
    let mut expect = hdr.to_vec();
    expect.extend_from_slice(body);
    // 1. bytes: exactly the first `final_sent` bytes of header ++ body, once, in order
    if pe.got.len() != final_sent {
        viol.push(format!("peer read {} bytes, the kernel had accepted {}", pe.got.len(), final_sent));
    }
    if pe.got.len() > expect.len() || pe.got[..] != expect[..pe.got.len()] {
        let at = pe.got.iter().zip(expect.iter()).position(|(a, b)| a != b).unwrap_or(expect.len().min(pe.got.len()));
        viol.push(format!(
            "peer bytes differ from header++body at offset {} (header {} bytes, body {} bytes, peer got {} bytes)",
            at,
            hdr.len(),
            body.len(),
            pe.got.len()
        ));
    }
    // 2. descriptors: never when nothing was accepted, exactly once (right files, right order, with the
    //    first byte) as soon as one byte was accepted
    let want_ids: Vec<(u64, u64)> = fdids.iter().map(|i| files[*i].1).collect();
    if final_sent == 0 || want_ids.is_empty() {
        if !pe.deliveries.is_empty() {
            viol.push(format!("{} descriptor deliveries although {}", pe.deliveries.len(), if final_sent == 0 { "no byte was accepted" } else { "the message has no descriptors" }));
        }
    } else if pe.deliveries.len() != 1 {
        viol.push(format!("descriptors delivered {} times (expected exactly once)", pe.deliveries.len()));
    } else {
        if pe.deliveries[0].1 != want_ids {
            viol.push("delivered descriptors are not the message's descriptors in order".into());
        }
        if pe.deliveries[0].0 != 0 {
            viol.push(format!("descriptors arrived at stream offset {} of the message, not with its first byte", pe.deliveries[0].0));
        }
    }
    // 3. the serial: reported == chosen == bytes 8..12 of what the peer received
    if reported != Some(serial) {
        viol.push(format!("reported serial {:?}, send_message chose {}", reported, serial));
    }
    if let Some(p) = msg.dynheader.serial {
        if p.get() != serial {
            viol.push(format!("preset serial {} but {} was used", p.get(), serial));
        }
    }
    if pe.got.len() >= 12 {
        let on_wire = rd_u32(pe.got[0] == b'l', &pe.got[8..12]);
        if on_wire != serial {
            viol.push(format!("serial in the transmitted header is {}, reported {}", on_wire, serial));
        }
    }
    // 4. a complete message is one well-formed frame that decodes to the message
    if final_sent == total {
        match peer::split_frames(&pe.got) {
            Some(f) if f.len() == 1 => match peer::decode_frame(&f[0]) {
                Ok(m) => {
                    if m.get_buf() != body {
                        viol.push("decoded body differs".into());
                    }
                    if m.dynheader.serial.map(|s| s.get()) != Some(serial)
                        || m.dynheader.member != msg.dynheader.member
                        || m.dynheader.object != msg.dynheader.object
                        || m.dynheader.interface != msg.dynheader.interface
                        || m.dynheader.destination != msg.dynheader.destination
                    {
                        viol.push("decoded header fields differ from the message".into());
                    }
                }
                Err(e) => viol.push(format!("received frame does not decode: {}", e)),
            },
            _ => viol.push("received bytes are not exactly one frame".into()),
        }
    }
}

fn spec_for(rng: &mut Prng, thorough: bool, i: usize) -> Spec {
    // header classes: the kernel cuts at multiples of unit = sndbuf - 64 (>= 2240)
    let class = i % 11;
    let mut sp = Spec {
        sndbuf: 0,
        filler: 0,
        hdr_target: None,
        patlen: 0,
        nfds: rng.below(4) as usize,
        with_array: true,
        suspend_num: *rng.pick(&[0, 0, 1, 2, 4]),
        fail_den: *rng.pick(&[0, 0, 8, 20]),
        abandon_after: if rng.chance(1, 5) { Some(rng.range(0, 3) as usize) } else { None },
        use_write: *rng.pick(&[0, 0, 0, 1, 3]),
        preset: if rng.chance(1, 4) { Some(*rng.pick(&[1u32, 77, 0x01020304, u32::MAX])) } else { None },
        class: "",
    };
    match class {
        0 => {
            // header only / tiny: one call
            sp.class = "tiny";
            sp.with_array = rng.chance(1, 2);
            sp.patlen = rng.below(40) as usize;
            if !sp.with_array && rng.chance(1, 2) {
                sp.nfds = 0; // really header-only
            }
        }
        1 => {
            // tiny message behind unread traffic: EAGAIN before the first byte
            sp.class = "tiny_behind_filler";
            sp.patlen = rng.below(2000) as usize;
            sp.filler = 10000;
            sp.nfds = rng.range(1, 3) as usize;
        }
        2 => {
            // cut inside a long header
            sp.class = "cut_in_header";
            // an empty queue takes two units at once: the header is longer than two (sometimes three) units
            let unit = rng.range(2240, 3700) as usize;
            let h = (unit * rng.range(2, 3) as usize + rng.range(1, 1500) as usize + 7) / 8 * 8;
            sp.hdr_target = Some(h);
            sp.sndbuf = unit as i32 + 64;
            sp.patlen = *rng.pick(&[0usize, 5, 3000, 20000]);
            sp.filler = if rng.chance(1, 3) { 3 * unit as usize } else { 0 };
        }
        3 => {
            // cut exactly at the seam: header = one or two units
            sp.class = "cut_at_seam";
            let mult = rng.range(1, 2) as usize;
            let unit = 8 * rng.range(280, 500) as usize;
            sp.hdr_target = Some(unit * mult);
            sp.sndbuf = unit as i32 + 64;
            sp.patlen = *rng.pick(&[1usize, 100, 5000, 30000]);
            // one unit: the queue must already hold one skb so that only one more is taken
            sp.filler = if mult == 1 { unit } else { 0 };
        }
        4 | 5 => {
            sp.class = "body_few_units";
            sp.sndbuf = *rng.pick(&[0, 2304, 3000, 5000]);
            sp.patlen = rng.range(2000, 40000) as usize;
            sp.filler = if rng.chance(1, 3) { rng.range(1, 12000) as usize } else { 0 };
        }
        6 | 7 => {
            sp.class = "body_many_units";
            sp.sndbuf = *rng.pick(&[0, 4000, 9000, 20000]);
            sp.patlen = rng.range(40000, 300000) as usize;
            sp.filler = if rng.chance(1, 4) { rng.range(1, 30000) as usize } else { 0 };
        }
        10 => {
            // a BIG header (20-40 KiB: beyond any buffer-retention threshold) followed by a body; suspensions and short
            // writes fall inside the header, at its end, and inside the body
            sp.class = "big_header_then_body";
            sp.hdr_target = Some(8 * rng.range(2560, 5120) as usize);
            sp.sndbuf = *rng.pick(&[2304, 4000, 9000]);
            sp.patlen = rng.range(20000, 90000) as usize;
            sp.suspend_num = *rng.pick(&[2, 4, 4]);
            sp.abandon_after = None;
        }
        8 => {
            sp.class = "default_sndbuf";
            sp.sndbuf = 106496; // the usual default (212992 effective)
            sp.patlen = rng.range(100000, 700000) as usize;
        }
        _ => {
            sp.class = "large";
            if thorough && i % 50 == 9 {
                // a few multi-MiB messages (the model walks the body list on every call)
                sp.sndbuf = *rng.pick(&[16384, 65536, 106496]);
                sp.patlen = rng.range(1 << 20, 6 << 20) as usize;
                sp.suspend_num = *rng.pick(&[0, 1]);
            } else {
                sp.sndbuf = 65536;
                sp.patlen = rng.range(300000, 1200000) as usize;
            }
        }
    }
    sp
}

/// `send_message`: the choice of the serial and the header it is marshalled into (model: `sendMessage`)
fn start_case(out: &mut Out, rng: &mut Prng, files: &[(RawFd, (u64, u64))]) {
    let (mut conn, server) = peer::connect_pair(true);
    let mut pe = PeerEnd { s: server, rx_total: 0, base: 0, got: Vec::new(), deliveries: Vec::new() };
    let mut counter: u64 = 1;
    for _ in 0..rng.below(5) {
        counter = conn.send.alloc_serial().get() as u64 + 1;
    }
    for _ in 0..4 {
        let bo = if rng.chance(1, 2) { ByteOrder::LittleEndian } else { ByteOrder::BigEndian };
        let mut msg = MarshalledMessage::with_byteorder(bo);
        msg.typ = *rng.pick(&[rustbus::MessageType::Signal, rustbus::MessageType::Call]);
        let bad = rng.chance(1, 5);
        msg.dynheader.interface = Some(if bad { "not an interface".to_string() } else { "io.k.If".to_string() });
        msg.dynheader.member = Some(rng.pick(&["Ping", "M", "LongerMemberName"]).to_string());
        msg.dynheader.object = Some(rng.pick(&["/", "/o", "/a/bb/ccc"]).to_string());
        if rng.chance(1, 2) {
            msg.dynheader.destination = Some("org.x.Dest".into());
        }
        let mut nfds = 0;
        match rng.below(3) {
            0 => {}
            1 => msg.body.push_param(rng.next() as u32).unwrap(),
            _ => {
                nfds = rng.range(1, 2) as usize;
                for _ in 0..nfds {
                    let ufd = UnixFd::new(nix::unistd::dup(files[0].0).unwrap());
                    msg.body.push_param(&ufd).unwrap();
                }
            }
        }
        let preset = if rng.chance(1, 2) { Some(*rng.pick(&[1u32, 9, 0x00010000, 0x7fffffff, u32::MAX])) } else { None };
        msg.dynheader.serial = preset.and_then(NonZeroU32::new);
        let oh = |s: &Option<String>| s.as_ref().map(|x| hex(x.as_bytes())).unwrap_or("~".into());
        let req = format!(
            "c10.start {} {} {} {} {} ~ {} {} ~ {} {} ~ {} {} {}",
            counter,
            preset.map(|p| p.to_string()).unwrap_or("~".into()),
            if bo == ByteOrder::LittleEndian { "le" } else { "be" },
            if msg.typ == rustbus::MessageType::Call { 1 } else { 4 },
            msg.flags,
            oh(&msg.dynheader.interface),
            oh(&msg.dynheader.destination),
            oh(&msg.dynheader.member),
            oh(&msg.dynheader.object),
            hex(msg.get_sig().as_bytes()),
            hex(msg.get_buf()),
            nfds
        );
        pe.drain_all();
        pe.base = pe.rx_total;
        pe.got.clear();
        pe.deliveries.clear();
        let obs = match conn.send.send_message(&msg) {
            Err(_) => {
                out.hit("start_refused");
                "refused".to_string()
            }
            Ok(ctx) => {
                let s = ctx.serial().get();
                match guard(move || ctx.write_all().map_err(force_finish_on_error)) {
                    Ok(Ok(s2)) => {
                        if s2.get() != s {
                            out.violation(&req, &format!("serial() said {} but write_all returned {}", s, s2.get()));
                        }
                    }
                    Ok(Err(e)) => out.violation(&req, &format!("write_all failed: {:?}", e)),
                    Err(p) => out.violation(&req, &format!("write_all panicked: {}", p)),
                }
                pe.drain_all();
                let hlen = pe.got.len().saturating_sub(msg.get_buf().len());
                if pe.got.len() >= 12 {
                    let on_wire = rd_u32(pe.got[0] == b'l', &pe.got[8..12]);
                    if on_wire != s {
                        out.violation(&req, &format!("reported serial {} but the transmitted header has {}", s, on_wire));
                    }
                } else {
                    out.violation(&req, "less than 12 bytes arrived");
                }
                match preset {
                    Some(p) if p != s => out.violation(&req, &format!("preset serial {} sent as {}", p, s)),
                    None if s as u64 != counter => out.violation(&req, &format!("fresh serial {} but the counter was {}", s, counter)),
                    _ => {}
                }
                out.hit(if preset.is_some() { "start_preset" } else { "start_fresh" });
                format!("started serial={} hdr={}", s, hex(&pe.got[..hlen]))
            }
        };
        let next = conn.send.alloc_serial().get() as u64;
        out.case(&req, &format!("{} next={}", obs, next), true);
        counter = next + 1;
    }
}

/// blocking `write_all` from a helper thread against a slowly draining peer
fn write_all_case(out: &mut Out, rng: &mut Prng, files: &[(RawFd, (u64, u64))], patlen: usize) {
    let (mut conn, server) = peer::connect_pair(true);
    let mut pe = PeerEnd { s: server, rx_total: 0, base: 0, got: Vec::new(), deliveries: Vec::new() };
    sockopt_set(conn.send.as_raw_fd(), libc::SO_SNDBUF, *rng.pick(&[0, 5000, 30000]));
    let nfds = rng.below(4) as usize;
    let b = build(rng, files, None, patlen, nfds, true);
    let msg = b.msg;
    let body = msg.get_buf().to_vec();
    let h = std::thread::spawn(move || {
        let r = guard(|| conn.send.send_message_write_all(&msg));
        (r, msg, conn)
    });
    // slow reader: small reads with pauses until the writer is done and the socket is empty
    let mut idle = 0;
    let mut last_progress = std::time::Instant::now();
    let mut hung = false;
    loop {
        let pend = pe.pending();
        if pend == 0 {
            if h.is_finished() {
                idle += 1;
                if idle > 2 {
                    break;
                }
            } else if last_progress.elapsed() > Duration::from_secs(10) {
                hung = true;
                break;
            }
            std::thread::sleep(Duration::from_micros(200));
            continue;
        }
        last_progress = std::time::Instant::now();
        let want = match rng.below(4) {
            0 => rng.range(1, 500) as usize,
            1 => rng.range(500, 5000) as usize,
            _ => pend,
        };
        pe.read(want);
        if rng.chance(1, 50) {
            std::thread::sleep(Duration::from_micros(300));
        }
    }
    if hung {
        // the writer thread is left behind (it dies with the process)
        out.violation(&format!("c10.run <write_all of a {}-byte pattern, {} fds>", patlen, nfds), "send_message_write_all did not return although the peer read everything it was sent");
        out.hit("blocking_write_all_hung");
        return;
    }
    let (r, msg, _conn) = h.join().unwrap();
    pe.drain_all();
    let mut viol = Vec::new();
    let serial = match r {
        Ok(Ok(s)) => s.get(),
        Ok(Err(e)) => {
            viol.push(format!("send_message_write_all failed: {:?}", e));
            0
        }
        Err(p) => {
            viol.push(format!("send_message_write_all panicked: {}", p));
            0
        }
    };
    let mut hdr = Vec::new();
    if serial != 0 {
        rustbus::wire::marshal::marshal(&msg, NonZeroU32::new(serial).unwrap(), &mut hdr).unwrap();
    }
    let total = hdr.len() + body.len();
    finish_checks(&mut viol, &msg, &hdr, &body, serial, Some(serial), total, total, &pe, &b.fdids, files);
    let fdids_s = if b.fdids.is_empty() { "-".to_string() } else { b.fdids.iter().map(|x| x.to_string()).collect::<Vec<_>>().join(",") };
    let req = format!("c10.run {} {} {} {} {} {} {} W{}k none", hex(&hdr), hex(&b.pre), b.patlen, b.seed, hex(&b.post), fdids_s, serial, total);
    let deliveries = if pe.deliveries.is_empty() {
        "-".to_string()
    } else {
        pe.deliveries
            .iter()
            .map(|(pos, ids)| format!("{}:{}", pos, ids.iter().map(|i| files.iter().position(|f| f.1 == *i).map(|p| p.to_string()).unwrap_or("?".into())).collect::<Vec<_>>().join(".")))
            .collect::<Vec<_>>()
            .join(";")
    };
    let obs = format!("W:done{}:{}:c end=ok sent={}/{} wire={}:{} fds={} serial={}", serial, total, pe.got.len(), total, pe.got.len(), fnv32(&pe.got), deliveries, serial);
    let short = format!("c10.run <write_all of {} bytes, {} fds>", total, nfds);
    for v in viol {
        out.violation(&short, &v);
    }
    out.hit("blocking_write_all");
    out.case(&req, &obs, true);
}

pub fn run(cfg: &Cfg) {
    std::panic::set_hook(Box::new(|_| {}));
    let mut out = Out::new(&cfg.outdir);
    let mut rng = Prng::new(cfg.seed);
    // a library call that never returns (e.g. `write` spinning on zero-byte writes) must not hang the check
    let limit = if cfg.thorough { 1500 } else { 400 };
    std::thread::spawn(move || {
        std::thread::sleep(Duration::from_secs(limit));
        eprintln!("C10 engine: watchdog expired, a library call did not return");
        std::process::exit(3);
    });
    let files = make_files(4);
    let n = if cfg.thorough { 600 } else { 120 };
    let mut pair: Option<(DuplexConn, PeerEnd)> = None;
    for i in 0..n {
        let sp = spec_for(&mut rng, cfg.thorough, i);
        // a fresh connection after an abandoned (partially sent) message, else reuse for a few messages
        if pair.is_none() || rng.chance(1, 4) {
            let (conn, server) = peer::connect_pair(true);
            pair = Some((conn, PeerEnd { s: server, rx_total: 0, base: 0, got: Vec::new(), deliveries: Vec::new() }));
            out.hit("connections");
        }
        let (conn, pe) = pair.as_mut().unwrap();
        scenario(&mut out, &mut rng, conn, pe, &files, &sp);
    }
    let starts = if cfg.thorough { 60 } else { 12 };
    for _ in 0..starts {
        start_case(&mut out, &mut rng, &files);
    }
    let wa: &[usize] = if cfg.thorough { &[0, 3000, 200000, 1 << 20, 3 << 20, 5 << 20] } else { &[0, 50000, 400000] };
    for p in wa {
        write_all_case(&mut out, &mut rng, &files, *p);
    }
    out.finish(
        "real DuplexConn to an in-process peer, client SO_SNDBUF 4608..212992 (kernel cuts at multiples of sndbuf/2-64), optional filler bytes queued before the message (EAGAIN before the first byte); classes: header-only/tiny, tiny behind filler, header 2.4-7 KiB with the cut inside it, header = 1 or 2 kernel units (cut exactly at the seam), bodies of a few / many units, a 20-40 KiB header followed by a body with frequent suspensions, default sndbuf, large (quick: <=1.2 MiB, thorough: 1-6 MiB); 0-3 real descriptors (memfds, fstat identity) before or after the byte array; per step randomly: write_once(Nonblock | 1 ms | the failing Duration(0)), write(Nonblock), into_progress+resume; the peer reads 0 / few / half / all pending bytes between calls; optional write_once after completion; optional abandonment after 0-4 calls; end by drop / force_finish / into_progress / force_finish_on_error; plus send_message cases (serial choice + header) and blocking send_message_write_all from a thread against a slow reader; distinct by request (header, body, observed event list); non-trivial = at least two calls or descriptors attached",
        false,
    );
}
