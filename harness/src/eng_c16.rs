//! C16: the dynamic Param API, the typed traits, derived structs / enums and the variant macros encode and
//! decode identically; unknown enum cases are an error (derive) or skipped exactly (macros); derived has_sig.
#![allow(dead_code)]
use rustbus::message_builder::MarshalledMessage;
use rustbus::wire::marshal::MarshalContext;
use rustbus::wire::unmarshal_context::UnmarshalContext;
use rustbus::wire::{ObjectPath, SignatureWrapper};
use rustbus::{dbus_variant_sig, dbus_variant_var, ByteOrder, Marshal, Signature, Unmarshal};
use rustbus_derive::{Marshal as DMarshal, Signature as DSignature, Unmarshal as DUnmarshal};
use std::collections::HashMap;
use vcore::common::*;
use vcore::eng_wire::{bo_name, guard, ORDERS};
use vcore::typed::{Cat, Var};
use vcore::val::*;

// ---- derived structs and the tuples they must be identical to ------------------------------------
#[derive(DMarshal, DUnmarshal, DSignature, Debug, PartialEq, Clone)]
struct S1 {
    a: u8,
    b: u64,
}
#[derive(DMarshal, DUnmarshal, DSignature, Debug, PartialEq, Clone)]
struct S2 {
    a: String,
    b: Vec<u64>,
    c: (u8, u32),
}
#[derive(DMarshal, DUnmarshal, DSignature, Debug, PartialEq, Clone)]
struct S3 {
    x: u32,
}
#[derive(DMarshal, DUnmarshal, DSignature, Debug, PartialEq, Clone)]
struct S4 {
    s: S1,
    m: HashMap<String, u32>,
    t: u16,
}

// generic derived structs: every instantiation is its own type with its own signature
#[derive(DMarshal, DSignature, Debug, PartialEq, Clone)]
struct G1<T: Marshal + Signature> {
    tag: u8,
    value: T,
}
#[derive(DMarshal, DSignature, Debug, PartialEq, Clone)]
struct G2<A: Marshal + Signature, B: Marshal + Signature> {
    a: A,
    b: Vec<B>,
}
#[derive(DMarshal, DUnmarshal, DSignature, Debug, PartialEq, Clone)]
struct L1<'a> {
    s: &'a str,
    n: u64,
}

// ---- derived enums -------------------------------------------------------------------------------
#[derive(DMarshal, DUnmarshal, DSignature, Debug, PartialEq)]
enum E1 {
    A(u32),
    B(String, u64),
    C { x: u8, y: Vec<u16> },
}

/// cases with exactly ONE unnamed field of every kind of type: a tuple, a derived struct, an array, a string
#[derive(DMarshal, DUnmarshal, DSignature, Debug, PartialEq)]
enum E2 {
    P((u8, String)),
    Q(S1),
    R(Vec<u8>),
    S(String),
}

type T2 = (u8, u64);
type VU = Vec<u64>;
dbus_variant_sig!(MS, CaseU => u32; CaseS => String; CaseT => T2; CaseV => VU);
dbus_variant_var!(MV, CaseU => u32; CaseS => String; CaseT => (u8, u64));

/// enums whose known case CONTAINS variants: the nesting budget of a known case becomes observable
type VMS = Vec<MS>;
#[derive(DMarshal, DUnmarshal, DSignature, Debug, PartialEq)]
enum E3 {
    W(VMS),
}
dbus_variant_sig!(MD, CaseW => VMS);

/// variants whose signature holds MORE than one complete type (the first of them a case of the enums), or none: not a valid
/// variant - every generated decoder reports an error like the generic variant decoder, whatever follows
fn enum_multi_type_signature(out: &mut Out) {
    for bo in ORDERS {
        let u = |v: u32| if bo == ByteOrder::LittleEndian { v.to_le_bytes() } else { v.to_be_bytes() };
        // (signature bytes of the variant, value bytes from a 4-aligned offset)
        let mut cases: Vec<(&str, Vec<u8>)> = Vec::new();
        cases.push(("us", [&u(7)[..], &u(2)[..], b"hi\0"].concat()));
        cases.push(("uu", [u(7), u(8)].concat()));
        cases.push(("su", [&u(2)[..], b"hi\0\0", &u(9)[..]].concat()));
        cases.push(("(yt)u", [&[1u8, 0, 0, 0, 0, 0, 0, 0][..], &[0u8; 8][..], &u(3)[..]].concat()));
        cases.push(("", Vec::new()));
        for (sig, value) in cases {
            let mut buf = vec![sig.len() as u8];
            buf.extend_from_slice(sig.as_bytes());
            buf.push(0);
            let align = if sig.starts_with('(') { 8 } else { 4 };
            while buf.len() % align != 0 {
                buf.push(0);
            }
            buf.extend_from_slice(&value);
            buf.push(0x5A);
            let generic = decode_at::<rustbus::wire::unmarshal::traits::Variant>(&buf, bo, 0).is_ok();
            if generic {
                out.violation("multi-type-variant", &format!("the generic variant decoder accepted a variant with signature {:?}", sig));
            }
            for (kind, cases_txt, name) in [("derive", "u,(st),(yaq)", "derived enum E1"), ("catchall", "u,s,(yt),at", "dbus_variant_sig enum"), ("catchall", "u,s,(yt)", "dbus_variant_var enum")] {
                let req = format!("c16.enum {} {} {} 0 {}", kind, bo_name(bo), cases_txt, hex(&buf));
                let r = guard(|| match name {
                    "derived enum E1" => decode_at::<E1>(&buf, bo, 0).map(|x| format!("{:?}", x.0)),
                    "dbus_variant_sig enum" => decode_at::<MS>(&buf, bo, 0).map(|x| format!("{:?}", x.0)),
                    _ => decode_at::<MV>(&buf, bo, 0).map(|x| format!("{:?}", x.0)),
                });
                let obs = match &r {
                    Ok(Ok(dbg)) => format!("accepted {}", dbg),
                    Ok(Err(())) => "err".to_string(),
                    Err(p) => format!("panic {}", p),
                };
                if obs != "err" {
                    out.violation(&req, &format!("{}: a variant whose signature {:?} is not exactly one type was not refused: {}", name, sig, obs));
                }
                out.hit("enum_multi_type_signature");
                out.case(&req, &obs, true);
            }
        }
    }
}

/// enum cases whose signature is longer than 255 characters: every API must REFUSE to write such a variant (the length byte
/// of a signature cannot say more than 255) - the derived enum like the typed wrapper and the Param API
type LS1 = (u8, u8, u8, u8, u8);
type LS2 = (LS1, LS1, LS1, LS1, LS1);
type LS3 = (LS2, LS2, LS2, LS2, LS2);
type LS4 = (LS3, LS3);
#[derive(DMarshal, DSignature, Debug, PartialEq)]
enum E4 {
    One(LS4),
    Two(LS3, LS3),
    Named { a: LS3, b: LS3 },
    Short(LS3),
}

fn enum_long_signature(out: &mut Out) {
    let ls1: LS1 = (1, 2, 3, 4, 5);
    let ls2: LS2 = (ls1, ls1, ls1, ls1, ls1);
    let ls3: LS3 = (ls2, ls2, ls2, ls2, ls2);
    let ls4: LS4 = (ls3, ls3);
    for bo in ORDERS {
        for phase in [0usize, 1, 7] {
            let wrapper = marshal_at(&Var(ls4), bo, phase);
            if wrapper.is_some() {
                out.violation("long-enum-signature", "the typed variant wrapper wrote a variant whose signature has 376 characters");
            }
            for (name, e) in [("one unnamed field", E4::One(ls4)), ("two unnamed fields", E4::Two(ls3, ls3)), ("named fields", E4::Named { a: ls3, b: ls3 })] {
                let got = marshal_at(&e, bo, phase);
                if let Some(bytes) = &got {
                    out.violation(
                        "long-enum-signature",
                        &format!("the derived enum wrote a case ({}) whose signature has more than 255 characters: length byte {:#x}, {} bytes [{} offset {}]; the typed wrapper refuses it", name, bytes[phase], bytes.len() - phase, bo_name(bo), phase),
                    );
                }
                out.hit("enum_case_signature_too_long");
            }
            // 187 characters are fine and agree with the wrapper
            let a = marshal_at(&E4::Short(ls3), bo, phase);
            let b = marshal_at(&Var(ls3), bo, phase);
            if a.is_none() || a != b {
                out.violation("long-enum-signature", "a case with a 187-character signature: derived enum and typed wrapper differ");
            }
        }
    }
}

/// a known case holding a tower of variants that reaches the 64-level limit from below and from above: the enum's own variant
/// level, the array and the `k` variants of the tower all count (2 + k <= 64), exactly as for the generic variant decoder
fn enum_depth(out: &mut Out) {
    for bo in ORDERS {
        for k in 56..=68usize {
            let mut tower = Vec::new();
            for _ in 1..k {
                tower.extend_from_slice(&[1, b'v', 0]);
            }
            tower.extend_from_slice(&[1, b'y', 0, 7]);
            let mut buf = vec![2, b'a', b'v', 0];
            let len = tower.len() as u32;
            buf.extend_from_slice(&if bo == ByteOrder::LittleEndian { len.to_le_bytes() } else { len.to_be_bytes() });
            buf.extend_from_slice(&tower);
            buf.push(0x5A);
            let mut val = Val::Variant(Ty::Base('y'), Box::new(Val::Num(7)));
            for _ in 1..k {
                val = Val::Variant(Ty::Variant, Box::new(val));
            }
            let ty = Ty::Array(Box::new(Ty::Variant));
            let shown = Val::Arr(vec![val]).canon(&ty).show();
            let want_ok = 2 + k <= 64;
            for (kind, name) in [("derive", "derived enum"), ("catchall", "dbus_variant_sig enum")] {
                let req = format!("c16.enum {} {} av 0 {}", kind, bo_name(bo), hex(&buf));
                let r = guard(|| if kind == "derive" { decode_at::<E3>(&buf, bo, 0).map(|x| x.1) } else { decode_at::<MD>(&buf, bo, 0).map(|x| x.1) });
                let obs = match &r {
                    Ok(Ok(n)) => format!("case 0 {} used={}", shown, n),
                    Ok(Err(())) => "err".to_string(),
                    Err(p) => format!("panic {}", p),
                };
                let got_ok = matches!(r, Ok(Ok(_)));
                if got_ok != want_ok {
                    out.violation(&req, &format!("{}: a known case nested {} levels deep in all (variant + array + {} variants) is {}", name, 2 + k, k, if got_ok { "accepted" } else { "refused" }));
                }
                out.hit(if want_ok { "enum_known_case_deep_ok" } else { "enum_known_case_too_deep" });
                out.case(&req, &obs, true);
            }
        }
    }
}

fn marshal_at<M: Marshal>(v: &M, bo: ByteOrder, phase: usize) -> Option<Vec<u8>> {
    let mut buf = vec![0u8; phase];
    let mut fds = Vec::new();
    let r = guard(|| {
        let mut ctx = MarshalContext { buf: &mut buf, fds: &mut fds, byteorder: bo };
        v.marshal(&mut ctx)
    });
    match r {
        Ok(Ok(())) => Some(buf[phase..].to_vec()),
        _ => None,
    }
}
fn sig_of<M: Signature>() -> String {
    let mut s = String::new();
    M::signature().to_str(&mut s);
    s
}
/// the signature the way the body builder asks for it (`Signature::sig_str` into a buffer that already holds something)
fn sig_str_of<M: Signature>() -> String {
    let mut b = rustbus::wire::marshal::traits::SignatureBuffer::new();
    b.push_static("yy");
    M::sig_str(&mut b);
    b.as_str()[2..].to_string()
}
/// all the ways of asking a type for its signature agree
fn sig_ways<M: Signature + Marshal>(out: &mut Out, name: &str, expect: &str, sample: &M) {
    let a = sig_of::<M>();
    let b = guard(|| sig_str_of::<M>()).unwrap_or("panic".into());
    let c = guard(|| M::has_sig(expect)).unwrap_or(false);
    // through the body builder
    let mut m1 = rustbus::message_builder::MessageBuilder::new().signal("a.b", "M", "/o").build();
    let pushed = m1.body.push_param(sample).is_ok();
    let d = m1.get_sig().to_string();
    let mut m2 = rustbus::message_builder::MessageBuilder::new().signal("a.b", "M", "/o").build();
    let pushed2 = m2.body.push_variant(sample).is_ok();
    let inner = variant_inner_sig(m2.get_buf());
    out.hit("sig_ways");
    if a != expect || b != expect || !c || !pushed || d != expect || !pushed2 || inner.as_deref() != Some(expect) {
        out.violation(
            &format!("c16.sigways {} {}", name, expect),
            &format!("signature() {:?}, sig_str {:?}, has_sig(own) {}, body signature after push_param {:?} (ok={}), signature inside push_variant {:?} (ok={}); expected {:?} everywhere", a, b, c, d, pushed, inner, pushed2, expect),
        );
    }
}
/// the signature string at the start of a body that holds one variant
fn variant_inner_sig(buf: &[u8]) -> Option<String> {
    let n = *buf.first()? as usize;
    std::str::from_utf8(buf.get(1..1 + n)?).ok().map(|s| s.to_string())
}

/// a derived struct that only marshals (generic ones): bytes and signature equal to the tuple's, decoded as the tuple
fn equiv_m<D, T>(out: &mut Out, name: &str, d: &D, t: &T)
where
    D: Marshal + Signature,
    T: Cat + std::fmt::Debug,
{
    let ty = T::ty();
    let val = t.to_val();
    sig_ways::<D>(out, name, &ty.sig(), d);
    for bo in ORDERS {
        for phase in [0usize, 1, 4, 7] {
            let a = marshal_at(d, bo, phase);
            let b = marshal_at(t, bo, phase);
            let req = format!("w.enc {} {} {} {}", bo_name(bo), phase, ty.sig(), val.show());
            if a != b || a.is_none() {
                out.violation(&req, &format!("{}: the APIs produce different bytes: derived {:?} tuple {:?}", name, a.as_ref().map(|x| hex(x)), b.as_ref().map(|x| hex(x))));
            }
            out.hit("equiv_generic_struct_case");
            out.case(&req, &a.as_ref().map(|x| hex(x)).unwrap_or("refuse".into()), true);
        }
    }
}

fn param_bytes(ty: &Ty, val: &Val, bo: ByteOrder, phase: usize) -> Option<Vec<u8>> {
    let p = to_param(ty, val, &[])?;
    let mut buf = vec![0u8; phase];
    let mut fds = Vec::new();
    let mut ctx = MarshalContext { buf: &mut buf, fds: &mut fds, byteorder: bo };
    rustbus::wire::marshal::container::marshal_param(&p, &mut ctx).ok()?;
    Some(buf[phase..].to_vec())
}
fn decode_at<'a, U: Unmarshal<'a, 'a>>(buf: &'a [u8], bo: ByteOrder, phase: usize) -> Result<(U, usize), ()> {
    let mut ctx = UnmarshalContext::new(&[], bo, buf, phase);
    match U::unmarshal(&mut ctx) {
        Ok(v) => Ok((v, buf.len() - ctx.remainder().len() - phase)),
        Err(_) => Err(()),
    }
}

/// one equivalence class: a derived value, the tuple it must equal, its (type, value) for the Param API
fn equiv<D, T>(out: &mut Out, name: &str, d: &D, t: &T, tyval: (Ty, Val), back: impl Fn(&D) -> T)
where
    D: Marshal + Signature + for<'a> Unmarshal<'a, 'a> + PartialEq + std::fmt::Debug,
    T: Cat + std::fmt::Debug,
{
    let (ty, val) = tyval;
    if sig_of::<D>() != sig_of::<T>() || sig_of::<D>() != ty.sig() {
        out.violation(name, &format!("signatures differ: derived {} tuple {} dynamic {}", sig_of::<D>(), sig_of::<T>(), ty.sig()));
    }
    for bo in ORDERS {
        for phase in 0..8usize {
            let a = marshal_at(d, bo, phase);
            let b = marshal_at(t, bo, phase);
            let c = param_bytes(&ty, &val, bo, phase);
            let req = format!("w.enc {} {} {} {}", bo_name(bo), phase, ty.sig(), val.show());
            if a != b || a != c || a.is_none() {
                out.violation(&req, &format!("{}: the APIs produce different bytes: derived {:?} tuple {:?} param {:?}", name, a.as_ref().map(|x| hex(x)), b.as_ref().map(|x| hex(x)), c.as_ref().map(|x| hex(x))));
            }
            out.hit("equiv_struct_case");
            out.case(&req, &a.as_ref().map(|x| hex(x)).unwrap_or("refuse".into()), true);
            // each API decodes what the other encoded
            if let Some(bytes) = &a {
                let mut full = vec![0u8; phase];
                full.extend_from_slice(bytes);
                full.push(0x5A);
                let dd = guard(|| decode_at::<D>(&full, bo, phase));
                let tt = guard(|| decode_at::<T>(&full, bo, phase));
                let okd = matches!(&dd, Ok(Ok((x, n))) if x == d && *n == bytes.len());
                let okt = matches!(&tt, Ok(Ok((x, n))) if x.same(t) && *n == bytes.len());
                let okb = matches!(&dd, Ok(Ok((x, _))) if back(x).same(t));
                if !okd || !okt || !okb {
                    out.violation(&req, &format!("{}: cross decoding failed: as derived {:?}, as tuple ok={}", name, dd.as_ref().map(|r| r.as_ref().map(|p| &p.0)), okt));
                }
            }
        }
    }
}

fn run_structs(out: &mut Out, rng: &mut Prng, n: usize) {
    for _ in 0..n {
        let t1 = <(u8, u64)>::gen(rng, 2);
        equiv(out, "S1", &S1 { a: t1.0, b: t1.1 }, &t1, (<(u8, u64)>::ty(), t1.to_val()), |d| (d.a, d.b));
        let t2 = <(String, Vec<u64>, (u8, u32))>::gen(rng, 2);
        equiv(out, "S2", &S2 { a: t2.0.clone(), b: t2.1.clone(), c: t2.2 }, &t2, (<(String, Vec<u64>, (u8, u32))>::ty(), t2.to_val()), |d| (d.a.clone(), d.b.clone(), d.c));
        let t3 = <(u32,)>::gen(rng, 2);
        equiv(out, "S3", &S3 { x: t3.0 }, &t3, (<(u32,)>::ty(), t3.to_val()), |d| (d.x,));
        // generic structs, several instantiations in one process, in varying order
        let order = rng.below(3);
        for k in 0..3 {
            match (k + order) % 3 {
                0 => {
                    let t = <(u8, u32)>::gen(rng, 2);
                    equiv_m(out, "G1<u32>", &G1 { tag: t.0, value: t.1 }, &t);
                }
                1 => {
                    let t = <(u8, String)>::gen(rng, 2);
                    equiv_m(out, "G1<String>", &G1 { tag: t.0, value: t.1.clone() }, &t);
                }
                _ => {
                    let t = <(u8, Vec<u64>)>::gen(rng, 2);
                    equiv_m(out, "G1<Vec<u64>>", &G1 { tag: t.0, value: t.1.clone() }, &t);
                }
            }
        }
        let g = <(u64, Vec<u8>)>::gen(rng, 2);
        equiv_m(out, "G2<u64,u8>", &G2 { a: g.0, b: g.1.clone() }, &g);
        let g = <(String, Vec<(u8, u32)>)>::gen(rng, 2);
        equiv_m(out, "G2<String,(u8,u32)>", &G2 { a: g.0.clone(), b: g.1.clone() }, &g);
        let g = <(u8, Vec<u64>)>::gen(rng, 2);
        equiv_m(out, "G2<u8,u64>", &G2 { a: g.0, b: g.1.clone() }, &g);
        let l = <(String, u64)>::gen(rng, 2);
        equiv_m(out, "L1", &L1 { s: &l.0, n: l.1 }, &l);
        let t4 = <((u8, u64), HashMap<String, u32>, u16)>::gen(rng, 2);
        let d4 = S4 { s: S1 { a: t4.0 .0, b: t4.0 .1 }, m: t4.1.clone(), t: t4.2 };
        // the map's iteration order is shared between d4.m and t4.1 only if it is the same map instance:
        // compare through a single-entry map to keep the wire order determined
        if t4.1.len() <= 1 {
            equiv(out, "S4", &d4, &t4, (<((u8, u64), HashMap<String, u32>, u16)>::ty(), t4.to_val()), |d| ((d.s.a, d.s.b), d.m.clone(), d.t));
        }
    }
}

/// enums: a value of the enum == the variant of the chosen case (typed `Var<T>`, Param variant)
fn enum_case<E, T>(
    out: &mut Out,
    name: &str,
    e: &E,
    payload: &T,
    cases: &str,
    idx: usize,
    // decode with the generated decoder and re-encode: (re-encoded bytes, consumed, debug text)
    redecode: &dyn Fn(&[u8], ByteOrder, usize) -> Result<(Option<Vec<u8>>, usize, String), ()>,
) where
    E: Marshal,
    T: Cat + Clone,
{
    let var = Var(payload.clone());
    let ty = T::ty();
    let val = Val::Variant(ty.clone(), Box::new(payload.to_val()));
    for bo in ORDERS {
        for phase in [0usize, 1, 3, 4, 7] {
            let a = marshal_at(e, bo, phase);
            let b = marshal_at(&var, bo, phase);
            let c = param_bytes(&Ty::Variant, &val, bo, phase);
            let req = format!("w.enc {} {} v {}", bo_name(bo), phase, val.show());
            if a != b || a != c || a.is_none() {
                out.violation(&req, &format!("{}: enum value and variant of its case differ: enum {:?} typed variant {:?} param {:?}", name, a.as_ref().map(|x| hex(x)), b.as_ref().map(|x| hex(x)), c.as_ref().map(|x| hex(x))));
            }
            out.case(&req, &a.as_ref().map(|x| hex(x)).unwrap_or("refuse".into()), true);
            // the generated decoder on the bytes of the generic variant, in the middle of a larger buffer
            if let Some(bytes) = &b {
                let mut full = vec![0u8; phase];
                full.extend_from_slice(bytes);
                full.push(0x5A);
                let kind = if name.starts_with("E1") || name.starts_with("E2") { "derive" } else { "catchall" };
                let req2 = format!("c16.enum {} {} {} {} {}", kind, bo_name(bo), cases, phase, hex(&full));
                let r = guard(|| redecode(&full, bo, phase));
                let obs = match &r {
                    Ok(Ok((_, n, _))) => format!("case {} {} used={}", idx, payload.to_val().canon(&ty).show(), n),
                    Ok(Err(())) => "err".to_string(),
                    Err(p) => format!("panic {}", p),
                };
                match &r {
                    Ok(Ok((again, n, dbg))) => {
                        // re-encode what was decoded: must be the same bytes (so it is the same case and payload)
                        if again.as_ref() != Some(bytes) || *n != bytes.len() {
                            out.violation(&req2, &format!("{}: decoding the variant of a known case gave {}", name, dbg));
                        }
                    }
                    _ => out.violation(&req2, &format!("{}: a known case was not decoded: {}", name, obs)),
                }
                out.hit("enum_known_case");
                out.case(&req2, &obs, true);
            }
        }
    }
}

fn re_e1(buf: &[u8], bo: ByteOrder, phase: usize) -> Result<(Option<Vec<u8>>, usize, String), ()> {
    let (v, n) = decode_at::<E1>(buf, bo, phase)?;
    Ok((marshal_at(&v, bo, phase), n, format!("{:?}", v)))
}
fn re_e2(buf: &[u8], bo: ByteOrder, phase: usize) -> Result<(Option<Vec<u8>>, usize, String), ()> {
    let (v, n) = decode_at::<E2>(buf, bo, phase)?;
    Ok((marshal_at(&v, bo, phase), n, format!("{:?}", v)))
}
fn re_ms(buf: &[u8], bo: ByteOrder, phase: usize) -> Result<(Option<Vec<u8>>, usize, String), ()> {
    let (v, n) = decode_at::<MS>(buf, bo, phase)?;
    if matches!(v, MS::Catchall(_)) {
        return Ok((None, n, format!("{:?}", v)));
    }
    Ok((marshal_at(&v, bo, phase), n, format!("{:?}", v)))
}
fn re_mv(buf: &[u8], bo: ByteOrder, phase: usize) -> Result<(Option<Vec<u8>>, usize, String), ()> {
    let mut ctx = UnmarshalContext::new(&[], bo, buf, phase);
    match MV::unmarshal(&mut ctx) {
        Ok(v) => {
            let n = buf.len() - ctx.remainder().len() - phase;
            if matches!(v, MV::Catchall(_)) {
                return Ok((None, n, format!("{:?}", v)));
            }
            Ok((marshal_at(&v, bo, phase), n, format!("{:?}", v)))
        }
        Err(_) => Err(()),
    }
}

fn run_enums(out: &mut Out, rng: &mut Prng, n: usize) {
    for _ in 0..n {
        let u = u32::gen(rng, 0);
        let s = String::gen(rng, 0);
        let t = <(u8, u64)>::gen(rng, 0);
        let su = <(String, u64)>::gen(rng, 0);
        let c = <(u8, Vec<u16>)>::gen(rng, 2);
        let vu = <Vec<u64>>::gen(rng, 2);
        enum_case(out, "E1::A", &E1::A(u), &u, "u,(st),(yaq)", 0, &re_e1);
        enum_case(out, "E1::B", &E1::B(su.0.clone(), su.1), &su, "u,(st),(yaq)", 1, &re_e1);
        enum_case(out, "E1::C", &E1::C { x: c.0, y: c.1.clone() }, &c, "u,(st),(yaq)", 2, &re_e1);
        let ys = <(u8, String)>::gen(rng, 0);
        let yt = <(u8, u64)>::gen(rng, 0);
        let ay = <Vec<u8>>::gen(rng, 2);
        enum_case(out, "E2::P", &E2::P(ys.clone()), &ys, "(ys),(yt),ay,s", 0, &re_e2);
        enum_case(out, "E2::Q", &E2::Q(S1 { a: yt.0, b: yt.1 }), &yt, "(ys),(yt),ay,s", 1, &re_e2);
        enum_case(out, "E2::R", &E2::R(ay.clone()), &ay, "(ys),(yt),ay,s", 2, &re_e2);
        enum_case(out, "E2::S", &E2::S(s.clone()), &s, "(ys),(yt),ay,s", 3, &re_e2);
        enum_case(out, "MS::U", &MS::CaseU(u), &u, "u,s,(yt),at", 0, &re_ms);
        enum_case(out, "MS::S", &MS::CaseS(s.clone()), &s, "u,s,(yt),at", 1, &re_ms);
        enum_case(out, "MS::T", &MS::CaseT(t), &t, "u,s,(yt),at", 2, &re_ms);
        enum_case(out, "MS::V", &MS::CaseV(vu.clone()), &vu, "u,s,(yt),at", 3, &re_ms);
        enum_case(out, "MV::U", &MV::CaseU(u), &u, "u,s,(yt)", 0, &re_mv);
        enum_case(out, "MV::S", &MV::CaseS(s.clone()), &s, "u,s,(yt)", 1, &re_mv);
        enum_case(out, "MV::T", &MV::CaseT(t), &t, "u,s,(yt)", 2, &re_mv);
    }
}

/// unknown cases: a variant of a catalogue type the enums do not know, between two other values of a body.
/// Only this small part is generic (instantiated once per catalogue type); the probing is not.
fn unknown_prepare<T: Cat>(rng: &mut Prng) -> Option<(String, ByteOrder, usize, MarshalledMessage)> {
    let ty = T::ty();
    let sig = ty.sig();
    if ["u", "s", "(yt)", "at", "(st)", "(yaq)"].contains(&sig.as_str()) {
        return None;
    }
    let v = T::gen(rng, 2);
    let bo = *rng.pick(&ORDERS);
    let mut msg = MarshalledMessage::with_byteorder(bo);
    let lead = rng.range(0, 7) as usize;
    for i in 0..lead {
        msg.body.push_param(i as u8).unwrap();
    }
    if msg.body.push_variant(&v).is_err() {
        return None;
    }
    msg.body.push_param(0x4Du8).unwrap();
    msg.body.push_param(0xCAFEu16).unwrap();
    Some((sig, bo, lead, msg))
}

fn unknown_case(out: &mut Out, prepared: Option<(String, ByteOrder, usize, MarshalledMessage)>) {
    let (sig, bo, lead, msg) = match prepared {
        Some(x) => x,
        None => return,
    };
    let buf = msg.get_buf().to_vec();
    // byte offset where the variant starts = lead (u8 parameters, variant alignment 1)
    macro_rules! probe {
        ($e:ty, $kind:expr, $cases:expr, $name:expr) => {{
            let req = format!("c16.enum {} {} {} {} {}", $kind, bo_name(bo), $cases, lead, hex(&buf));
            let r = guard(|| {
                let mut p = msg.body.parser();
                for _ in 0..lead {
                    let _: u8 = p.get().map_err(|_| "lead")?;
                }
                let e = p.get::<$e>();
                let after1 = p.get::<u8>();
                let after2 = p.get::<u16>();
                Ok::<_, &str>((e.map(|x| format!("{:?}", x)).map_err(|_| ()), after1.ok(), after2.ok()))
            });
            match r {
                Ok(Ok((Ok(dbg), a1, a2))) => {
                    // skipped: exactly that value — the values after it are intact
                    if a1 != Some(0x4D) || a2 != Some(0xCAFE) {
                        out.violation(&req, &format!("{} skipped an unknown case ({}) but the following values read as {:?} {:?}", $name, dbg, a1, a2));
                    }
                    if !dbg.starts_with("Catchall") {
                        out.violation(&req, &format!("{} decoded an unknown case as {}", $name, dbg));
                    }
                    // consumed = total - 1 - (pad to 2 + 2)
                    let mut used_end = buf.len() - 2;
                    if buf[used_end - 1] == 0 && buf[used_end - 2] == 0x4D {
                        used_end -= 1;
                    }
                    let used = used_end - 1 - lead;
                    out.hit("enum_unknown_skipped");
                    out.case(&req, &format!("catchall {} used={}", sig, used), true);
                }
                Ok(Ok((Err(()), a1, _))) => {
                    // error: the parser must not have moved (the next get still sees the variant, not the u8)
                    if a1.is_some() {
                        out.violation(&req, &format!("{} reported an error for an unknown case but the parser moved on", $name));
                    }
                    out.hit("enum_unknown_error");
                    out.case(&req, "err", true);
                }
                other => out.violation(&req, &format!("{}: unexpected {:?}", $name, other)),
            }
        }};
    }
    probe!(E1, "derive", "u,(st),(yaq)", "derived enum");
    probe!(MS, "catchall", "u,s,(yt),at", "dbus_variant_sig enum");
    probe!(MV, "catchall", "u,s,(yt)", "dbus_variant_var enum");
}

fn run_unknown(out: &mut Out, rng: &mut Prng, rounds: usize) {
    for _ in 0..rounds {
        macro_rules! m {
            ($t:ty) => {
                {
                    let p = unknown_prepare::<$t>(rng);
                    unknown_case(out, p)
                }
            };
        }
        vcore::for_each_catalogue_type!(m);
    }
}

/// The conversions of `params::conversion`: a Rust value turned into a `Param` by `From` (by value and by reference) is
/// the same value: same bytes and signature as the typed API gives, and `TryFrom<&Base>` gives the value back bit for bit.
fn run_conversions(out: &mut Out) {
    use rustbus::params::{Base, Container, Param};
    use std::convert::TryFrom;
    fn bytes_of_param(p: &Param, bo: ByteOrder, phase: usize) -> Option<Vec<u8>> {
        let mut buf = vec![0u8; phase];
        let mut fds = Vec::new();
        let mut ctx = MarshalContext { buf: &mut buf, fds: &mut fds, byteorder: bo };
        rustbus::wire::marshal::container::marshal_param(p, &mut ctx).ok()?;
        Some(buf[phase..].to_vec())
    }
    fn sig_of_param(p: &Param) -> String {
        let mut s = String::new();
        p.sig().to_str(&mut s);
        s
    }
    macro_rules! conv {
        ($t:ty, $code:expr, $vals:expr, $bits:expr) => {{
            let vals: Vec<$t> = $vals;
            for v in vals {
                let name = format!("{}:{:?}", $code, $bits(&v));
                let by_val: Param = Param::from(v.clone());
                let base_ref: Base = Base::from(&v);
                let by_ref: Param = Param::Base(base_ref);
                for bo in ORDERS {
                    for phase in [0usize, 5] {
                        let want = marshal_at(&v, bo, phase);
                        let a = bytes_of_param(&by_val, bo, phase);
                        let b = bytes_of_param(&by_ref, bo, phase);
                        out.hit("conversion_case");
                        if a != want || b != want || want.is_none() {
                            out.violation(
                                &format!("c16.conv {} {} {}", name, bo_name(bo), phase),
                                &format!("Param::from(value) {:?}, Param::from(&value) {:?}, typed marshal {:?}", a.as_ref().map(|x| hex(x)), b.as_ref().map(|x| hex(x)), want.as_ref().map(|x| hex(x))),
                            );
                        }
                    }
                }
                if sig_of_param(&by_val) != $code || sig_of_param(&by_ref) != $code {
                    out.violation(&format!("c16.conv {}", name), &format!("signature of the converted Param is {:?} / {:?}", sig_of_param(&by_val), sig_of_param(&by_ref)));
                }
                // and back
                if let Param::Base(b) = &by_val {
                    match <$t>::try_from(b) {
                        Ok(back) => {
                            if $bits(&back) != $bits(&v) {
                                out.violation(&format!("c16.conv {}", name), &format!("TryFrom<&Base> gives {:?} back", $bits(&back)));
                            }
                        }
                        Err(_) => out.violation(&format!("c16.conv {}", name), "TryFrom<&Base> of the converted value fails"),
                    }
                }
            }
        }};
    }
    conv!(u8, "y", vec![0, 1, 0x7f, 0x80, 0xff], |v: &u8| *v as u64);
    conv!(u16, "q", vec![0, 1, 0x0102, 0x8000, 0xffff], |v: &u16| *v as u64);
    conv!(u32, "u", vec![0, 1, 0x01020304, 0x80000000, u32::MAX], |v: &u32| *v as u64);
    conv!(u64, "t", vec![0, 1, 0x0102030405060708, 1 << 63, u64::MAX], |v: &u64| *v);
    conv!(i16, "n", vec![0, -1, 0x0102, i16::MIN, i16::MAX], |v: &i16| *v as u16 as u64);
    conv!(i32, "i", vec![0, -1, 0x01020304, i32::MIN, i32::MAX], |v: &i32| *v as u32 as u64);
    conv!(i64, "x", vec![0, -1, 0x0102030405060708, i64::MIN, i64::MAX], |v: &i64| *v as u64);
    conv!(bool, "b", vec![false, true], |v: &bool| *v as u64);
    conv!(
        f64,
        "d",
        vec![0.0, -0.0, 1.5, -1.5, f64::INFINITY, f64::NEG_INFINITY, f64::MIN_POSITIVE, f64::from_bits(1), f64::from_bits(0x8000000000000001), f64::from_bits(0x7ff8000000000001), f64::from_bits(0xfff8000000000000), f64::from_bits(0x7ff0000000000001), f64::from_bits(0x0102030405060708), f64::MAX, f64::MIN],
        |v: &f64| v.to_bits()
    );
    // strings: owned and borrowed
    for s in ["", "a", "hello", "\u{fc}n\u{ef}", "12345678", "a b"] {
        let owned: Param = Param::from(s.to_string());
        let borrowed: Param = Param::from(s);
        for bo in ORDERS {
            for phase in [0usize, 3] {
                let want = marshal_at(&s, bo, phase);
                let a = bytes_of_param(&owned, bo, phase);
                let b = bytes_of_param(&borrowed, bo, phase);
                out.hit("conversion_case");
                if a != want || b != want || want.is_none() {
                    out.violation(&format!("c16.conv s:{:?} {} {}", s, bo_name(bo), phase), &format!("Param::from(String) {:?}, Param::from(&str) {:?}, typed {:?}", a.map(|x| hex(&x)), b.map(|x| hex(&x)), want.map(|x| hex(&x))));
                }
            }
        }
        // (the owned variant converts back to String, the borrowed one to &str: each its own way)
        if let (Param::Base(bo_), Param::Base(bb)) = (&owned, &borrowed) {
            if String::try_from(bo_).ok().as_deref() != Some(s) || <&str>::try_from(bb).ok() != Some(s) {
                out.violation(&format!("c16.conv s:{:?}", s), "TryFrom<&Base> for String (owned) / &str (borrowed) does not give the string back");
            }
        }
    }
    // containers built by TryFrom: an array from its elements (element type inferred / given), a mismatching element refused
    let elems: Vec<Param> = vec![Param::from(1u32), Param::from(0x01020304u32), Param::from(u32::MAX)];
    let typed: Vec<u32> = vec![1, 0x01020304, u32::MAX];
    let inferred = Container::try_from(elems.clone()).map(Param::from);
    let given = Container::try_from((<u32 as Signature>::signature(), elems.clone())).map(Param::from);
    for (how, c) in [("inferred", inferred), ("given", given)] {
        match c {
            Ok(p) => {
                for bo in ORDERS {
                    for phase in [0usize, 1, 4] {
                        out.hit("conversion_case");
                        if bytes_of_param(&p, bo, phase) != marshal_at(&typed, bo, phase) {
                            out.violation(&format!("c16.conv array-{} {} {}", how, bo_name(bo), phase), "Container::try_from(elements) and Vec<u32> give different bytes");
                        }
                    }
                }
            }
            Err(_) => out.violation(&format!("c16.conv array-{}", how), "Container::try_from refused a homogeneous array"),
        }
    }
    let mixed: Vec<Param> = vec![Param::from(1u32), Param::from("x")];
    if Container::try_from(mixed.clone()).is_ok() || Container::try_from((<u32 as Signature>::signature(), mixed)).is_ok() {
        out.violation("c16.conv array-mixed", "Container::try_from accepted an array whose elements have different types");
    }
    out.hit("conversions_done");
}

/// has_sig of catalogue types and of the derived structs against many valid signatures
fn run_has_sig(out: &mut Out, rng: &mut Prng, per_type: usize) {
    let mut sigs: Vec<String> = Vec::new();
    macro_rules! collect {
        ($t:ty) => {
            sigs.push(<$t as Cat>::ty().sig())
        };
    }
    vcore::for_each_catalogue_type!(collect);
    sigs.extend(["(yt)", "(y)", "(ytu)", "(ty)", "(saq(yu))", "(sat(yu))", "(sat(yu)u)", "(u)", "((yt)a{su}q)", "((yt)a{su})", "((yt)a{su}qq)", "((y)a{su}q)", "a{sv}", "aa{sv}", "a(yt)", "(((u)))"].iter().map(|s| s.to_string()));
    sigs.sort();
    sigs.dedup();
    let mut one = |out: &mut Out, ty_sig: String, f: &dyn Fn(&str) -> bool, all: bool, rng: &mut Prng| {
        let n = if all { sigs.len() } else { per_type };
        for k in 0..n {
            let s = if all { sigs[k].clone() } else if k == 0 { ty_sig.clone() } else { rng.pick(&sigs).clone() };
            let req = format!("c16.hassig {} {}", ty_sig, s);
            let r = guard(|| f(&s));
            let obs = match r {
                Ok(b) => b.to_string(),
                Err(_) => "panic".to_string(),
            };
            // directly: has_sig must answer "is this my signature", and never panic on a valid signature
            if obs != (s == ty_sig).to_string() {
                out.violation(&req, &format!("has_sig({:?}) of the type with signature {:?} answered {}", s, ty_sig, obs));
            }
            out.hit(if s == ty_sig { "has_sig_match" } else { "has_sig_mismatch" });
            out.case(&req, &obs, true);
        }
    };
    let mut table: Vec<(String, fn(&str) -> bool)> = Vec::new();
    macro_rules! hs {
        ($t:ty) => {
            table.push((<$t as Cat>::ty().sig(), <$t as Signature>::has_sig as fn(&str) -> bool))
        };
    }
    vcore::for_each_catalogue_type!(hs);
    for (ty_sig, f) in table {
        one(out, ty_sig, &|s| f(s), false, rng);
    }
    // every way of asking a catalogue type for its signature
    macro_rules! ways {
        ($t:ty) => {{
            let v = <$t as Cat>::gen(rng, 1);
            sig_ways::<$t>(out, stringify!($t), &<$t as Cat>::ty().sig(), &v);
        }};
    }
    vcore::for_each_catalogue_type!(ways);
    // derived structs against every signature of the pool
    one(out, "(yt)".into(), &|s| S1::has_sig(s), true, rng);
    one(out, "(sat(yu))".into(), &|s| S2::has_sig(s), true, rng);
    one(out, "(u)".into(), &|s| S3::has_sig(s), true, rng);
    one(out, "((yt)a{su}q)".into(), &|s| S4::has_sig(s), true, rng);
}

pub fn run(cfg: &Cfg) {
    std::panic::set_hook(Box::new(|_| {}));
    let mut out = Out::new(&cfg.outdir);
    let mut rng = Prng::new(cfg.seed);
    run_structs(&mut out, &mut rng, if cfg.thorough { 200 } else { 12 });
    run_enums(&mut out, &mut rng, if cfg.thorough { 200 } else { 12 });
    run_unknown(&mut out, &mut rng, if cfg.thorough { 8 } else { 1 });
    run_has_sig(&mut out, &mut rng, if cfg.thorough { 60 } else { 8 });
    run_conversions(&mut out);
    let _ = (ObjectPath::new("/").is_ok(), SignatureWrapper::new("").is_ok());
    enum_depth(&mut out);
    enum_long_signature(&mut out);
    enum_multi_type_signature(&mut out);
    // the dynamic API against itself and the validator on hand-built Param trees: borrowed / owned string-likes at every
    // alignment phase, the deepest legal values (what the Param API writes, the validator accepts and the Param API reads
    // back as the same value), ill-typed trees refused
    {
        let mut r2 = Prng::new(cfg.seed ^ 0x16f);
        vcore::eng_wire::run_illformed_params(&mut out, &mut r2);
    }
    out.finish(
        "the conversions of params::conversion (Param::from by value and by reference for every basic type at boundary values incl. -0.0, NaN payloads, extreme integers; TryFrom<&Base> back; arrays through Container::try_from) vs the typed API; generic derived structs (G1<T> at three T, G2<A,B> at three (A,B), a lifetime-generic one; several instantiations per process in varying order) vs the tuple of their fields: bytes and the signature asked five ways (signature(), sig_str into a non-empty buffer, has_sig, body signature after push_param, signature inside push_variant), the same five ways for every catalogue type; 4 derived structs vs the tuple of their fields vs the Param tree (bytes, signature, cross decoding) x generated values x {LE,BE} x 8 offsets; 3 + 4 cases of two derived enums (named fields, several unnamed fields, ONE unnamed field that is a tuple / a derived struct / an array / a string), 4 of a dbus_variant_sig! enum, 3 of a dbus_variant_var! enum vs the typed variant wrapper vs the Param variant; variants of every catalogue type outside the enums' cases placed between other values of a body (error without moving / Catchall with the following values intact); has_sig of every catalogue type and of the derived structs against valid signatures (shorter, longer, different structs included); distinct by request",
        false,
    );
}
