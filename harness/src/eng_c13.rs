//! C13: serial allocation on a real SendConn (serials decoded from the bytes at the peer), reply
//! constructors over generated received headers.
use vcore::common::*;
use vcore::eng_wire::guard;
use vcore::peer;
use rustbus::message_builder::{DynamicHeader, MarshalledMessage, MessageBuilder};
use rustbus::connection::ll_conn::{SendMessageContext, SendMessageState};
use rustbus::connection::Timeout;
use std::num::NonZeroU32;

fn opt_cps(o: &Option<String>) -> String {
    match o {
        Some(s) => cps(s),
        None => "~".into(),
    }
}

fn history(out: &mut Out, rng: &mut Prng, len: usize, check_overflow: bool) {
    let (mut conn, mut server) = peer::connect_pair(false);
    let mut ops: Vec<String> = Vec::new();
    let mut observed: Vec<u64> = Vec::new();
    let mut max_fresh: u64 = 0;
    let mut bad: Option<String> = None;
    for _ in 0..len {
        let r = rng.below(11);
        if r == 10 {
            // a burst of same-shaped answers to different calls of one client, back to back on this connection (what a
            // service does): each must carry ITS call's serial as reply serial, and a fresh serial of its own
            let burst = 2 + rng.below(2);
            let kind = rng.below(3);
            for b in 0..burst {
                let call_serial = 0x0100 + (ops.len() as u32) * 7 + b as u32;
                let call = DynamicHeader { serial: NonZeroU32::new(call_serial), sender: Some(":1.5".into()), member: Some("M".into()), interface: Some("a.b".into()), object: Some("/o".into()), ..Default::default() };
                let reply = match kind {
                    0 => call.make_response(),
                    1 => call.make_error_response("a.b.Err", None),
                    _ => rustbus::standard_messages::unknown_method(&call),
                };
                let reported = conn.send.send_message(&reply).unwrap().write_all().map_err(|e| e.1).unwrap().get() as u64;
                let bytes = peer::drain(&mut server);
                let frames = peer::split_frames(&bytes).unwrap_or_default();
                if frames.len() != 1 {
                    bad = Some(format!("{} frames on the wire for one reply", frames.len()));
                    break;
                }
                let m = peer::decode_frame(&frames[0]).unwrap();
                let on_wire = m.dynheader.serial.unwrap().get() as u64;
                if m.dynheader.response_serial.map(|x| x.get()) != Some(call_serial) || m.dynheader.destination.as_deref() != Some(":1.5") {
                    bad = Some(format!("answer {} of a burst: reply serial {:?} destination {:?} on the wire, the call had serial {} from :1.5", b, m.dynheader.response_serial, m.dynheader.destination, call_serial));
                }
                if on_wire != reported || on_wire == 0 || on_wire <= max_fresh {
                    bad = Some(format!("answer sent with serial {} (reported {}) after {}", on_wire, reported, max_fresh));
                }
                max_fresh = on_wire;
                ops.push("s".into());
                observed.push(on_wire);
            }
            continue;
        }
        if r < 3 {
            ops.push("a".into());
            let s = conn.send.alloc_serial().get() as u64;
            observed.push(s);
            if s == 0 || s <= max_fresh {
                bad = Some(format!("alloc_serial returned {} after {}", s, max_fresh));
            }
            max_fresh = s;
        } else {
            let preset: Option<u32> = if r < 6 {
                Some(match rng.below(4) {
                    0 => 1,
                    1 => u32::MAX,
                    2 => (max_fresh as u32).max(1),
                    _ => 1 + rng.below(1000) as u32,
                })
            } else {
                None
            };
            // either byte order: the serial travels in the message's order, whatever the machine's is
            let bo = if rng.chance(1, 2) { rustbus::ByteOrder::BigEndian } else { rustbus::ByteOrder::LittleEndian };
            let mut msg: MarshalledMessage = MessageBuilder::with_byteorder(bo).signal("a.b", "M", "/o").build();
            msg.dynheader.serial = preset.and_then(NonZeroU32::new);
            if rng.chance(1, 2) {
                msg.body.push_param(rng.next()).unwrap();
            }
            let reported = conn.send.send_message(&msg).unwrap().write_all().map_err(|e| e.1).unwrap().get() as u64;
            let bytes = peer::drain(&mut server);
            let frames = peer::split_frames(&bytes).unwrap_or_default();
            if frames.len() != 1 {
                bad = Some(format!("{} frames on the wire for one send", frames.len()));
                break;
            }
            let m = peer::decode_frame(&frames[0]).unwrap();
            let on_wire = m.dynheader.serial.unwrap().get() as u64;
            if on_wire != reported {
                bad = Some(format!("write_all reported serial {} but the transmitted header has {}", reported, on_wire));
            }
            match preset {
                Some(p) => {
                    ops.push(format!("p{}", p));
                    if on_wire != p as u64 {
                        bad = Some(format!("preset serial {} sent as {}", p, on_wire));
                    }
                }
                None => {
                    ops.push("s".into());
                    if on_wire == 0 || on_wire <= max_fresh {
                        bad = Some(format!("send issued serial {} after {}", on_wire, max_fresh));
                    }
                    max_fresh = on_wire;
                }
            }
            observed.push(on_wire);
        }
    }
    let next = conn.send.alloc_serial().get();
    let req = format!("c13.run 1 {}", ops.join(","));
    if let Some(b) = bad {
        out.violation(&req, &b);
    }
    let obs = format!(
        "{} next={}",
        if observed.is_empty() { "-".to_string() } else { observed.iter().map(|x| x.to_string()).collect::<Vec<_>>().join(",") },
        next
    );
    out.hit("history");
    out.hit_n("history_ops", ops.len() as u64);
    out.case(&req, &obs, ops.len() >= 2);
    if check_overflow {
        // drive the counter to u32::MAX and look at the overflow branch
        let mut last = next;
        while last < u32::MAX - 1 {
            last = conn.send.alloc_serial().get();
        }
        // counter is now u32::MAX: alloc must panic ("run out of serials"), as the model says
        let r = guard(|| conn.send.alloc_serial().get());
        let obs = match r {
            Ok(s) => format!("{} next=?", s),
            Err(_) => "panic".to_string(),
        };
        out.hit("overflow_probe");
        out.case(&format!("c13.run {} a", u32::MAX), &obs, true);
    }
}


/// ONE message object sent again and again through an `RpcConn` (the `body.reset()` reuse pattern), other sends and
/// explicit allocations in between: every transmission gets a fresh, larger serial; what is reported is what is on the wire
fn reuse_history(out: &mut Out, rng: &mut Prng) {
    let (conn, mut server) = peer::connect_pair(false);
    let mut rpc = rustbus::connection::rpc_conn::RpcConn::new(conn);
    let bo = if rng.chance(1, 2) { rustbus::ByteOrder::BigEndian } else { rustbus::ByteOrder::LittleEndian };
    let mut reused: MarshalledMessage = MessageBuilder::with_byteorder(bo).call("M").on("/o").with_interface("a.b").at("a.b").build();
    let mut ops: Vec<String> = Vec::new();
    let mut observed: Vec<u64> = Vec::new();
    let mut max_fresh = 0u64;
    let mut bad: Option<String> = None;
    let n = 3 + rng.below(5);
    for k in 0..n {
        match rng.below(4) {
            0 => {
                let s = rpc.alloc_serial().get() as u64;
                ops.push("a".into());
                observed.push(s);
                if s <= max_fresh {
                    bad = Some(format!("alloc_serial returned {} after {}", s, max_fresh));
                }
                max_fresh = s;
            }
            1 => {
                let mut other: MarshalledMessage = MessageBuilder::new().signal("a.b", "S", "/o").build();
                let reported = rpc.send_message(&mut other).unwrap().write_all().map_err(|e| e.1).unwrap().get() as u64;
                let on_wire = wire_serial(&peer::drain(&mut server));
                ops.push("s".into());
                observed.push(on_wire);
                if on_wire != reported || on_wire <= max_fresh {
                    bad = Some(format!("another message sent with serial {} (reported {}) after {}", on_wire, reported, max_fresh));
                }
                max_fresh = on_wire;
            }
            _ => {
                reused.body.reset();
                reused.body.push_param(k as u32).unwrap();
                let reported = rpc.send_message(&mut reused).unwrap().write_all().map_err(|e| e.1).unwrap().get() as u64;
                let on_wire = wire_serial(&peer::drain(&mut server));
                ops.push("s".into());
                observed.push(on_wire);
                if on_wire != reported || on_wire == 0 || on_wire <= max_fresh {
                    bad = Some(format!("transmission {} of a reused message object went out with serial {} (reported {}) after {}", k, on_wire, reported, max_fresh));
                }
                max_fresh = on_wire;
            }
        }
    }
    let next = rpc.alloc_serial().get();
    let req = format!("c13.run 1 {}", ops.join(","));
    if let Some(b) = bad {
        out.violation(&req, &b);
    }
    let obs = format!("{} next={}", observed.iter().map(|x| x.to_string()).collect::<Vec<_>>().join(","), next);
    out.hit("reused_message_history");
    out.case(&req, &obs, true);
}

/// serial field of the first frame in `bytes` read by hand (offset 8, byte order from byte 0)
fn wire_serial(frame: &[u8]) -> u64 {
    let a = [frame[8], frame[9], frame[10], frame[11]];
    (if frame[0] == b'l' { u32::from_le_bytes(a) } else { u32::from_be_bytes(a) }) as u64
}

struct Pending {
    msg: MarshalledMessage,
    st: SendMessageState,
    reported: u64,
    at_peer: Vec<u8>,
    partial: bool,
}

/// Histories that also suspend a send (before anything was written, or after a short write), allocate serials
/// while it is suspended, and resume it or give it up.
fn history2(out: &mut Out, rng: &mut Prng, len: usize) {
    let (mut conn, mut server) = peer::connect_pair(false);
    let mut ops: Vec<String> = Vec::new();
    let mut evs: Vec<String> = Vec::new();
    let mut max_fresh: u64 = 0;
    let mut bad: Vec<String> = Vec::new();
    let mut pending: Option<Pending> = None;
    let mut broken = false;
    let mut i = 0;
    while i < len || pending.is_some() {
        i += 1;
        let r = rng.below(100);
        if let Some(mut p) = pending.take() {
            if r < 50 && i < len + 4 {
                ops.push("a".into());
                let s = conn.send.alloc_serial().get() as u64;
                evs.push(format!("i{}", s));
                if s == 0 || s <= max_fresh {
                    bad.push(format!("alloc_serial returned {} after {} (a send reporting serial {} is suspended)", s, max_fresh, p.reported));
                }
                max_fresh = s;
                if p.partial && rng.chance(1, 3) {
                    p.at_peer.extend(peer::drain(&mut server));
                }
                pending = Some(p);
            } else if r < 88 || p.partial || i >= len {
                ops.push("r".into());
                out.hit(if p.partial { "resume_after_short_write" } else { "resume_before_first_byte" });
                let mut ctx = SendMessageContext::resume(&mut conn.send, &p.msg, p.st);
                let mut spins = 0;
                let reported = loop {
                    match ctx.write(Timeout::Nonblock) {
                        Ok(s) => break Some(s.get() as u64),
                        Err((c, _)) => {
                            ctx = c;
                            p.at_peer.extend(peer::drain(&mut server));
                            spins += 1;
                            if spins > 100000 {
                                ctx.force_finish();
                                break None;
                            }
                        }
                    }
                };
                p.at_peer.extend(peer::drain(&mut server));
                let frames = peer::split_frames(&p.at_peer).unwrap_or_default();
                if reported.is_none() || frames.len() != 1 {
                    bad.push(format!("resumed send did not put exactly one frame on the wire ({} frames, {} bytes)", frames.len(), p.at_peer.len()));
                    broken = true;
                    break;
                }
                let on_wire = wire_serial(&frames[0]);
                evs.push(format!("w{}", on_wire));
                if on_wire != p.reported {
                    bad.push(format!("send_message reported serial {} before the suspension, the resumed message was transmitted with {}", p.reported, on_wire));
                }
                if reported != Some(on_wire) {
                    bad.push(format!("resumed write reported serial {:?}, the transmitted header has {}", reported, on_wire));
                }
            } else {
                // give the suspended send up (nothing was written: the connection stays usable)
                ops.push("x".into());
                out.hit("abandon");
                drop(p);
            }
            continue;
        }
        if r < 25 {
            ops.push("a".into());
            let s = conn.send.alloc_serial().get() as u64;
            evs.push(format!("i{}", s));
            if s == 0 || s <= max_fresh {
                bad.push(format!("alloc_serial returned {} after {}", s, max_fresh));
            }
            max_fresh = s;
            continue;
        }
        let preset: Option<u32> = if rng.chance(1, 4) {
            Some(match rng.below(3) {
                0 => (max_fresh as u32).max(1),
                1 => 0x01020304,
                _ => 1 + rng.below(1000) as u32,
            })
        } else {
            None
        };
        let suspend = r >= 50;
        let partial = suspend && r >= 75;
        let mut msg: MarshalledMessage = MessageBuilder::new().signal("a.b", "M", "/o").build();
        msg.dynheader.serial = preset.and_then(NonZeroU32::new);
        if partial {
            // larger than the socket buffer: a non-blocking write stops inside the message
            let big = vec![0x5au8; 600_000 + rng.below(1000) as usize];
            msg.body.push_param(&big[..]).unwrap();
        } else if rng.chance(1, 2) {
            msg.body.push_param(rng.next()).unwrap();
        }
        if !suspend {
            let reported = conn.send.send_message(&msg).unwrap().write_all().map_err(|e| e.1).unwrap().get() as u64;
            let bytes = peer::drain(&mut server);
            let frames = peer::split_frames(&bytes).unwrap_or_default();
            if frames.len() != 1 {
                bad.push(format!("{} frames on the wire for one send", frames.len()));
                broken = true;
                break;
            }
            let on_wire = wire_serial(&frames[0]);
            ops.push(match preset { Some(p) => format!("p{}", p), None => "s".into() });
            evs.push(format!("i{}", reported));
            evs.push(format!("w{}", on_wire));
            if on_wire != reported {
                bad.push(format!("write_all reported serial {} but the transmitted header has {}", reported, on_wire));
            }
            match preset {
                Some(p) => {
                    if on_wire != p as u64 {
                        bad.push(format!("preset serial {} sent as {}", p, on_wire));
                    }
                }
                None => {
                    if on_wire == 0 || on_wire <= max_fresh {
                        bad.push(format!("send issued serial {} after {}", on_wire, max_fresh));
                    }
                    max_fresh = on_wire;
                }
            }
            continue;
        }
        // suspended send
        let ctx = conn.send.send_message(&msg).unwrap();
        let reported = ctx.serial().get() as u64;
        let mut at_peer = Vec::new();
        let (st, really_partial) = if partial {
            match ctx.write(Timeout::Nonblock) {
                Ok(_) => {
                    // the kernel took everything: this is an ordinary send after all
                    at_peer.extend(peer::drain(&mut server));
                    let frames = peer::split_frames(&at_peer).unwrap_or_default();
                    ops.push(match preset { Some(p) => format!("p{}", p), None => "s".into() });
                    evs.push(format!("i{}", reported));
                    evs.push(format!("w{}", if frames.len() == 1 { wire_serial(&frames[0]) } else { 0 }));
                    if preset.is_none() {
                        max_fresh = reported;
                    }
                    continue;
                }
                Err((c, _)) => (c.into_progress(), true),
            }
        } else {
            (ctx.into_progress(), false)
        };
        ops.push(match preset { Some(p) => format!("B{}", p), None => "b".into() });
        out.hit(if really_partial { "suspend_after_short_write" } else { "suspend_before_first_byte" });
        evs.push(format!("i{}", reported));
        match preset {
            Some(p) => {
                if reported != p as u64 {
                    bad.push(format!("send_message reported {} for preset serial {}", reported, p));
                }
            }
            None => {
                if reported == 0 || reported <= max_fresh {
                    bad.push(format!("send_message reported serial {} after {}", reported, max_fresh));
                }
                max_fresh = reported;
            }
        }
        if really_partial && rng.chance(1, 2) {
            at_peer.extend(peer::drain(&mut server));
        }
        pending = Some(Pending { msg, st, reported, at_peer, partial: really_partial });
    }
    let req = format!("c13.run2 1 {}", ops.join(","));
    for b in &bad {
        out.violation(&req, b);
    }
    if broken || ops.is_empty() {
        return;
    }
    let next = conn.send.alloc_serial().get();
    let obs = format!("{} next={}", evs.join(","), next);
    out.hit("history2");
    out.hit_n("history2_ops", ops.len() as u64);
    out.case(&req, &obs, ops.iter().any(|o| o == "r" || o == "x"));
}

/// `send_hello` against a peer that has the answer queued before the call is sent: replies / errors / signals with
/// the right, a neighbouring or no reply serial, with and without a string in the body.
fn hello_case(out: &mut Out, rng: &mut Prng) {
    use std::io::Write;
    let (mut conn, mut server) = peer::connect_pair(false);
    let before = rng.below(6) as u32;
    for _ in 0..before {
        conn.send.alloc_serial();
    }
    let expected = before + 1;
    let rs: Option<u32> = match rng.below(6) {
        0 | 1 | 2 => Some(expected),
        3 => Some(expected + 1),
        4 => Some(expected.saturating_sub(1).max(1)).filter(|x| *x != expected).or(Some(expected + 2)),
        _ => None,
    };
    let kind = rng.below(4);
    let name = *rng.pick(&[":1.42", ":1.4294967295", "", "org.example.Weird"]);
    // the queued message
    let call = DynamicHeader { serial: rs.and_then(NonZeroU32::new), sender: Some(":1.1".into()), ..Default::default() };
    let (mut m, body): (MarshalledMessage, String) = match (rs, kind) {
        (None, _) => {
            let mut m = MessageBuilder::new().signal("org.freedesktop.DBus", "NameAcquired", "/org/freedesktop/DBus").build();
            m.body.push_param(name).unwrap();
            (m, format!("s{}", cps(name)))
        }
        (Some(_), 0) => {
            let mut m = call.make_response();
            m.body.push_param(name).unwrap();
            (m, format!("s{}", cps(name)))
        }
        (Some(_), 1) => {
            // an error reply with a message text: a reply with that serial whose body starts with a string
            let m = call.make_error_response("org.freedesktop.DBus.Error.LimitsExceeded", Some(name.to_string()));
            (m, format!("s{}", cps(name)))
        }
        (Some(_), 2) => {
            let mut m = call.make_response();
            m.body.push_param(7u32).unwrap();
            (m, "n".into())
        }
        (Some(_), _) => (call.make_response(), "n".into()),
    };
    m.dynheader.sender = Some("org.freedesktop.DBus".into());
    let mut frame = Vec::new();
    rustbus::wire::marshal::marshal(&m, NonZeroU32::new(77).unwrap(), &mut frame).expect("peer message marshals");
    frame.extend_from_slice(m.get_buf());
    server.write_all(&frame).unwrap();
    let r = guard(|| conn.send_hello(Timeout::Duration(std::time::Duration::from_millis(500))));
    // what the peer saw
    let bytes = peer::drain(&mut server);
    let frames = peer::split_frames(&bytes).unwrap_or_default();
    let req = format!("c13.hello {} {} {}", expected, rs.map(|x| x.to_string()).unwrap_or("~".into()), body);
    let sent = if frames.len() == 1 { wire_serial(&frames[0]) } else { 0 };
    if frames.len() != 1 {
        out.violation(&req, &format!("send_hello put {} frames on the wire", frames.len()));
    } else if let Ok(h) = peer::decode_frame(&frames[0]) {
        if h.dynheader.member.as_deref() != Some("Hello") || h.dynheader.destination.as_deref() != Some("org.freedesktop.DBus") {
            out.violation(&req, "the message sent by send_hello is not the Hello call to org.freedesktop.DBus");
        }
    }
    let next = conn.send.alloc_serial().get();
    let res = match &r {
        Ok(Ok(n)) => format!("name={}", if n.is_empty() { "-".to_string() } else { n.chars().map(|c| (c as u32).to_string()).collect::<Vec<_>>().join(",") }),
        Ok(Err(rustbus::connection::Error::AuthFailed)) => "not-the-answer".to_string(),
        Ok(Err(_)) => "bad-body".to_string(),
        Err(p) => format!("panic:{}", p),
    };
    // directly: a name only from a message whose reply serial is the serial of the Hello on the wire
    if matches!(&r, Ok(Ok(_))) && rs.map(|x| x as u64) != Some(sent) {
        out.violation(&req, &format!("send_hello accepted a message with reply serial {:?} as the answer to its call with serial {}", rs, sent));
    }
    out.hit("hello");
    out.hit(&format!("hello_{}", res.split('=').next().unwrap_or("")));
    out.case(&req, &format!("serial={} {} next={}", sent, res, next), true);
}

pub fn run(cfg: &Cfg) {
    std::panic::set_hook(Box::new(|_| {}));
    let mut out = Out::new(&cfg.outdir);
    let mut rng = Prng::new(cfg.seed);
    let n = if cfg.thorough { 300 } else { 40 };
    for i in 0..n {
        let len = if cfg.thorough { rng.range(1, 400) } else { rng.range(1, 50) } as usize;
        history(&mut out, &mut rng, len, cfg.thorough && i == 0);
    }
    let n2 = if cfg.thorough { 400 } else { 60 };
    for _ in 0..n2 {
        let len = if cfg.thorough { rng.range(2, 120) } else { rng.range(2, 30) } as usize;
        history2(&mut out, &mut rng, len);
    }
    for _ in 0..(if cfg.thorough { 600 } else { 60 }) {
        hello_case(&mut out, &mut rng);
    }
    for _ in 0..(if cfg.thorough { 300 } else { 40 }) {
        reuse_history(&mut out, &mut rng);
    }
    // reply constructors
    let senders: Vec<Option<String>> = vec![None, Some(":1.5".into()), Some("org.example.Caller".into()), Some(":1.4294967295".into()), Some("org.freedesktop.DBus".into())];
    // values whose four bytes are pairwise different show a byte mix-up in either byte order
    let serials: Vec<Option<u32>> = vec![None, Some(1), Some(2), Some(0x7fffffff), Some(u32::MAX), Some(256), Some(0x1234), Some(0x01020304), Some(70000), Some(0x80a1b2c3)];
    let mut variant = 0u32;
    for sender in &senders {
        for serial in &serials {
            for kind in ["response", "error", "unknown_method", "invalid_args"] {
                // the rest of the received header must not matter: with / without DESTINATION, with a stray REPLY_SERIAL
                variant += 1;
                let call = DynamicHeader {
                    interface: Some("a.b".into()),
                    member: Some("M".into()),
                    object: Some("/o".into()),
                    destination: if variant % 3 == 0 { None } else { Some("org.me".into()) },
                    response_serial: if variant % 4 == 1 { NonZeroU32::new(0x0a0b0c0d) } else { None },
                    serial: serial.and_then(NonZeroU32::new),
                    sender: sender.clone(),
                    ..Default::default()
                };
                let reply = match kind {
                    "response" => call.make_response(),
                    "error" => call.make_error_response("a.b.Err", None),
                    "unknown_method" => rustbus::standard_messages::unknown_method(&call),
                    _ => rustbus::standard_messages::invalid_args(&call, Some("u")),
                };
                let req = format!("c13.reply {} {} {}", kind, serial.map(|s| s.to_string()).unwrap_or("~".into()), opt_cps(sender));
                // what a peer would see: marshal with a serial of its own and decode
                let mut hdr = Vec::new();
                let mut seen_rs = reply.dynheader.response_serial.map(|s| s.get());
                let mut seen_dest = reply.dynheader.destination.clone();
                if reply.dynheader.response_serial.is_some() {
                    if rustbus::wire::marshal::marshal(&reply, NonZeroU32::new(9).unwrap(), &mut hdr).is_ok() {
                        hdr.extend_from_slice(reply.get_buf());
                        let m = peer::decode_frame(&hdr).expect("reply decodes");
                        seen_rs = m.dynheader.response_serial.map(|s| s.get());
                        seen_dest = m.dynheader.destination.clone();
                        out.hit("reply_decoded_at_peer");
                    }
                }
                if seen_rs != *serial && !(serial == &Some(0)) {
                    out.violation(&req, &format!("reply serial {:?} for a call with serial {:?}", seen_rs, serial));
                }
                if seen_dest != *sender {
                    out.violation(&req, &format!("reply addressed to {:?}, the caller is {:?}", seen_dest, sender));
                }
                let is_err = matches!(reply.typ, rustbus::MessageType::Error);
                let obs = format!(
                    "error={} rs={} dest={} serial={} name={}",
                    is_err,
                    seen_rs.map(|s| s.to_string()).unwrap_or("~".into()),
                    opt_cps(&seen_dest),
                    reply.dynheader.serial.map(|s| s.get().to_string()).unwrap_or("~".into()),
                    opt_cps(&reply.dynheader.error_name)
                );
                out.case(&req, &obs, true);
            }
        }
    }
    out.finish(
        "send_hello against a peer that queued its answer beforehand (reply / error reply / signal; right, neighbouring, no reply serial; string, non-string, empty body; after 0..5 explicit allocations); histories with suspended sends: send_message + serial() + into_progress before the first byte or after a short non-blocking write of a 600 KB message, alloc_serial while suspended, resume + write to completion (frames read at the peer, serial field decoded by hand) or abandonment; random histories of alloc_serial / send_message without preset / with preset (1, u32::MAX, last fresh, random) on a real SendConn, serials decoded from the frames at the peer; thorough: the counter is driven to u32::MAX once to observe the overflow branch; reply constructors x {sender present/absent} x {serial boundary values} decoded at the peer; distinct by request; non-trivial = histories with at least 2 operations, all reply cases",
        false,
    );
}
