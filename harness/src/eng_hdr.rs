//! C05 / C06: message headers. Builder-API messages through wire::marshal::marshal and back through the
//! library's decoders (C05); foreign headers from an independent writer, unknown fields, corruptions,
//! random bytes through unmarshal_header / unmarshal_dynamic_header / unmarshal_next_message and the
//! frame size computation of a real RecvConn (C06).
use vcore::common::*;
use vcore::eng_wire::guard;
use vcore::peer;
use vcore::val::{gen_ty, gen_val, to_param, Ty, Val};
use rustbus::message_builder::{HeaderFlags, MarshalledMessage, MessageType};
use rustbus::wire::marshal::MarshalContext;
use rustbus::wire::unmarshal;
use rustbus::wire::unmarshal_context::Cursor;
use rustbus::ByteOrder;
use std::num::NonZeroU32;

fn oh(s: &Option<String>) -> String {
    match s {
        Some(s) => hex(s.as_bytes()),
        None => "~".into(),
    }
}
fn typ_code(t: MessageType) -> u8 {
    match t {
        MessageType::Invalid => 0,
        MessageType::Call => 1,
        MessageType::Reply => 2,
        MessageType::Error => 3,
        MessageType::Signal => 4,
    }
}

/// canonical rendering of what the library decoded, in the model's format
fn show_decoded(hdr: &unmarshal::Header, fields_in_wire_order: &[(u8, String)]) -> String {
    format!(
        "{} typ={} flags={} bodylen={} serial={} fields={}",
        if hdr.byteorder == ByteOrder::LittleEndian { "le" } else { "be" },
        typ_code(hdr.typ),
        hdr.flags,
        hdr.body_len,
        hdr.serial.get(),
        if fields_in_wire_order.is_empty() {
            "-".to_string()
        } else {
            fields_in_wire_order.iter().map(|(c, v)| format!("{}:{}", c, v)).collect::<Vec<_>>().join(",")
        }
    )
}

/// independent walk over the field region: (code, signature, offset of value) in wire order, for KNOWN
/// codes the rendered value. Only used to put the library's decoded fields into wire order (the library
/// returns a struct, not a list) and as a conformance oracle for C05. Returns None if it cannot walk.
fn walk_fields(buf: &[u8]) -> Option<Vec<(u8, String)>> {
    if buf.len() < 16 {
        return None;
    }
    let le = buf[0] == b'l';
    let rd = |o: usize| -> Option<usize> {
        let b = buf.get(o..o + 4)?;
        let a = [b[0], b[1], b[2], b[3]];
        Some(if le { u32::from_le_bytes(a) } else { u32::from_be_bytes(a) } as usize)
    };
    let len = rd(12)?;
    let end = 16 + len;
    if end > buf.len() {
        return None;
    }
    let mut o = 16;
    let mut out = Vec::new();
    while o < end {
        o = (o + 7) / 8 * 8;
        let code = *buf.get(o)?;
        let sl = *buf.get(o + 1)? as usize;
        let sig = buf.get(o + 2..o + 2 + sl)?.to_vec();
        o = o + 2 + sl + 1;
        match (code, sig.as_slice()) {
            (1..=4 | 6 | 7, [b's']) | (1, [b'o']) => {
                o = (o + 3) / 4 * 4;
                let l = rd(o)?;
                let s = buf.get(o + 4..o + 4 + l)?;
                out.push((code, hex(s)));
                o = o + 4 + l + 1;
            }
            (5 | 9, [b'u']) => {
                o = (o + 3) / 4 * 4;
                out.push((code, rd(o)?.to_string()));
                o += 4;
            }
            (8, [b'g']) => {
                let l = *buf.get(o)? as usize;
                out.push((code, hex(buf.get(o + 1..o + 1 + l)?)));
                o = o + 1 + l + 1;
            }
            _ => return None, // unknown fields: the caller does not need the order then
        }
    }
    Some(out)
}

/// the fields of a decoded DynamicHeader in the order of `order` (codes), or in code order
fn fields_of(dh: &rustbus::message_builder::DynamicHeader, order: Option<&[u8]>) -> Vec<(u8, String)> {
    let mut all: Vec<(u8, String)> = Vec::new();
    if let Some(s) = &dh.object {
        all.push((1, hex(s.as_bytes())));
    }
    if let Some(s) = &dh.interface {
        all.push((2, hex(s.as_bytes())));
    }
    if let Some(s) = &dh.member {
        all.push((3, hex(s.as_bytes())));
    }
    if let Some(s) = &dh.error_name {
        all.push((4, hex(s.as_bytes())));
    }
    if let Some(s) = &dh.response_serial {
        all.push((5, s.get().to_string()));
    }
    if let Some(s) = &dh.destination {
        all.push((6, hex(s.as_bytes())));
    }
    if let Some(s) = &dh.sender {
        all.push((7, hex(s.as_bytes())));
    }
    if let Some(s) = &dh.signature {
        all.push((8, hex(s.as_bytes())));
    }
    if let Some(s) = &dh.num_fds {
        all.push((9, s.to_string()));
    }
    if let Some(order) = order {
        let mut out = Vec::new();
        for c in order {
            if let Some(p) = all.iter().position(|(k, _)| k == c) {
                out.push(all.remove(p));
            }
        }
        out.extend(all);
        out
    } else {
        all
    }
}

/// decode a whole message with the library; observation in the model's `h.msg` format
fn lib_decode_msg(full: &[u8], wire_order: Option<&[u8]>) -> String {
    let r = guard(|| {
        let mut cur = Cursor::new(full);
        let hdr = unmarshal::unmarshal_header(&mut cur).map_err(|_| ())?;
        let dh = unmarshal::unmarshal_dynamic_header(&hdr, &mut cur).map_err(|_| ())?;
        let used = cur.consumed();
        let _ = wire_order;
        let fields = fields_of(&dh, None);
        let msg = unmarshal::unmarshal_next_message(&hdr, dh, full.to_vec(), used, vec![]).map_err(|_| ())?;
        // what the caller receives is the MESSAGE: its type, flags, serial and fields must be the header's
        let fields2 = fields_of(&msg.dynheader, None);
        let same = format!("{:?}", msg.typ) == format!("{:?}", hdr.typ)
            && msg.flags == hdr.flags
            && msg.dynheader.serial.map(|x| x.get()) == Some(hdr.serial.get())
            && format!("{:?}", fields2) == format!("{:?}", fields);
        if !same {
            return Ok(format!("ok {} body={} BUT-THE-MESSAGE-SAYS typ={:?} flags={} serial={:?} fields={:?}", show_decoded(&hdr, &fields), hex(msg.get_buf()), msg.typ, msg.flags, msg.dynheader.serial, fields2));
        }
        Ok::<_, ()>(format!("ok {} body={}", show_decoded(&hdr, &fields), hex(msg.get_buf())))
    });
    match r {
        Ok(Ok(s)) => s,
        Ok(Err(())) => "reject".into(),
        Err(p) => format!("panic {}", p),
    }
}

fn lib_decode_hdr(full: &[u8], wire_order: Option<&[u8]>) -> String {
    let r = guard(|| {
        let mut cur = Cursor::new(full);
        let hdr = unmarshal::unmarshal_header(&mut cur).map_err(|_| ())?;
        let dh = unmarshal::unmarshal_dynamic_header(&hdr, &mut cur).map_err(|_| ())?;
        let used = cur.consumed();
        let _ = wire_order;
        let fields = fields_of(&dh, None);
        Ok::<_, ()>(format!("ok {} used={}", show_decoded(&hdr, &fields), used))
    });
    match r {
        Ok(Ok(s)) => s,
        Ok(Err(())) => "reject".into(),
        Err(p) => format!("panic {}", p),
    }
}

const IFACES: &[&str] = &["a.b", "org.freedesktop.DBus", "a.b.c.d.e", "x1._y.z", "bad", "a..b", "1a.b", "a.b\u{e9}", "", ".", "a.", ".a", ":1.5", "org.x-y.z", "a._7", "/a"];
const MEMBERS: &[&str] = &["M", "Ping", "Get_All9", "abcdefgh", "_x", "1bad", "a.b", "", "-Frob", ".Get", " Get", "Ge-t"];
const PATHS: &[&str] = &["/", "/a", "/org/x_1", "/a/b/c/d", "/0", "/org/0a/7", "/_", "a", "/a/", "//", "/a-b", "/a/.b", ""];
const BUSES: &[&str] = &[":1.5", "a.b", "org.x-y.z", ":1.42.7", "a._7", "a", ".a.b", "a.1b", "org.7zip.x", "a.b.2nd", ":1..5", ":1.", ":.1", "a..b", ":", "", ".", ":.", "/a", "M", "a.b.Err"];
// (the pools share strings on purpose: a name that is valid as one kind of name and invalid as another must get
// the right verdict whichever field it was seen in before)
const ERRS: &[&str] = &["a.b.Err", "org.freedesktop.DBus.Error.Failed", "E", "a.b-c", "", ".", "a..b", "1a.b", ":1.5", "org.x-y.z", "a.b"];

fn pick_name(rng: &mut Prng, pool: &[&str], pad_to: Option<usize>) -> String {
    let mut s = rng.pick(pool).to_string();
    if let Some(n) = pad_to {
        // stretch a valid name so that the field ends at a chosen residue
        if s.contains('.') || s.starts_with('/') || pool.as_ptr() == MEMBERS.as_ptr() {
            while s.len() < n {
                s.push('x');
            }
        }
    }
    s
}

pub fn run_c05(cfg: &Cfg) {
    std::panic::set_hook(Box::new(|_| {}));
    let mut out = Out::new(&cfg.outdir);
    let mut rng = Prng::new(cfg.seed);
    // 1. flags table, exhaustive 3 x 256
    for (i, fl) in [HeaderFlags::NoReplyExpected, HeaderFlags::NoAutoStart, HeaderFlags::AllowInteractiveAuthorization].iter().enumerate() {
        for f in 0..=255u8 {
            let is = fl.is_set(f);
            let mut s = f;
            fl.set(&mut s);
            let mut u = f;
            fl.unset(&mut u);
            let mut t = f;
            fl.toggle(&mut t);
            let raw = fl.into_raw();
            let req = format!("h.flag {} {}", i, f);
            // directly: the helpers agree with the bit on the wire
            if is != (f & raw != 0) || s != (f | raw) || u != (f & !raw) || t != (f ^ raw) {
                out.violation(&req, &format!("flag helpers disagree with bit {}: is_set={} set={} unset={} toggle={}", raw, is, s, u, t));
            }
            out.case(&req, &format!("{} {} {} {} raw={}", is, s, u, t, raw), true);
        }
    }
    out.hit_n("flag_cases", 768);
    // 2. builder messages
    let types = [MessageType::Call, MessageType::Reply, MessageType::Error, MessageType::Signal, MessageType::Invalid];
    let rounds = if cfg.thorough { 24 } else { 2 };
    for round in 0..rounds {
        for typ in types {
            for subset in 0u32..128 {
                let bo = if rng.chance(1, 2) { ByteOrder::LittleEndian } else { ByteOrder::BigEndian };
                let mut msg = MarshalledMessage::with_byteorder(bo);
                msg.typ = typ;
                msg.flags = match rng.below(4) {
                    0 => 0,
                    1 => 255,
                    _ => rng.next() as u8,
                };
                let stretch = if rng.chance(1, 2) { Some(rng.range(1, 24) as usize) } else { None };
                let valid_only = rng.chance(3, 4);
                let pick = |rng: &mut Prng, pool: &[&str]| -> String {
                    loop {
                        let s = pick_name(rng, pool, stretch);
                        if !valid_only {
                            return s;
                        }
                        let ok = if pool.as_ptr() == IFACES.as_ptr() {
                            vcore_spec("iface", &s)
                        } else if pool.as_ptr() == MEMBERS.as_ptr() {
                            vcore_spec("member", &s)
                        } else if pool.as_ptr() == PATHS.as_ptr() {
                            vcore_spec("path", &s)
                        } else if pool.as_ptr() == BUSES.as_ptr() {
                            vcore_spec("bus", &s)
                        } else {
                            vcore_spec("errname", &s)
                        };
                        if ok {
                            return s;
                        }
                    }
                };
                if subset & 1 != 0 {
                    msg.dynheader.response_serial = NonZeroU32::new(*rng.pick(&[1u32, 2, 0x7fffffff, u32::MAX, 77, 256, 0x1234, 0x01020304, 70000, 0x80a1b2c3]));
                }
                if subset & 2 != 0 {
                    msg.dynheader.interface = Some(pick(&mut rng, IFACES));
                }
                if subset & 4 != 0 {
                    msg.dynheader.destination = Some(pick(&mut rng, BUSES));
                }
                if subset & 8 != 0 {
                    msg.dynheader.sender = Some(pick(&mut rng, BUSES));
                }
                if subset & 16 != 0 {
                    msg.dynheader.member = Some(pick(&mut rng, MEMBERS));
                }
                if subset & 32 != 0 {
                    msg.dynheader.object = Some(pick(&mut rng, PATHS));
                }
                if subset & 64 != 0 {
                    msg.dynheader.error_name = Some(pick(&mut rng, ERRS));
                }
                // body
                let mut nfds = 0;
                let mut bad_body_sig = false;
                match rng.below(6) {
                    0 => {}
                    5 => {
                        // a body whose signature is not a valid signature (a container as dict key, 33 array levels, an
                        // unclosed struct, ...): typed pushes do not validate what they accumulate, `from_parts` takes any
                        // string; the SIGNATURE header field must not carry it
                        let a33 = format!("{}y", "a".repeat(33));
                        let bad = *rng.pick(&["a{(yy)y}", a33.as_str(), "(", "a{vs}", "a{s}", "()", "yz"]);
                        msg.body = rustbus::message_builder::MarshalledMessageBody::from_parts(vec![0u8; 8], 0, vec![], bad.to_string(), bo);
                        out.hit("body_with_invalid_signature");
                        bad_body_sig = true;
                    }
                    1 => msg.body.push_param(rng.next() as u32).unwrap(),
                    2 => msg.body.push_param("hello").unwrap(),
                    3 => {
                        let ty = gen_ty(&mut rng, 2, false);
                        let mut c = 0;
                        let v = gen_val(&mut rng, &ty, 2, &mut c);
                        if let Some(p) = to_param(&ty, &v, &[]) {
                            msg.body.push_old_param(&p).unwrap();
                        }
                    }
                    _ => {
                        let n = rng.range(1, 3);
                        for _ in 0..n {
                            let fd = rustbus::wire::UnixFd::new(nix::unistd::dup(0).unwrap());
                            msg.body.push_param(&fd).unwrap();
                            nfds += 1;
                        }
                    }
                }
                // `dynheader.num_fds` is a public field (filled in when a message is received, left over when a message
                // object is reused or forwarded): UNIX_FDS on the wire must be the number of descriptors ATTACHED, whatever
                // this field says
                match rng.below(4) {
                    0 => msg.dynheader.num_fds = Some(nfds),
                    1 => {
                        msg.dynheader.num_fds = Some(*rng.pick(&[0u32, 1, 2, 3, 7]));
                        out.hit("stale_num_fds");
                    }
                    _ => {}
                }
                let serial = *rng.pick(&[1u32, 2, 255, 256, 0x01020304, u32::MAX]);
                let mut buf = Vec::new();
                let r = guard(|| rustbus::wire::marshal::marshal(&msg, NonZeroU32::new(serial).unwrap(), &mut buf));
                let req = format!(
                    "h.mar {} {} {} {} {} {} {} {} {} {} {} {} {} {}",
                    if bo == ByteOrder::LittleEndian { "le" } else { "be" },
                    typ_code(typ),
                    msg.flags,
                    serial,
                    msg.dynheader.response_serial.map(|s| s.get().to_string()).unwrap_or("~".into()),
                    oh(&msg.dynheader.interface),
                    oh(&msg.dynheader.destination),
                    oh(&msg.dynheader.sender),
                    oh(&msg.dynheader.member),
                    oh(&msg.dynheader.object),
                    oh(&msg.dynheader.error_name),
                    hex(msg.get_sig().as_bytes()),
                    hex(msg.get_buf()),
                    nfds
                );
                let ok = matches!(r, Ok(Ok(())));
                if let Err(p) = &r {
                    out.violation(&req, &format!("marshal panicked: {}", p));
                }
                // every name valid and the type not Invalid => must be accepted; otherwise must be refused
                let names_ok = msg.dynheader.interface.as_deref().map(|s| vcore_spec("iface", s)).unwrap_or(true)
                    && msg.dynheader.destination.as_deref().map(|s| vcore_spec("bus", s)).unwrap_or(true)
                    && msg.dynheader.sender.as_deref().map(|s| vcore_spec("bus", s)).unwrap_or(true)
                    && msg.dynheader.member.as_deref().map(|s| vcore_spec("member", s)).unwrap_or(true)
                    && msg.dynheader.object.as_deref().map(|s| vcore_spec("path", s)).unwrap_or(true)
                    && msg.dynheader.error_name.as_deref().map(|s| vcore_spec("errname", s)).unwrap_or(true);
                let should = names_ok && typ != MessageType::Invalid && !bad_body_sig;
                if ok != should {
                    out.violation(&req, &format!("marshal {} a message that is {}", if ok { "accepted" } else { "refused" }, if should { "valid" } else { "invalid (bad name, Invalid type or invalid body signature)" }));
                }
                out.hit(if ok { "marshal_ok" } else { "marshal_refused" });
                out.case(&req, &if ok { hex(&buf) } else { "refuse".to_string() }, round == 0 || !ok);
                if !ok {
                    continue;
                }
                out.hit(&format!("header_len_mod8_before_pad_{}", (16 + rd_u32(&buf, 12)) % 8));
                // conformance, checked on the bytes with the independent walker
                let mut full = buf.clone();
                full.extend_from_slice(msg.get_buf());
                let walked = walk_fields(&full);
                let mut conf: Vec<String> = Vec::new();
                if buf.len() % 8 != 0 {
                    conf.push("header not padded to 8".into());
                }
                if rd_u32(&buf, 4) != msg.get_buf().len() {
                    conf.push(format!("body length field {} but body has {} bytes", rd_u32(&buf, 4), msg.get_buf().len()));
                }
                match &walked {
                    None => conf.push("field array cannot be walked".into()),
                    Some(fs) => {
                        let sigf = fs.iter().find(|(c, _)| *c == 8);
                        if msg.get_buf().is_empty() != sigf.is_none() {
                            conf.push("SIGNATURE field present iff body non-empty violated".into());
                        }
                        if let Some((_, s)) = sigf {
                            if *s != hex(msg.get_sig().as_bytes()) {
                                conf.push("SIGNATURE field differs from the body signature".into());
                            }
                        }
                        let fdf = fs.iter().find(|(c, _)| *c == 9);
                        if (nfds == 0) != fdf.is_none() || fdf.map(|(_, v)| v != &nfds.to_string()).unwrap_or(false) {
                            conf.push("UNIX_FDS field does not equal the number of attached descriptors".into());
                        }
                        let pad_start = 16 + rd_u32(&buf, 12);
                        if buf[pad_start..].iter().any(|b| *b != 0) {
                            conf.push("padding before the body is not zero".into());
                        }
                    }
                }
                for c in conf {
                    out.violation(&req, &c);
                }
                // back through the library's own decoders
                let order: Option<Vec<u8>> = walked.as_ref().map(|f| f.iter().map(|(c, _)| *c).collect());
                let obs = lib_decode_msg(&full, order.as_deref());
                let required = match typ {
                    MessageType::Call => subset & 32 != 0 && subset & 16 != 0,
                    MessageType::Signal => subset & 32 != 0 && subset & 16 != 0 && subset & 2 != 0,
                    MessageType::Reply => subset & 1 != 0,
                    MessageType::Error => subset & 64 != 0 && subset & 1 != 0,
                    MessageType::Invalid => false,
                };
                let req2 = format!("h.msg {}", hex(&full));
                if required {
                    // identical type, flags, serial, fields, signature, body bytes, descriptor count
                    let mut want_fields = fields_of(&msg.dynheader, None);
                    want_fields.retain(|(c, _)| *c != 8 && *c != 9);
                    if !msg.get_buf().is_empty() {
                        want_fields.push((8, hex(msg.get_sig().as_bytes())));
                    }
                    if nfds > 0 {
                        want_fields.push((9, nfds.to_string()));
                    }
                    let mut got_sorted = walked.clone().unwrap_or_default();
                    got_sorted.sort();
                    want_fields.sort();
                    let expect_prefix = format!(
                        "ok {} typ={} flags={} bodylen={} serial={} ",
                        if bo == ByteOrder::LittleEndian { "le" } else { "be" },
                        typ_code(typ),
                        msg.flags,
                        msg.get_buf().len(),
                        serial
                    );
                    if !obs.starts_with(&expect_prefix) || !obs.ends_with(&format!("body={}", hex(msg.get_buf()))) || got_sorted != want_fields {
                        out.violation(&req2, &format!("decoding the marshalled message does not give it back: {}", obs));
                    }
                } else if obs != "reject" {
                    out.violation(&req2, &format!("a message without the fields required for its type was decoded: {}", obs));
                }
                out.hit(if obs == "reject" { "decode_reject" } else { "decode_ok" });
                out.case(&req2, &obs, round == 0);
            }
        }
    }
    // 3. standard messages
    let names = ["a.b", "org.example.Name", "x", "", "type='signal'", "ünï", "a b c"];
    for n in names {
        for (k, m) in [
            ("hello", rustbus::standard_messages::hello()),
            ("ping", rustbus::standard_messages::ping("a.b".into())),
            ("ping_bus", rustbus::standard_messages::ping_bus()),
            ("list_names", rustbus::standard_messages::list_names()),
            ("request_name", rustbus::standard_messages::request_name(n, 7)),
            ("release_name", rustbus::standard_messages::release_name(n)),
            ("add_match", rustbus::standard_messages::add_match(n)),
            ("remove_match", rustbus::standard_messages::remove_match(n)),
        ] {
            let mut buf = Vec::new();
            let r = rustbus::wire::marshal::marshal(&m, NonZeroU32::new(3).unwrap(), &mut buf);
            let mut full = buf.clone();
            full.extend_from_slice(m.get_buf());
            let obs = if r.is_ok() { lib_decode_msg(&full, walk_fields(&full).map(|f| f.iter().map(|(c, _)| *c).collect::<Vec<u8>>()).as_deref()) } else { "refuse".into() };
            let req = format!("h.msg {}", hex(&full));
            if r.is_err() || obs == "reject" || m.body.validate().is_err() {
                out.violation(&req, &format!("standard message {}({:?}) is not a valid message", k, n));
            }
            out.hit("standard_message");
            out.case(&req, &obs, true);
        }
    }
    // ping(dest): the destination is a header field: the message marshals exactly if the name is a valid bus name
    for n in BUSES {
        let m = rustbus::standard_messages::ping(n.to_string());
        let mut buf = Vec::new();
        let r = rustbus::wire::marshal::marshal(&m, NonZeroU32::new(3).unwrap(), &mut buf);
        let want = vcore_spec("bus", n);
        let req = format!("c05.ping {}", cps(n));
        if r.is_ok() != want {
            out.violation(&req, &format!("standard_messages::ping({:?}): marshal {} but the name is {} bus name", n, if r.is_ok() { "succeeds" } else { "refuses" }, if want { "a valid" } else { "not a valid" }));
        }
        if r.is_ok() {
            let mut full = buf.clone();
            full.extend_from_slice(m.get_buf());
            match vcore::peer::decode_frame(&full) {
                Ok(d) => {
                    if d.dynheader.destination.as_deref() != Some(*n) || d.dynheader.member.as_deref() != Some("Ping") {
                        out.violation(&req, &format!("ping({:?}) arrives with destination {:?} member {:?}", n, d.dynheader.destination, d.dynheader.member));
                    }
                }
                Err(e) => out.violation(&req, &format!("ping({:?}) marshals but does not decode: {}", n, e)),
            }
        }
        out.hit("standard_message_ping_name");
    }
    // the constructors take arbitrary &str: an argument containing NUL has no encoding; they must not panic
    for k in ["request_name", "release_name", "add_match", "remove_match"] {
        let r = guard(|| match k {
            "request_name" => rustbus::standard_messages::request_name("a\0b", 0),
            "release_name" => rustbus::standard_messages::release_name("a\0b"),
            "add_match" => rustbus::standard_messages::add_match("a\0b"),
            _ => rustbus::standard_messages::remove_match("a\0b"),
        });
        if r.is_err() {
            out.violation(&format!("standard_messages::{} NUL argument", k), "the constructor panics (unwrap on the refused push) instead of returning an error");
        }
    }
    // the error constructors take a free text the same way (`make_error_response(.., Some(text))`, `invalid_args`): the same
    // root, the same known finding
    {
        let call = rustbus::message_builder::DynamicHeader { serial: std::num::NonZeroU32::new(7), sender: Some(":1.5".into()), ..Default::default() };
        for k in ["make_error_response", "invalid_args"] {
            let r = guard(|| match k {
                "make_error_response" => call.make_error_response("a.b.Err", Some("x\0y".to_string())),
                _ => rustbus::standard_messages::invalid_args(&call, Some("a\0b")),
            });
            if r.is_err() {
                out.violation(&format!("error constructor {} NUL argument", k), "the constructor panics (unwrap on the refused push) instead of returning an error");
            }
            out.hit("error_constructor_nul_text");
        }
    }
    out.finish(
        "flags: all 3 x 256 (exhaustive); builder messages: 5 types x all 128 subsets of the 7 optional header fields x name pools (valid and invalid names, lengths stretched so that fields end at every residue) x 6 body kinds (empty, u32, string, random Param, 1-3 descriptors, a body under an invalid signature) x flags x serial boundary values x {LE,BE}, marshalled (h.mar), checked for conformance with an independent field walker and decoded again by the library (h.msg); standard_messages constructors; distinct by request",
        false,
    );
}

fn rd_u32(buf: &[u8], o: usize) -> usize {
    let a = [buf[o], buf[o + 1], buf[o + 2], buf[o + 3]];
    (if buf[0] == b'l' { u32::from_le_bytes(a) } else { u32::from_be_bytes(a) }) as usize
}

fn vcore_spec(kind: &str, s: &str) -> bool {
    crate::eng_c08::spec(kind, s)
}

// ------------------------------------------------------------------------------------------------
// C06

/// independent header writer: fixed part + fields (code, signature bytes, already encoded value with its
/// own leading padding relative to the running offset)
struct Foreign {
    le: bool,
    typ: u8,
    flags: u8,
    version: u8,
    serial: u32,
    body: Vec<u8>,
    /// (code, type, value) in the order to be written
    fields: Vec<(u8, Ty, Val)>,
}

impl Foreign {
    fn write(&self) -> Vec<u8> {
        let bo = if self.le { ByteOrder::LittleEndian } else { ByteOrder::BigEndian };
        let u32b = |v: u32| if self.le { v.to_le_bytes() } else { v.to_be_bytes() };
        let mut b = vec![if self.le { b'l' } else { b'B' }, self.typ, self.flags, self.version];
        b.extend_from_slice(&u32b(self.body.len() as u32));
        b.extend_from_slice(&u32b(self.serial));
        b.extend_from_slice(&[0, 0, 0, 0]);
        for (code, ty, val) in &self.fields {
            while b.len() % 8 != 0 {
                b.push(0);
            }
            b.push(*code);
            let sig = ty.sig();
            b.push(sig.len() as u8);
            b.extend_from_slice(sig.as_bytes());
            b.push(0);
            // the value: rustbus' own Param marshaller at the absolute offset (correctness of this writer is
            // irrelevant: model and code are compared on whatever it emits)
            // basic values are written by hand (independent of the library's validators: an object path the library would
            // refuse to marshal must still reach the decoder); containers go through the Param marshaller
            match (ty, val) {
                (Ty::Base('s'), Val::Str(bs)) | (Ty::Base('o'), Val::Str(bs)) => {
                    while b.len() % 4 != 0 {
                        b.push(0);
                    }
                    b.extend_from_slice(&u32b(bs.len() as u32));
                    b.extend_from_slice(bs);
                    b.push(0);
                    continue;
                }
                (Ty::Base('g'), Val::Str(bs)) => {
                    b.push(bs.len() as u8);
                    b.extend_from_slice(bs);
                    b.push(0);
                    continue;
                }
                (Ty::Base('u'), Val::Num(n)) => {
                    while b.len() % 4 != 0 {
                        b.push(0);
                    }
                    b.extend_from_slice(&u32b(*n as u32));
                    continue;
                }
                _ => {}
            }
            if let Some(p) = to_param(ty, val, &[]) {
                let mut fds = Vec::new();
                let mut ctx = MarshalContext { buf: &mut b, fds: &mut fds, byteorder: bo };
                let _ = rustbus::wire::marshal::container::marshal_param(&p, &mut ctx);
            }
        }
        let len = (b.len() - 16) as u32;
        b[12..16].copy_from_slice(&u32b(len));
        while b.len() % 8 != 0 {
            b.push(0);
        }
        b.extend_from_slice(&self.body);
        b
    }
}

fn s(v: &str) -> Val {
    Val::Str(v.as_bytes().to_vec())
}

pub fn run_c06(cfg: &Cfg) {
    std::panic::set_hook(Box::new(|_| {}));
    let mut out = Out::new(&cfg.outdir);
    let mut rng = Prng::new(cfg.seed);
    let n = if cfg.thorough { 4000 } else { 400 };
    let mut pool: Vec<Vec<u8>> = Vec::new();
    let mut pair = peer::connect_pair(false);
    // systematic: every known field twice (same value / another value, adjacent / separated by the other fields, both
    // byte orders) in an otherwise valid header of every message type: "no known code twice" must hold for each of the
    // nine codes on its own
    for typ in 1..=4u8 {
        for code in 1..=9u8 {
            for variant in 0..8u32 {
                let val_of = |code: u8, alt: bool| -> (Ty, Val) {
                    match code {
                        1 => (Ty::Base('o'), s(if alt { "/b" } else { "/a" })),
                        2 => (Ty::Base('s'), s(if alt { "c.d" } else { "a.b" })),
                        3 => (Ty::Base('s'), s(if alt { "N" } else { "M" })),
                        4 => (Ty::Base('s'), s(if alt { "a.b.F" } else { "a.b.E" })),
                        5 => (Ty::Base('u'), Val::Num(if alt { 2000 } else { 1000 })),
                        6 | 7 => (Ty::Base('s'), s(if alt { ":1.9" } else { ":1.5" })),
                        8 => (Ty::Base('g'), s(if alt { "u" } else { "" })),
                        _ => (Ty::Base('u'), Val::Num(if alt { 1 } else { 0 })),
                    }
                };
                let req_codes: &[u8] = match typ {
                    1 => &[1, 3],
                    4 => &[1, 3, 2],
                    2 => &[5],
                    _ => &[4, 5],
                };
                let mut fields: Vec<(u8, Ty, Val)> = Vec::new();
                for c in req_codes {
                    let (t, v) = val_of(*c, false);
                    fields.push((*c, t, v));
                }
                if !req_codes.contains(&code) {
                    let (t, v) = val_of(code, false);
                    fields.push((code, t, v));
                }
                let valid = Foreign { le: variant & 1 == 0, typ, flags: 0, version: 1, serial: 5, body: vec![], fields: fields.clone() };
                let (t, v) = val_of(code, variant & 2 != 0);
                let first = fields.iter().position(|f| f.0 == code).unwrap();
                let at = if variant & 4 != 0 { first + 1 } else if first == 0 { fields.len() } else { 0 };
                fields.insert(at.min(fields.len()), (code, t, v));
                let dup = Foreign { fields, ..Foreign { le: valid.le, typ, flags: 0, version: 1, serial: 5, body: vec![], fields: vec![] } };
                for (f, is_dup) in [(&valid, false), (&dup, true)] {
                    let bytes = f.write();
                    let obs = lib_decode_msg(&bytes, None);
                    let req = format!("h.msg {}", hex(&bytes));
                    // directly: the valid header is accepted (code 8 = SIGNATURE "" with empty body, code 9 = UNIX_FDS 0 are fine),
                    // the one with the field twice is refused
                    if is_dup && obs != "reject" {
                        out.violation(&req, &format!("header of type {} with field code {} twice was accepted: {}", typ, code, obs));
                    }
                    if !is_dup && obs == "reject" {
                        out.violation(&req, &format!("valid header of type {} (fields incl. code {}) was refused", typ, code));
                    }
                    out.hit(if is_dup { "duplicate_field" } else { "duplicate_base_valid" });
                    out.case(&req, &obs, true);
                }
            }
        }
    }
    // systematic: every known field carried with every OTHER basic value type (the value kept plausible: the same text
    // for the string-likes, a small number for the fixed ones) in an otherwise valid header: a known code with a value of
    // the wrong type must be refused, whichever wrong type it is
    for typ in 1..=4u8 {
        for code in 1..=9u8 {
            let req_codes: &[u8] = match typ {
                1 => &[1, 3],
                4 => &[1, 3, 2],
                2 => &[5],
                _ => &[4, 5],
            };
            let text: &str = match code {
                1 => "/a",
                2 | 4 => "a.b",
                3 => "M",
                6 | 7 => ":1.5",
                8 => "u",
                _ => "",
            };
            let right = match code {
                1 => 'o',
                8 => 'g',
                5 | 9 => 'u',
                _ => 's',
            };
            for wrong in ['s', 'o', 'g', 'u', 'y', 'b', 'q', 't'] {
                if wrong == right {
                    continue;
                }
                // a value that is valid for the wrong type itself (so that only the code/type pairing is at fault)
                let v = match wrong {
                    's' => s(if text.is_empty() { "7" } else { text }),
                    'o' => s(if text.starts_with('/') { text } else { "/a" }),
                    'g' => s(if code == 8 { text } else { "s" }),
                    'b' => Val::Num(1),
                    _ => Val::Num(7),
                };
                for le in [true, false] {
                    let mut fields: Vec<(u8, Ty, Val)> = Vec::new();
                    for c in req_codes {
                        if *c != code {
                            let (t, vv) = match c {
                                1 => (Ty::Base('o'), s("/a")),
                                2 => (Ty::Base('s'), s("a.b")),
                                3 => (Ty::Base('s'), s("M")),
                                4 => (Ty::Base('s'), s("a.b.E")),
                                _ => (Ty::Base('u'), Val::Num(1000)),
                            };
                            fields.push((*c, t, vv));
                        }
                    }
                    fields.push((code, Ty::Base(wrong), v.clone()));
                    let f = Foreign { le, typ, flags: 0, version: 1, serial: 5, body: vec![], fields };
                    let bytes = f.write();
                    let obs = lib_decode_msg(&bytes, None);
                    let req = format!("h.msg {}", hex(&bytes));
                    if obs != "reject" {
                        out.violation(&req, &format!("header field code {} carried as type {:?} (prescribed: {:?}) was accepted: {}", code, wrong, right, obs));
                    }
                    out.hit("wrong_value_type");
                    out.case(&req, &obs, true);
                }
            }
        }
    }
    for i in 0..n {
        let typ = *rng.pick(&[1u8, 1, 1, 2, 2, 3, 3, 4, 4, 4, 1, 2, 3, 4, 0, 5]);
        let mut fields: Vec<(u8, Ty, Val)> = Vec::new();
        // required fields (mostly), optional ones, sometimes wrong value types / duplicates
        let mut add = |fields: &mut Vec<(u8, Ty, Val)>, rng: &mut Prng, code: u8| {
            let mostly_valid = |rng: &mut Prng, kind: &str, pool: &[&'static str]| -> &'static str {
                loop {
                    let c = *rng.pick(pool);
                    if vcore_spec(kind, c) || rng.chance(1, 12) {
                        return c;
                    }
                }
            };
            let (ty, val) = match code {
                1 => (Ty::Base('o'), s(mostly_valid(rng, "path", PATHS))),
                2 => (Ty::Base('s'), s(mostly_valid(rng, "iface", IFACES))),
                3 => (Ty::Base('s'), s(mostly_valid(rng, "member", MEMBERS))),
                4 => (Ty::Base('s'), s(mostly_valid(rng, "errname", ERRS))),
                5 => (Ty::Base('u'), Val::Num(*rng.pick(&[1u64, 7, 9, 0xffffffff, 1, 2, 3, 0, 256, 0x01020304, 0x80a1b2c3]))),
                6 | 7 => (Ty::Base('s'), s(mostly_valid(rng, "bus", BUSES))),
                8 => (Ty::Base('g'), s(if rng.chance(1, 6) { *rng.pick(&["a", "ua", "sva", "(", "(i", "a{vs}", "()", "a{s}", "y)"]) } else { *rng.pick(&["", "s", "a{sv}", "(ii)u", "aay", "v"]) })),
                9 => (Ty::Base('u'), Val::Num(rng.below(3))),
                _ => unreachable!(),
            };
            if rng.chance(1, 60) {
                // wrong value type for a known code
                let t2 = gen_ty(rng, 1, false);
                let mut c = 0;
                let v2 = gen_val(rng, &t2, 1, &mut c);
                fields.push((code, t2, v2));
            } else {
                fields.push((code, ty, val));
            }
        };
        let req_codes: &[u8] = match typ {
            1 => &[1, 3],
            4 => &[1, 3, 2],
            2 => &[5],
            3 => &[4, 5],
            _ => &[],
        };
        for c in req_codes {
            if !rng.chance(1, 25) {
                add(&mut fields, &mut rng, *c);
            }
        }
        for c in 1..=9u8 {
            if !req_codes.contains(&c) && rng.chance(1, 4) {
                add(&mut fields, &mut rng, c);
            }
        }
        if rng.chance(1, 30) && !fields.is_empty() {
            let d = fields[rng.below(fields.len() as u64) as usize].clone();
            fields.push(d); // duplicate
        }
        // unknown fields with arbitrary (deep) variant types at any position
        let n_unknown = if rng.chance(1, 2) { rng.range(1, 2) } else { 0 };
        for _ in 0..n_unknown {
            let code = *rng.pick(&[10u8, 11, 42, 127, 128, 255, 10, 11, 42, 127, 128, 255, 200, 99, 0]);
            let dd = rng_depth(&mut rng);
            let t = gen_ty(&mut rng, dd, false);
            let mut c = 0;
            let v = gen_val(&mut rng, &t, 2, &mut c);
            let pos = rng.below(fields.len() as u64 + 1) as usize;
            fields.insert(pos, (code, t, v));
        }
        // shuffle
        for k in (1..fields.len()).rev() {
            let j = rng.below(k as u64 + 1) as usize;
            fields.swap(k, j);
        }
        let body: Vec<u8> = match rng.below(3) {
            0 => vec![],
            1 => vec![1, 2, 3, 4],
            _ => (0..rng.range(1, 20)).map(|_| rng.next() as u8).collect(),
        };
        let f = Foreign {
            le: rng.chance(1, 2),
            typ,
            flags: rng.next() as u8,
            version: if rng.chance(1, 20) { *rng.pick(&[0u8, 2, 255]) } else { 1 },
            serial: if rng.chance(1, 20) { 0 } else { 1 + rng.below(1000) as u32 },
            body,
            fields,
        };
        let bytes = f.write();
        let has_unknown = f.fields.iter().any(|(c, _, _)| *c == 0 || *c >= 10);
        let order: Vec<u8> = f.fields.iter().map(|(c, _, _)| *c).filter(|c| (1..=9).contains(c)).collect();
        let obs = lib_decode_msg(&bytes, Some(&order));
        out.hit(if obs == "reject" { "foreign_reject" } else { "foreign_ok" });
        if has_unknown {
            out.hit("with_unknown_field");
            // directly: unknown fields (codes >= 10) carrying a valid variant do not disturb the others:
            // the same header without them decodes to the same result
            let mut g = Foreign { fields: f.fields.iter().filter(|(c, _, _)| (1..=9).contains(c)).cloned().collect(), body: f.body.clone(), ..f };
            g.le = f.le;
            if !f.fields.iter().any(|(c, _, _)| *c == 0) {
                let obs2 = lib_decode_msg(&g.write(), Some(&order));
                let strip = |s: &str| s.to_string();
                if strip(&obs) != strip(&obs2) {
                    out.violation(&format!("h.msg {}", hex(&bytes)), &format!("unknown header fields changed the result: with {:?} without {:?}", obs, obs2));
                }
            }
        }
        out.case(&format!("h.msg {}", hex(&bytes)), &obs, true);
        out.case(&format!("h.hdr {}", hex(&bytes)), &lib_decode_hdr(&bytes, Some(&order)), true);
        if bytes.len() <= 200 && pool.len() < if cfg.thorough { 400 } else { 60 } {
            pool.push(bytes.clone());
        }
        // frame size computation of a real RecvConn on the first 16 bytes
        if i % 4 == 0 {
            need_case(&mut out, &mut pair, &bytes[..16]);
        }
    }
    // an unknown field whose variant signature holds MORE THAN ONE complete type ("uu", "yy", "us"), followed by bytes
    // that keep the field array well formed (the second value, nothing, zeros): not a valid variant, the header is refused
    for le in [true, false] {
        for (sig, vals) in [("uu", vec![('u', 1u32), ('u', 2)]), ("yy", vec![('y', 1), ('y', 2)]), ("us", vec![('u', 7), ('s', 0)]), ("uy", vec![('u', 7), ('y', 0)])] {
            for tail in 0..3u8 {
                for pos_last in [true, false] {
                    let u32b = |v: u32| if le { v.to_le_bytes() } else { v.to_be_bytes() };
                    let mut b = vec![if le { b'l' } else { b'B' }, 4, 0, 1];
                    b.extend_from_slice(&u32b(0));
                    b.extend_from_slice(&u32b(9));
                    b.extend_from_slice(&[0, 0, 0, 0]);
                    let put_str_field = |b: &mut Vec<u8>, code: u8, t: u8, text: &str| {
                        while b.len() % 8 != 0 {
                            b.push(0);
                        }
                        b.extend_from_slice(&[code, 1, t, 0]);
                        b.extend_from_slice(&u32b(text.len() as u32));
                        b.extend_from_slice(text.as_bytes());
                        b.push(0);
                    };
                    let put_unknown = |b: &mut Vec<u8>| {
                        while b.len() % 8 != 0 {
                            b.push(0);
                        }
                        b.push(42);
                        b.push(sig.len() as u8);
                        b.extend_from_slice(sig.as_bytes());
                        b.push(0);
                        // tail 0: both values; 1: only the first value; 2: the first value and zeros up to the boundary
                        for (i, (t, v)) in vals.iter().enumerate() {
                            if i == 1 && tail == 1 {
                                break;
                            }
                            if i == 1 && tail == 2 {
                                while b.len() % 8 != 0 {
                                    b.push(0);
                                }
                                break;
                            }
                            match t {
                                'y' => b.push(*v as u8),
                                'u' => {
                                    while b.len() % 4 != 0 {
                                        b.push(0);
                                    }
                                    b.extend_from_slice(&u32b(*v));
                                }
                                _ => {
                                    while b.len() % 4 != 0 {
                                        b.push(0);
                                    }
                                    b.extend_from_slice(&u32b(0));
                                    b.push(0);
                                }
                            }
                        }
                    };
                    put_str_field(&mut b, 1, b'o', "/a");
                    put_str_field(&mut b, 2, b's', "a.b");
                    if !pos_last {
                        put_unknown(&mut b);
                    }
                    put_str_field(&mut b, 3, b's', "M");
                    if pos_last {
                        put_unknown(&mut b);
                    }
                    let flen = (b.len() - 16) as u32;
                    b[12..16].copy_from_slice(&u32b(flen));
                    while b.len() % 8 != 0 {
                        b.push(0);
                    }
                    let obs = lib_decode_msg(&b, Some(&[1, 2, 3]));
                    if obs != "reject" {
                        out.violation(&format!("h.msg {}", hex(&b)), &format!("a header with an unknown field whose variant signature is {:?} (two complete types) was accepted: {}", sig, obs));
                    }
                    out.hit("unknown_field_multi_type_variant");
                    out.case(&format!("h.msg {}", hex(&b)), &obs, true);
                }
            }
        }
    }
    // announced lengths around the limits
    for (fl, bl) in [(0u32, 0u32), (8, 0), (1 << 26, 0), ((1 << 26) + 1, 0), (0, 1 << 27), (0, (1 << 27) - 16), (0, (1 << 27) - 15), (u32::MAX, 0), (0, u32::MAX), (u32::MAX, u32::MAX), (5, 3), (13, 1)] {
        for le in [true, false] {
            let u = |v: u32| if le { v.to_le_bytes() } else { v.to_be_bytes() };
            let mut b = vec![if le { b'l' } else { b'B' }, 1, 0, 1];
            b.extend_from_slice(&u(bl));
            b.extend_from_slice(&u(9));
            b.extend_from_slice(&u(fl));
            need_case(&mut out, &mut pair, &b);
        }
    }
    // fewer than 16 bytes buffered (a short read that ends inside the fixed header or inside the length of the field
    // array): the receive loop is told to go on reading up to 16
    for le in [true, false] {
        let u = |v: u32| if le { v.to_le_bytes() } else { v.to_be_bytes() };
        let mut b = vec![if le { b'l' } else { b'B' }, 4, 0, 1];
        b.extend_from_slice(&u(24));
        b.extend_from_slice(&u(0x01020304));
        b.extend_from_slice(&u(40));
        for k in 0..16usize {
            out.hit("need_case_short_prefix");
            need_case(&mut out, &mut pair, &b[..k]);
        }
    }
    // a frame that is complete but refused (a non-zero byte in the padding between header and body) is followed, on the
    // same connection, by valid frames of other lengths / byte order: each is sized and decoded from ITS OWN bytes
    {
        use rustbus::connection::Timeout;
        use std::io::Write;
        for round in 0..(if cfg.thorough { 24 } else { 6 }) {
            let (mut conn, mut server) = peer::connect_pair(false);
            let mk = |member: &str, body: u32, le: bool, serial: u32| -> Vec<u8> {
                let mut m = if le { rustbus::message_builder::MessageBuilder::new() } else { rustbus::message_builder::MessageBuilder::with_byteorder(rustbus::ByteOrder::BigEndian) }.signal("a.b", member.to_string(), "/o").build();
                m.body.push_param(body).unwrap();
                let mut f = Vec::new();
                rustbus::wire::marshal::marshal(&m, NonZeroU32::new(serial).unwrap(), &mut f).unwrap();
                f.extend_from_slice(m.get_buf());
                f
            };
            // member name lengths chosen so that 1..7 padding bytes separate header and body
            let bad_member = "M".repeat(1 + round % 7);
            let mut bad = mk(&bad_member, 7, round % 2 == 0, 900 + round as u32);
            let hdr_fields = rd_u32(&bad, 12);
            let pad_at = 16 + hdr_fields;
            if pad_at % 8 == 0 {
                continue;
            }
            bad[pad_at] = 0x5a;
            server.write_all(&bad).unwrap();
            let r1 = conn.recv.get_next_message(Timeout::Duration(std::time::Duration::from_millis(300)));
            let req = format!("c06.after_refused pad_at={} round={}", pad_at, round);
            if r1.is_ok() {
                out.violation(&req, "a frame with a non-zero padding byte between header and body was accepted");
            }
            let followers = [mk("Next", 0x01020304, round % 2 == 1, 77), mk("AnotherLongerMemberName", 9, round % 2 == 0, 78), mk("N", 3, true, 79)];
            for (i, f) in followers.iter().enumerate() {
                server.write_all(f).unwrap();
                match conn.recv.get_next_message(Timeout::Duration(std::time::Duration::from_millis(300))) {
                    Ok(m) => {
                        let want = peer::decode_frame(f).unwrap();
                        if m.dynheader.serial != want.dynheader.serial || m.dynheader.member != want.dynheader.member || m.get_buf() != want.get_buf() {
                            out.violation(&req, &format!("frame {} after the refused one was decoded as serial {:?} member {:?}, it is serial {:?} member {:?}", i, m.dynheader.serial, m.dynheader.member, want.dynheader.serial, want.dynheader.member));
                        }
                    }
                    Err(e) => out.violation(&req, &format!("valid frame {} after a refused one was not delivered: {:?}", i, e)),
                }
            }
            out.hit("after_refused_frame");
        }
    }
    // single-fault corruptions of the header region of pooled messages: every byte +1 -1 -2 -3 +4 -4 ^0x80 :=0/1 and
    // truncation at every position (an understated / overstated length word by 1..4, a flipped type character, ...);
    // over the cap: a uniform sample over the WHOLE header region
    let cap = if cfg.thorough { 1500 } else { 500 };
    for m in &pool {
        let hdr_end = (16 + rd_u32_safe(m, 12)).min(m.len());
        let mut faults: Vec<(usize, u8)> = Vec::new();
        for i in 0..hdr_end.min(m.len()) {
            for kind in 0..9u8 {
                faults.push((i, kind));
            }
        }
        if faults.len() > cap {
            for k in 0..cap {
                let j = k + rng.below((faults.len() - k) as u64) as usize;
                faults.swap(k, j);
            }
            faults.truncate(cap);
        }
        for (i, kind) in faults {
            let mut x = m.clone();
            match kind {
                0 => x[i] = x[i].wrapping_add(1),
                1 => x[i] ^= 0x80,
                2 => x[i] = if x[i] == 0 { 1 } else { 0 },
                3 => x[i] = x[i].wrapping_sub(1),
                4 => x[i] = x[i].wrapping_sub(2),
                5 => x[i] = x[i].wrapping_sub(3),
                6 => x[i] = x[i].wrapping_add(4),
                7 => x[i] = x[i].wrapping_sub(4),
                _ => x.truncate(i),
            }
            out.hit("corruption");
            out.case(&format!("h.msg {}", hex(&x)), &lib_decode_msg(&x, None_if_unwalkable(&x).as_deref()), true);
        }
    }
    // random bytes
    let nr = if cfg.thorough { 100_000 } else { 10_000 };
    for _ in 0..nr {
        let len = rng.range(0, 48) as usize;
        let mut b: Vec<u8> = (0..len).map(|_| if rng.chance(1, 2) { 0 } else { rng.next() as u8 }).collect();
        if len >= 4 && rng.chance(3, 4) {
            b[0] = if rng.chance(1, 2) { b'l' } else { b'B' };
            b[1] = rng.range(0, 5) as u8;
            b[3] = 1;
        }
        out.hit("random_bytes");
        out.case(&format!("h.hdr {}", hex(&b)), &lib_decode_hdr(&b, None_if_unwalkable(&b).as_deref()), true);
    }
    out.finish(
        "foreign headers from an independent writer: 4 valid + 2 invalid message types, required fields mostly present, optional fields, wrong value types, duplicates, unknown codes (10,11,42,127,128,255) and code 0 with variants of random (deep) type inserted at any position, shuffled field order, wrong version, zero serial, both byte orders; decoded as whole messages (h.msg) and headers (h.hdr); frame size of a real RecvConn on the first 16 bytes and on announced lengths around every limit (h.need); single-byte faults (+1 -1 -2 -3 +4 -4 ^0x80 :=0/1, truncate; uniform sample over the whole header region when over the cap) of pooled messages; every known field duplicated / carried with every other basic type systematically; random bytes; distinct by request",
        false,
    );
}

#[allow(non_snake_case)]
fn None_if_unwalkable(b: &[u8]) -> Option<Vec<u8>> {
    walk_fields(b).map(|f| f.iter().map(|(c, _)| *c).collect())
}

fn rd_u32_safe(buf: &[u8], o: usize) -> usize {
    if buf.len() < o + 4 {
        return 0;
    }
    rd_u32(buf, o)
}

fn rng_depth(rng: &mut Prng) -> usize {
    rng.range(0, 3) as usize
}

/// feed exactly 16 bytes to a real RecvConn and ask how many bytes the current message needs
fn need_case(out: &mut Out, pair: &mut (rustbus::connection::ll_conn::DuplexConn, std::os::unix::net::UnixStream), first16: &[u8]) {
    use rustbus::connection::Timeout;
    use std::io::Write;
    pair.1.write_all(first16).unwrap();
    let _ = pair.0.recv.read_once(Timeout::Nonblock);
    let r = guard(|| pair.0.recv.bytes_needed_for_current_message());
    let obs = match r {
        Ok(Ok(n)) => format!("need {}", n),
        Ok(Err(rustbus::connection::Error::UnmarshalError(rustbus::wire::errors::UnmarshalError::MessageTooLong))) => "toolong".into(),
        Ok(Err(_)) => "invalid".into(),
        Err(p) => format!("panic {}", p),
    };
    out.hit("need_case");
    out.case(&format!("h.need {}", hex(first16)), &obs, true);
    // the buffered bytes cannot be discarded through the public API: continue on a fresh connection
    *pair = peer::connect_pair(false);
}
