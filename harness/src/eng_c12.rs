//! C12: a deterministic scheduler over REAL threads running the REAL `UnixFd` code.
//!
//! Every worker thread installs a `verif_hooks` callback that reports each hook point (FdLoad,
//! FdCompareExchange, FdInnerDrop, FdDup, FdClose) to the scheduler and blocks until the scheduler grants
//! the next step; the start of every operation is a blocking point as well. At any moment at most one
//! worker runs. The scheduler enumerates EVERY interleaving (stateless DFS: the program set is re-run from
//! scratch for each complete schedule) of small program sets over take / get / dup / clone / drop on clones
//! of one handle that wraps a real descriptor, and for every complete schedule
//!  * writes `c12.run <programs> <schedule>` + the observation (arrival point after each grant, per-thread
//!    results, dup/close log with abstract descriptor names, kernel state of the original at the end) which
//!    the Lean model must reproduce on the same schedule, and
//!  * evaluates the property directly (see `check_execution`).
use rustbus::verif_hooks::{set_callback, Point};
use rustbus::wire::UnixFd;
use std::cell::{Cell, RefCell};
use std::collections::HashMap;
use std::rc::Rc;
use std::sync::mpsc::{channel, Receiver, Sender};
use std::time::Duration;
use vcore::common::*;

#[derive(Clone, Copy, PartialEq, Eq, Debug)]
enum OpK {
    Take,
    Get,
    Dup,
    Clone,
    Drop,
    /// a dup during which the process has no descriptor left: the dup system call is refused (EMFILE)
    DupFail,
}

impl OpK {
    fn ch(self) -> char {
        match self {
            OpK::Take => 't',
            OpK::Get => 'g',
            OpK::Dup => 'd',
            OpK::Clone => 'c',
            OpK::Drop => 'x',
            OpK::DupFail => 'f',
        }
    }
    fn parse(c: char) -> Option<OpK> {
        Some(match c {
            't' => OpK::Take,
            'g' => OpK::Get,
            'd' => OpK::Dup,
            'c' => OpK::Clone,
            'x' => OpK::Drop,
            'f' => OpK::DupFail,
            _ => return None,
        })
    }
}

const ALL_OPS: [OpK; 5] = [OpK::Take, OpK::Get, OpK::Dup, OpK::Clone, OpK::Drop];

/// where a worker waits
#[derive(Clone, Copy, PartialEq, Eq, Debug)]
enum Pt {
    OpStart,
    Load,
    Cas,
    InnerDrop,
    Dup(i32),
    Close(i32),
}

/// what an operation returned (raw descriptor numbers; the scheduler maps them to names)
#[derive(Clone, Debug, PartialEq, Eq)]
enum ResK {
    Take(Option<i32>),
    Get(Option<i32>),
    DupOk(i32),
    DupTaken,
    DupIo,
    Cloned,
    Dropped,
}

impl ResK {
    fn sees_fd(&self) -> bool {
        matches!(self, ResK::Take(Some(_)) | ResK::Get(Some(_)) | ResK::DupOk(_))
    }
}

enum Msg {
    Arrived { tid: usize, pt: Pt, result: Option<ResK>, notes: Vec<String> },
    Finished { tid: usize, result: Option<ResK>, notes: Vec<String>, panicked: Option<String> },
}

enum Cmd {
    Job { prog: Vec<OpK>, handle: UnixFd },
    Go,
    Quit,
}

struct Ctx {
    tid: usize,
    tx: Sender<Msg>,
    rx: Receiver<Cmd>,
    /// the thread is dropping the private duplicate it just made: its atomics are invisible to everybody
    /// else, only its close is a scheduling point
    private: Cell<bool>,
    private_seq: RefCell<Vec<Point>>,
    pending: RefCell<Option<ResK>>,
    notes: RefCell<Vec<String>>,
    /// the dup system call of the current operation is to be refused: the descriptor limit is lowered to 0 when the
    /// thread is released from its FdDup point (all other threads are blocked at their points meanwhile)
    fail_dup: Cell<bool>,
}

impl Ctx {
    /// report the point and block until the scheduler grants the next step
    fn arrive(&self, pt: Pt) {
        let result = self.pending.borrow_mut().take();
        let notes = std::mem::take(&mut *self.notes.borrow_mut());
        let _ = self.tx.send(Msg::Arrived { tid: self.tid, pt, result, notes });
        match spin_recv(&self.rx, None) {
            Some(Cmd::Go) => {}
            _ => panic!("c12 worker: scheduler went away"),
        }
    }
    fn hook(&self, p: Point) {
        if self.private.get() {
            match p {
                Point::FdClose(fd) => self.arrive(Pt::Close(fd)),
                other => self.private_seq.borrow_mut().push(other),
            }
        } else {
            let pt = match p {
                Point::FdLoad => Pt::Load,
                Point::FdCompareExchange => Pt::Cas,
                Point::FdInnerDrop => Pt::InnerDrop,
                Point::FdDup(fd) => Pt::Dup(fd),
                Point::FdClose(fd) => Pt::Close(fd),
            };
            self.arrive(pt);
            if self.fail_dup.get() && matches!(pt, Pt::Dup(_)) {
                set_nofile_soft(0);
            }
        }
    }
}

/// receive with a short busy-wait first: a hand-over between two running threads then costs well under a
/// microsecond instead of two futex round trips; falls back to a blocking receive
fn spin_recv<T>(rx: &Receiver<T>, timeout: Option<Duration>) -> Option<T> {
    for i in 0..200_000u32 {
        match rx.try_recv() {
            Ok(m) => return Some(m),
            Err(std::sync::mpsc::TryRecvError::Disconnected) => return None,
            Err(std::sync::mpsc::TryRecvError::Empty) => {}
        }
        if i % 256 == 255 {
            std::thread::yield_now();
        } else {
            std::hint::spin_loop();
        }
    }
    match timeout {
        Some(t) => rx.recv_timeout(t).ok(),
        None => rx.recv().ok(),
    }
}

/// how `execute` sets the scene: 0 = the shared descriptor gets a number >= 300; 1 = it gets the number 0 (a process whose
/// stdin is closed: 0 is a descriptor number like any other); 2 = the kernel answers the `close` of the shared
/// descriptor with EINTR once (on Linux the descriptor is released all the same: the call must not be repeated)
static EXEC_MODE: std::sync::atomic::AtomicU8 = std::sync::atomic::AtomicU8::new(0);
static EINTR_ONCE_FD: std::sync::atomic::AtomicI32 = std::sync::atomic::AtomicI32::new(-1);

/// Every `close` of this process goes through here (the executable's symbol takes precedence over libc's): the system
/// call itself, plus the injected EINTR answer for one armed descriptor number.
#[no_mangle]
pub extern "C" fn close(fd: libc::c_int) -> libc::c_int {
    use std::sync::atomic::Ordering::SeqCst;
    let r = unsafe { libc::syscall(libc::SYS_close, fd) } as libc::c_int;
    if fd >= 0 && EINTR_ONCE_FD.compare_exchange(fd, -1, SeqCst, SeqCst).is_ok() {
        unsafe { *libc::__errno_location() = libc::EINTR };
        return -1;
    }
    r
}

fn nofile_soft() -> libc::rlim_t {
    let mut r = libc::rlimit { rlim_cur: 0, rlim_max: 0 };
    unsafe { libc::getrlimit(libc::RLIMIT_NOFILE, &mut r) };
    r.rlim_cur
}
fn set_nofile_soft(cur: libc::rlim_t) {
    let mut r = libc::rlimit { rlim_cur: 0, rlim_max: 0 };
    unsafe { libc::getrlimit(libc::RLIMIT_NOFILE, &mut r) };
    r.rlim_cur = cur;
    unsafe { libc::setrlimit(libc::RLIMIT_NOFILE, &r) };
}

fn run_job(ctx: &Rc<Ctx>, prog: Vec<OpK>, handle: UnixFd) {
    let mut handles = vec![handle];
    for op in prog {
        ctx.arrive(Pt::OpStart);
        let res = match op {
            OpK::Take => {
                let h = handles.pop().expect("program owns a handle");
                ResK::Take(h.take_raw_fd())
            }
            OpK::Get => ResK::Get(handles.last().expect("program owns a handle").get_raw_fd()),
            OpK::Dup => match handles.last().expect("program owns a handle").dup() {
                Ok(d) => {
                    ctx.private.set(true);
                    ctx.private_seq.borrow_mut().clear();
                    let n = d.get_raw_fd();
                    drop(d);
                    ctx.private.set(false);
                    let seq = ctx.private_seq.borrow().clone();
                    if seq != [Point::FdLoad, Point::FdInnerDrop, Point::FdLoad, Point::FdCompareExchange] {
                        ctx.notes.borrow_mut().push(format!("dup-result-drop-hooks={:?}", seq));
                    }
                    match n {
                        Some(n) => ResK::DupOk(n),
                        None => {
                            ctx.notes.borrow_mut().push("fresh duplicate reports no descriptor".into());
                            ResK::DupOk(-1)
                        }
                    }
                }
                // DupError is not exported by the crate; it derives Debug
                Err(e) => {
                    if format!("{:?}", e) == "AlreadyTaken" {
                        ResK::DupTaken
                    } else {
                        ResK::DupIo
                    }
                }
            },
            OpK::DupFail => {
                let limit = nofile_soft();
                ctx.fail_dup.set(true);
                let r = handles.last().expect("program owns a handle").dup();
                ctx.fail_dup.set(false);
                set_nofile_soft(limit);
                match r {
                    Ok(d) => {
                        ctx.notes.borrow_mut().push("dup() returned a handle although the process could not get a descriptor".into());
                        ctx.private.set(true);
                        let n = d.get_raw_fd().unwrap_or(-1);
                        drop(d);
                        ctx.private.set(false);
                        ResK::DupOk(n)
                    }
                    Err(e) => {
                        if format!("{:?}", e) == "AlreadyTaken" {
                            ResK::DupTaken
                        } else {
                            ResK::DupIo
                        }
                    }
                }
            }
            OpK::Clone => {
                let c = handles.last().expect("program owns a handle").clone();
                handles.push(c);
                ResK::Cloned
            }
            OpK::Drop => {
                drop(handles.pop().expect("program owns a handle"));
                ResK::Dropped
            }
        };
        *ctx.pending.borrow_mut() = Some(res);
    }
    // end of the thread: the handles it still owns go out of scope, one after the other
    while let Some(h) = handles.pop() {
        ctx.arrive(Pt::OpStart);
        drop(h);
        *ctx.pending.borrow_mut() = Some(ResK::Dropped);
    }
}

fn worker(tid: usize, tx: Sender<Msg>, rx: Receiver<Cmd>) {
    let ctx = Rc::new(Ctx {
        tid,
        tx,
        rx,
        private: Cell::new(false),
        private_seq: RefCell::new(Vec::new()),
        pending: RefCell::new(None),
        notes: RefCell::new(Vec::new()),
        fail_dup: Cell::new(false),
    });
    let c2 = ctx.clone();
    set_callback(Some(Box::new(move |p| c2.hook(p))));
    loop {
        match spin_recv(&ctx.rx, None).ok_or(()) {
            Ok(Cmd::Job { prog, handle }) => {
                ctx.private.set(false);
                let r = std::panic::catch_unwind(std::panic::AssertUnwindSafe(|| run_job(&ctx, prog, handle)));
                let panicked = r.err().map(|e| {
                    e.downcast_ref::<String>()
                        .cloned()
                        .or_else(|| e.downcast_ref::<&str>().map(|s| s.to_string()))
                        .unwrap_or_else(|| "panic".into())
                });
                let result = ctx.pending.borrow_mut().take();
                let notes = std::mem::take(&mut *ctx.notes.borrow_mut());
                let _ = ctx.tx.send(Msg::Finished { tid, result, notes, panicked });
            }
            Ok(Cmd::Go) => {}
            Ok(Cmd::Quit) | Err(_) => break,
        }
    }
    set_callback(None);
}

struct Pool {
    cmd: Vec<Sender<Cmd>>,
    rx: Receiver<Msg>,
    joins: Vec<std::thread::JoinHandle<()>>,
}

impl Pool {
    fn new(n: usize) -> Pool {
        let (tx, rx) = channel();
        let mut cmd = Vec::new();
        let mut joins = Vec::new();
        for tid in 0..n {
            let (ctx, crx) = channel();
            let tx = tx.clone();
            joins.push(std::thread::spawn(move || worker(tid, tx, crx)));
            cmd.push(ctx);
        }
        Pool { cmd, rx, joins }
    }
    fn quit(self) {
        for c in &self.cmd {
            let _ = c.send(Cmd::Quit);
        }
        for j in self.joins {
            let _ = j.join();
        }
    }
}

fn fd_open(fd: i32) -> bool {
    unsafe { libc::fcntl(fd, libc::F_GETFD) != -1 }
}

/// one finished operation, for the direct checks
struct OpRec {
    tid: usize,
    kind: OpK,
    /// step index of the grant that executed the operation's first load on the shared cell
    load_step: Option<usize>,
    /// step index of the grant that executed the operation's own compare_exchange (take only)
    cas_step: Option<usize>,
    end_step: usize,
    res: ResK,
}

struct Exec {
    schedule: Vec<u8>,
    enabled: Vec<u8>,
    obs: String,
    violations: Vec<String>,
    fatal: Option<String>,
    preempted_mid_op: bool,
    take_won: bool,
    take_lost_cas: u64,
    closes_orig: u64,
    last_drop_in_take: bool,
    dup_after_take: bool,
}

struct ThreadSt {
    at: Option<Pt>, // None = finished
    prog_pos: usize,
    cur_op: Option<OpK>,
    in_drop: bool,
    owned: u32,
    cur_load_step: Option<usize>,
    cur_cas_step: Option<usize>,
    results: Vec<ResK>,
}

impl ThreadSt {
    /// handles this thread keeps alive: the ones it owns plus the one a take / drop is consuming whose
    /// Arc decrement has not happened yet (it happens in the grant that leaves the take's own
    /// load / compare_exchange, resp. in the first grant of a drop)
    fn alive(&self) -> u32 {
        let consuming = matches!(self.cur_op, Some(OpK::Take)) && !self.in_drop && matches!(self.at, Some(Pt::Load) | Some(Pt::Cas));
        self.owned + consuming as u32
    }
}

const RECV_TIMEOUT: Duration = Duration::from_secs(20);

/// run the programs once: follow `prefix`, afterwards always grant the lowest enabled thread
fn execute(pool: &Pool, base_fd: i32, programs: &[Vec<OpK>], prefix: &[u8]) -> Exec {
    let n = programs.len();
    let mode = EXEC_MODE.load(std::sync::atomic::Ordering::SeqCst);
    let orig = if mode == 1 {
        let r = unsafe { libc::dup2(base_fd, 0) };
        assert!(r == 0, "cannot install the shared descriptor as number 0");
        0
    } else {
        let r = unsafe { libc::fcntl(base_fd, libc::F_DUPFD_CLOEXEC, 300) };
        assert!(r >= 300, "cannot create the shared descriptor");
        r
    };
    EINTR_ONCE_FD.store(if mode == 2 { orig } else { -1 }, std::sync::atomic::Ordering::SeqCst);
    let mut ex = Exec {
        schedule: Vec::new(),
        enabled: Vec::new(),
        obs: String::new(),
        violations: Vec::new(),
        fatal: None,
        preempted_mid_op: false,
        take_won: false,
        take_lost_cas: 0,
        closes_orig: 0,
        last_drop_in_take: false,
        dup_after_take: false,
    };
    let mut th: Vec<ThreadSt> = (0..n)
        .map(|_| ThreadSt { at: None, prog_pos: 0, cur_op: None, in_drop: false, owned: 1, cur_load_step: None, cur_cas_step: None, results: Vec::new() })
        .collect();
    let mut recs: Vec<OpRec> = Vec::new();
    let mut labels: Vec<String> = Vec::new();
    let mut log: Vec<String> = Vec::new();
    let mut dup_names: HashMap<i32, usize> = HashMap::new();
    let mut dup_count = 0usize;
    let mut pending_dup_log: Option<usize> = None;
    let mut closed_while_alive_reported = false;
    let mut anomalies: Vec<String> = Vec::new();

    // hand out the handles: the creator's own handle moves into thread 0, clones to the others
    {
        let first = UnixFd::new(orig);
        let mut hs: Vec<UnixFd> = (1..n).map(|_| first.clone()).collect();
        hs.insert(0, first);
        for (i, h) in hs.into_iter().enumerate() {
            pool.cmd[i].send(Cmd::Job { prog: programs[i].clone(), handle: h }).unwrap();
        }
    }
    let name_of = |fd: i32, dup_names: &HashMap<i32, usize>| -> String {
        if fd == orig {
            "o".to_string()
        } else if let Some(k) = dup_names.get(&fd) {
            format!("d{}", k)
        } else {
            "?".to_string()
        }
    };
    // every worker runs to its first blocking point (nothing shared is touched before it)
    let mut waiting_first = n;
    while waiting_first > 0 {
        match spin_recv(&pool.rx, Some(RECV_TIMEOUT)) {
            Some(Msg::Arrived { tid, pt, .. }) => {
                th[tid].at = Some(pt);
                waiting_first -= 1;
            }
            Some(Msg::Finished { tid, panicked, .. }) => {
                th[tid].at = None;
                if let Some(p) = panicked {
                    ex.violations.push(format!("thread {} panicked: {}", tid, p));
                }
                waiting_first -= 1;
            }
            None => {
                ex.fatal = Some("a worker did not reach its first point".into());
                return ex;
            }
        }
    }
    let mut step = 0usize;
    loop {
        let mut mask = 0u8;
        for (i, t) in th.iter().enumerate() {
            if t.at.is_some() {
                mask |= 1 << i;
            }
        }
        if mask == 0 {
            break;
        }
        let t = if step < prefix.len() { prefix[step] as usize } else { mask.trailing_zeros() as usize };
        if mask & (1 << t) == 0 {
            ex.fatal = Some(format!("schedule names thread {} which is not enabled at step {}", t, step));
            break;
        }
        if let Some(&prev) = ex.schedule.last() {
            let p = prev as usize;
            if p != t && th[p].at.is_some() && th[p].at != Some(Pt::OpStart) {
                ex.preempted_mid_op = true;
            }
        }
        ex.schedule.push(t as u8);
        ex.enabled.push(mask);
        // what this grant executes
        let at = th[t].at.unwrap();
        match at {
            Pt::OpStart => {
                let op = programs[t].get(th[t].prog_pos).copied().unwrap_or(OpK::Drop);
                th[t].prog_pos += 1;
                th[t].cur_op = Some(op);
                th[t].in_drop = false;
                th[t].cur_load_step = None;
                th[t].cur_cas_step = None;
                match op {
                    OpK::Take | OpK::Drop => th[t].owned -= 1, // the drop's decrement happens within this grant
                    OpK::Clone => th[t].owned += 1,
                    _ => {}
                }
            }
            Pt::Load => {
                if !th[t].in_drop && th[t].cur_load_step.is_none() {
                    th[t].cur_load_step = Some(step);
                }
            }
            Pt::Cas => {
                if !th[t].in_drop {
                    th[t].cur_cas_step = Some(step);
                }
            }
            Pt::InnerDrop => {}
            Pt::Dup(fd) => {
                log.push(format!("{}:dup:{}>", t, name_of(fd, &dup_names)));
                pending_dup_log = Some(log.len() - 1);
                if ex.take_won || recs.iter().any(|r| matches!(r.res, ResK::Take(Some(_)))) {
                    ex.dup_after_take = true;
                }
            }
            Pt::Close(fd) => {
                log.push(format!("{}:close:{}", t, name_of(fd, &dup_names)));
                if fd == orig {
                    ex.closes_orig += 1;
                    let alive: u32 = th.iter().map(|x| x.alive()).sum();
                    if alive > 0 {
                        ex.violations.push(format!("step {}: thread {} closes the original descriptor while {} handle(s) are alive", step, t, alive));
                    }
                } else {
                    dup_names.remove(&fd);
                }
            }
        }
        pool.cmd[t].send(Cmd::Go).unwrap();
        let msg = match spin_recv(&pool.rx, Some(RECV_TIMEOUT)) {
            Some(m) => m,
            None => {
                ex.fatal = Some(format!("thread {} did not reach the next point after step {}", t, step));
                break;
            }
        };
        let (tid, new_at, result, notes, panicked) = match msg {
            Msg::Arrived { tid, pt, result, notes } => (tid, Some(pt), result, notes, None),
            Msg::Finished { tid, result, notes, panicked } => (tid, None, result, notes, panicked),
        };
        if tid != t {
            ex.fatal = Some(format!("thread {} moved while thread {} was granted", tid, t));
            break;
        }
        for nt in notes {
            if nt.starts_with("dup-result-drop-hooks") {
                // not a failure of the property: the private duplicate's Drop announced other points than the
                // modelled load / InnerDrop / load / compare_exchange; shows up as a disagreement with the model
                anomalies.push(format!("{}:{}", t, nt.replace(' ', "")));
            } else {
                ex.violations.push(format!("thread {}: {}", t, nt));
            }
        }
        if let Some(p) = panicked {
            ex.violations.push(format!("thread {} panicked: {}", t, p));
        }
        // the duplicate's name: known when the duplicating thread arrives at the close of its result handle
        if let Some(i) = pending_dup_log.take() {
            match (&new_at, th[t].cur_op) {
                (Some(Pt::Close(nfd)), Some(OpK::Dup)) => {
                    dup_count += 1;
                    dup_names.insert(*nfd, dup_count);
                    log[i].push_str(&format!("d{}", dup_count));
                    if *nfd == orig || !fd_open(*nfd) {
                        ex.violations.push(format!("step {}: dup returned {} which is not a new open descriptor", step, nfd));
                    }
                }
                _ => log[i].push_str("err"),
            }
        } else if let Pt::Close(cfd) = at {
            if cfd != orig && fd_open(cfd) {
                ex.violations.push(format!("step {}: the duplicate is still open after its close", step));
            }
        }
        if new_at == Some(Pt::InnerDrop) {
            th[t].in_drop = true;
            if th[t].cur_op == Some(OpK::Take) {
                ex.last_drop_in_take = true;
            }
        }
        th[t].at = new_at;
        if let Some(r) = result {
            if let Some(op) = th[t].cur_op.take() {
                if op == OpK::Take && matches!(r, ResK::Take(None)) && th[t].cur_cas_step.is_some() {
                    ex.take_lost_cas += 1;
                }
                recs.push(OpRec { tid: t, kind: op, load_step: th[t].cur_load_step, cas_step: th[t].cur_cas_step, end_step: step, res: r.clone() });
            }
            th[t].results.push(r);
            th[t].in_drop = false;
        }
        labels.push(match new_at {
            None => "F".to_string(),
            Some(Pt::OpStart) => "S".to_string(),
            Some(Pt::Load) => "L".to_string(),
            Some(Pt::Cas) => "X".to_string(),
            Some(Pt::InnerDrop) => "I".to_string(),
            Some(Pt::Dup(fd)) => format!("D{}", name_of(fd, &dup_names)),
            Some(Pt::Close(fd)) => format!("C{}", name_of(fd, &dup_names)),
        });
        // kernel's view: the original must be open as long as a handle is alive
        if !closed_while_alive_reported && !fd_open(orig) {
            let alive: u32 = th.iter().map(|x| x.alive()).sum();
            if alive > 0 {
                closed_while_alive_reported = true;
                ex.violations.push(format!("after step {} (thread {}): the original descriptor is closed in the kernel while {} handle(s) are alive", step, t, alive));
            }
        }
        step += 1;
        if step > 400 {
            ex.fatal = Some("more than 400 steps".into());
            break;
        }
    }
    if ex.fatal.is_some() {
        return ex;
    }
    check_execution(&mut ex, &recs, orig);
    let final_open = fd_open(orig);
    let taken = recs.iter().any(|r| matches!(r.res, ResK::Take(Some(_))));
    ex.take_won = taken;
    if taken {
        if !final_open {
            ex.violations.push("a take succeeded but the descriptor is closed at the end: the library closed a taken descriptor".into());
        }
    } else if final_open {
        ex.violations.push("nobody took the descriptor, all handles are dropped, and it is still open: never closed".into());
    }
    if final_open {
        unsafe { libc::close(orig) };
    }
    let expected_closes = if taken { 0 } else { 1 };
    if ex.closes_orig != expected_closes {
        ex.violations.push(format!("{} close call(s) on the original descriptor, expected {} (taken: {})", ex.closes_orig, expected_closes, taken));
    }
    for (fd, k) in dup_names.iter() {
        ex.violations.push(format!("duplicate d{} (fd {}) was never closed", k, fd));
    }
    let show = |r: &ResK| -> String {
        match r {
            ResK::Take(Some(fd)) => format!("T{}", if *fd == orig { "o" } else { "?" }),
            ResK::Take(None) => "t-".into(),
            ResK::Get(Some(fd)) => format!("G{}", if *fd == orig { "o" } else { "?" }),
            ResK::Get(None) => "g-".into(),
            ResK::DupOk(_) => "D".into(), // completed below with the duplicate's name
            ResK::DupTaken => "d-".into(),
            ResK::DupIo => "dE".into(),
            ResK::Cloned => "c".into(),
            ResK::Dropped => "x".into(),
        }
    };
    // names of the duplicates in results: the k-th successful dup system call made the k-th name; recover it
    // from the log (entries "<tid>:dup:<src>>d<k>" of that thread, in order)
    let mut res_strs: Vec<String> = Vec::new();
    for (t, x) in th.iter().enumerate() {
        let mut names = log.iter().filter(|l| l.starts_with(&format!("{}:dup:", t)) && !l.ends_with("err")).map(|l| l.rsplit('>').next().unwrap().to_string());
        let v: Vec<String> = x
            .results
            .iter()
            .map(|r| if let ResK::DupOk(_) = r { format!("D{}", names.next().unwrap_or("?".into())) } else { show(r) })
            .collect();
        res_strs.push(if v.is_empty() { "-".into() } else { v.join(",") });
    }
    ex.obs = format!(
        "steps={} res={} log={} final={} fin=1",
        if labels.is_empty() { "-".to_string() } else { labels.join(",") },
        res_strs.join("|"),
        if log.is_empty() { "-".to_string() } else { log.join(",") },
        if final_open { "open" } else { "closed" }
    );
    if !anomalies.is_empty() {
        ex.obs.push_str(&format!(" anomalies={}", anomalies.join(";")));
    }
    ex
}

/// the property, evaluated on one execution of the real code
fn check_execution(ex: &mut Exec, recs: &[OpRec], orig: i32) {
    let winners: Vec<&OpRec> = recs.iter().filter(|r| matches!(r.res, ResK::Take(Some(_)))).collect();
    if winners.len() > 1 {
        ex.violations.push(format!(
            "{} takes succeeded (threads {:?})",
            winners.len(),
            winners.iter().map(|w| w.tid).collect::<Vec<_>>()
        ));
    }
    for w in &winners {
        if w.res != ResK::Take(Some(orig)) {
            ex.violations.push(format!("thread {}: take returned {:?}, not the original descriptor", w.tid, w.res));
        }
        // real-time order: the take's compare_exchange (if the code has none: its return)
        let point = w.cas_step.unwrap_or(w.end_step);
        for r in recs {
            if std::ptr::eq(r, *w) || !matches!(r.kind, OpK::Take | OpK::Get | OpK::Dup) {
                continue;
            }
            if let Some(l) = r.load_step {
                if l > point && r.res.sees_fd() {
                    ex.violations.push(format!(
                        "thread {}: {:?} whose first atomic step is step {} returned {:?} although thread {}'s take succeeded at step {}",
                        r.tid, r.kind, l, r.res, w.tid, point
                    ));
                }
            }
        }
    }
    for r in recs {
        if let ResK::Get(Some(fd)) = r.res {
            if fd != orig {
                ex.violations.push(format!("thread {}: get returned {} which is not the original descriptor", r.tid, fd));
            }
        }
        if r.kind == OpK::DupFail && matches!(r.res, ResK::DupOk(_)) {
            ex.violations.push(format!("thread {}: dup returned a handle although the system call was refused", r.tid));
        }
        if r.res == ResK::DupIo && r.kind != OpK::DupFail {
            ex.violations.push(format!("thread {}: dup failed with an I/O error (source descriptor not open?)", r.tid));
        }
    }
}

fn prog_str(p: &[OpK]) -> String {
    if p.is_empty() {
        "-".into()
    } else {
        p.iter().map(|o| o.ch()).collect()
    }
}

fn request(programs: &[Vec<OpK>], schedule: &[u8]) -> String {
    format!(
        "c12.run {} {}",
        programs.iter().map(|p| prog_str(p)).collect::<Vec<_>>().join("|"),
        if schedule.is_empty() { "-".to_string() } else { schedule.iter().map(|t| (b'0' + t) as char).collect() }
    )
}

struct Stats {
    executions: u64,
    max_len: usize,
    fatal: bool,
    /// executions with at least one direct violation
    violating: u64,
    /// the enumeration was cut short (too many violations, or a program set needs far more schedules than
    /// the code's atomic decomposition allows)
    incomplete: bool,
    /// largest observed (schedules of a set) / (static estimate of the set), in percent
    max_ratio_pct: u64,
}

/// after this many violating executions the evidence is sufficient and the enumeration stops
const MAX_VIOLATING: u64 = 5000;

fn record(out: &mut Out, st: &mut Stats, programs: &[Vec<OpK>], ex: &Exec) {
    let req = request(programs, &ex.schedule);
    if let Some(f) = &ex.fatal {
        out.violation(&req, &format!("execution aborted: {}", f));
        st.fatal = true;
        return;
    }
    for v in &ex.violations {
        out.violation(&req, v);
    }
    if !ex.violations.is_empty() {
        st.violating += 1;
    }
    st.executions += 1;
    st.max_len = st.max_len.max(ex.schedule.len());
    out.hit("executions");
    out.hit_n("steps_total", ex.schedule.len() as u64);
    if ex.take_won {
        out.hit("exec_take_won");
    } else {
        out.hit("exec_not_taken_closed_by_last_drop");
    }
    if ex.take_lost_cas > 0 {
        out.hit("exec_take_lost_compare_exchange");
    }
    if ex.last_drop_in_take {
        out.hit("exec_last_drop_inside_take");
    }
    if ex.dup_after_take {
        out.hit("exec_dup_syscall_after_take");
    }
    if ex.preempted_mid_op {
        out.hit("exec_preempted_inside_operation");
    }
    out.case(&req, &ex.obs, ex.preempted_mid_op);
}

/// every complete schedule of this program set, depth first
fn explore(out: &mut Out, st: &mut Stats, pool: &Pool, base_fd: i32, programs: &[Vec<OpK>], estimate: f64) -> u64 {
    let mut prefix: Vec<u8> = Vec::new();
    let mut count = 0u64;
    // on the unchanged code no set needs more schedules than its static estimate (the evidence reports the
    // largest ratio as max_schedules_per_estimate_percent); a set that needs 4x as many has a different
    // atomic decomposition than the one the space was dimensioned for
    let limit = (estimate * 4.0) as u64 + 500;
    loop {
        let ex = execute(pool, base_fd, programs, &prefix);
        record(out, st, programs, &ex);
        count += 1;
        if st.fatal {
            return count;
        }
        if st.violating >= MAX_VIOLATING {
            st.incomplete = true;
            return count;
        }
        if count > limit {
            out.violation(
                &request(programs, &[]),
                &format!("more than {} schedules for this program set (static estimate {}): the code's sequence of atomic steps is not the modelled one; enumeration of this set abandoned", limit, estimate),
            );
            st.incomplete = true;
            return count;
        }
        let mut next: Option<Vec<u8>> = None;
        let mut i = ex.schedule.len();
        while i > 0 {
            i -= 1;
            let cur = ex.schedule[i];
            let mask = ex.enabled[i];
            let higher = (mask as u32) >> (cur + 1);
            if higher != 0 {
                let t = cur + 1 + higher.trailing_zeros() as u8;
                let mut p = ex.schedule[..i].to_vec();
                p.push(t);
                next = Some(p);
                break;
            }
        }
        match next {
            Some(p) => prefix = p,
            None => {
                st.max_ratio_pct = st.max_ratio_pct.max((count as f64 * 100.0 / estimate) as u64);
                return count;
            }
        }
    }
}

/// all programs of at most `max_len` operations that the borrow checker accepts for a thread that starts
/// with one handle (an operation needs a handle; take and drop consume one, clone adds one)
fn valid_programs(max_len: usize) -> Vec<Vec<OpK>> {
    let mut all: Vec<Vec<OpK>> = vec![vec![]];
    let mut frontier: Vec<(Vec<OpK>, u32)> = vec![(vec![], 1)];
    for _ in 0..max_len {
        let mut nf = Vec::new();
        for (p, h) in &frontier {
            if *h == 0 {
                continue;
            }
            for op in ALL_OPS {
                let mut q = p.clone();
                q.push(op);
                let h2 = match op {
                    OpK::Take | OpK::Drop => h - 1,
                    OpK::Clone => h + 1,
                    _ => *h,
                };
                all.push(q.clone());
                nf.push((q, h2));
            }
        }
        frontier = nf;
    }
    all
}

/// upper bound for the number of scheduling decisions a program needs when it runs alone and is not
/// the last dropper: take 3 (start, load, compare_exchange), get 2, dup 4 (start, load, dup, close of the
/// duplicate), clone 1, drop 1, plus one drop per handle left at the end
fn weight(p: &[OpK]) -> u64 {
    let mut h: i64 = 1;
    let mut w = 0u64;
    for op in p {
        w += match op {
            OpK::Take => {
                h -= 1;
                3
            }
            OpK::Get => 2,
            OpK::Dup => 4,
            OpK::DupFail => 3,
            OpK::Clone => {
                h += 1;
                1
            }
            OpK::Drop => {
                h -= 1;
                1
            }
        };
    }
    w + h.max(0) as u64
}

/// static estimate of the number of complete schedules of a program set: the multinomial coefficient
/// (number of interleavings) of sequences of these lengths, where the 4 steps of the last drop (InnerDrop, load,
/// compare_exchange, close) are added to the longest one. Only used to decide which program sets belong to
/// the enumerated space; on the unchanged code the real number never exceeded it.
fn interleavings_bound(ws: &[u64]) -> f64 {
    let mut ws: Vec<u64> = ws.to_vec();
    ws.sort();
    *ws.last_mut().unwrap() += 4;
    let mut total = 0u64;
    let mut r = 1f64;
    for w in ws {
        for k in 1..=w {
            total += 1;
            r = r * total as f64 / k as f64;
        }
    }
    r
}


/// FREE-RUNNING race rounds (no scheduler, no hook callback): k real threads, each owning one clone of a handle that
/// wraps the write end of a fresh pipe, are released together through a spin barrier and run one short program; the
/// property is then evaluated on the kernel's view: at most one take, it returned the original number; taken => the
/// write end is still open (the library must never close it); not taken => the write end is closed once everything is
/// dropped (the read end reports EOF). This is a search for failing schedules BETWEEN the hook points (e.g. a drop that
/// decides by `Arc::strong_count` instead of by the atomic decrement): it supports the exhaustive exploration above,
/// it is not part of the model correspondence and no proof rests on it.
fn free_running(out: &mut Out, rng: &mut Prng, threads: usize, rounds: usize) {
    use std::sync::atomic::{AtomicUsize, Ordering};
    use std::sync::Arc;
    let menu: [&[OpK]; 6] = [&[], &[OpK::Take], &[OpK::Dup], &[OpK::Get], &[OpK::Clone], &[OpK::Dup, OpK::Take]];
    let mut reported = 0;
    for round in 0..rounds {
        let mut fds = [0i32; 2];
        if unsafe { libc::pipe2(fds.as_mut_ptr(), libc::O_CLOEXEC | libc::O_NONBLOCK) } != 0 {
            return;
        }
        let (rd, wr) = (fds[0], fds[1]);
        let handle = UnixFd::new(wr);
        // mostly plain drops (the last-drop race), sometimes other programs
        let progs: Vec<&[OpK]> = (0..threads).map(|_| if rng.chance(1, 2) { menu[0] } else { *rng.pick(&menu) }).collect();
        let barrier = Arc::new(AtomicUsize::new(0));
        let mut joins = Vec::new();
        let mut handles: Vec<UnixFd> = (0..threads - 1).map(|_| handle.clone()).collect();
        handles.push(handle);
        for (h, prog) in handles.into_iter().zip(progs.iter()) {
            let prog: Vec<OpK> = prog.to_vec();
            let barrier = barrier.clone();
            joins.push(std::thread::spawn(move || {
                let mut taken: Option<i32> = None;
                barrier.fetch_add(1, Ordering::SeqCst);
                while barrier.load(Ordering::SeqCst) < threads {
                    std::hint::spin_loop();
                }
                let mut extra: Vec<UnixFd> = Vec::new();
                let mut h = Some(h);
                for op in prog {
                    match op {
                        // take_raw_fd consumes the handle (programs of the menu end with it)
                        OpK::Take => {
                            if let Some(fd) = h.take().and_then(|hh| hh.take_raw_fd()) {
                                taken = Some(fd);
                            }
                        }
                        OpK::Get => {
                            let _ = h.as_ref().map(|hh| hh.get_raw_fd());
                        }
                        // not part of the free-running menu (the descriptor limit is process-wide)
                        OpK::DupFail => {}
                        OpK::Dup => {
                            if let Some(Ok(d)) = h.as_ref().map(|hh| hh.dup()) {
                                extra.push(d);
                            }
                        }
                        OpK::Clone => {
                            if let Some(hh) = h.as_ref() {
                                extra.push(hh.clone())
                            }
                        }
                        OpK::Drop => {}
                    }
                }
                drop(extra);
                drop(h);
                taken
            }));
        }
        let takes: Vec<i32> = joins.into_iter().filter_map(|j| j.join().ok().flatten()).collect();
        // kernel view of the write end now that every handle is gone
        let mut byte = [0u8; 1];
        let n = unsafe { libc::read(rd, byte.as_mut_ptr() as *mut libc::c_void, 1) };
        let write_end_closed = n == 0; // EOF; -1/EAGAIN = somebody still holds the write end
        let req = format!("c12.free {} round={}", progs.iter().map(|p| prog_str(p)).collect::<Vec<_>>().join("|"), round);
        let mut bad: Option<String> = None;
        if takes.len() > 1 {
            bad = Some(format!("{} takes succeeded: {:?}", takes.len(), takes));
        } else if takes.len() == 1 {
            if takes[0] != wr {
                bad = Some(format!("take returned {} instead of the original descriptor {}", takes[0], wr));
            } else if write_end_closed {
                bad = Some("the descriptor was taken but the library closed it".into());
            }
        } else if !write_end_closed {
            bad = Some("nobody took the descriptor, every handle is dropped, but it was never closed (leak)".into());
        }
        if let Some(b) = bad {
            if reported < 5 {
                out.violation(&req, &b);
                reported += 1;
            }
        }
        if takes.len() == 1 && !write_end_closed {
            unsafe { libc::close(wr) };
        }
        unsafe { libc::close(rd) };
        out.hit(if takes.is_empty() { "free_running_not_taken" } else { "free_running_taken" });
    }
    out.hit_n(&format!("free_running_rounds_{}_threads", threads), rounds as u64);
}

/// Duplicates that OUTLIVE their source (the scheduled programs drop a duplicate at once): each handle family closes its
/// own descriptor at its own last drop - not before, not later, whatever was duplicated from it and is still alive - and a
/// taken descriptor is never closed. Judged from the kernel's view of the descriptor numbers; single-threaded.
fn dup_outlives_source(out: &mut Out) {
    let open_devnull = || {
        let devnull = std::ffi::CString::new("/dev/null").unwrap();
        let fd = unsafe { libc::open(devnull.as_ptr(), libc::O_RDONLY | libc::O_CLOEXEC) };
        assert!(fd >= 0);
        fd
    };
    // (a) source dropped first, chain of three
    {
        let a = open_devnull();
        let h = UnixFd::new(a);
        let c = h.clone();
        let d = h.dup().expect("dup");
        let dfd = d.get_raw_fd().expect("duplicate has a descriptor");
        drop(h);
        if !fd_open(a) {
            out.violation("dup-outlives", "the source was closed while a clone of it was alive");
        }
        drop(c);
        if fd_open(a) {
            out.violation("dup-outlives", "the last handle of the source was dropped (nobody took it) but its descriptor is still open: a live duplicate delays the close");
            unsafe { libc::close(a) };
        }
        if !fd_open(dfd) {
            out.violation("dup-outlives", "dropping the source closed the duplicate's descriptor");
        }
        let d2 = d.dup().expect("dup of a duplicate");
        let d2fd = d2.get_raw_fd().unwrap();
        drop(d);
        if fd_open(dfd) {
            out.violation("dup-outlives", "the duplicate's last handle was dropped but its descriptor is still open (a duplicate of it is alive)");
            unsafe { libc::close(dfd) };
        }
        if !fd_open(d2fd) {
            out.violation("dup-outlives", "dropping a duplicate closed the descriptor of ITS duplicate");
        }
        drop(d2);
        if fd_open(d2fd) {
            out.violation("dup-outlives", "the last duplicate was dropped but its descriptor is still open");
            unsafe { libc::close(d2fd) };
        }
        out.hit("dup_outlives_source");
    }
    // (b) duplicate dropped first; (c) the source is taken while the duplicate lives
    {
        let a = open_devnull();
        let h = UnixFd::new(a);
        let d = h.dup().expect("dup");
        let dfd = d.get_raw_fd().unwrap();
        drop(d);
        if fd_open(dfd) || !fd_open(a) {
            out.violation("dup-outlives", "dropping the duplicate first: the duplicate's descriptor must be closed and the source's open");
        }
        let d = h.dup().expect("dup");
        let dfd = d.get_raw_fd().unwrap();
        let c = h.clone();
        let taken = h.take_raw_fd();
        drop(c);
        if taken != Some(a) || !fd_open(a) {
            out.violation("dup-outlives", "a taken source descriptor was closed (or not handed out) while a duplicate lived");
        }
        drop(d);
        if fd_open(dfd) || !fd_open(a) {
            out.violation("dup-outlives", "after take: dropping the duplicate must close the duplicate only");
        }
        unsafe { libc::close(a) };
        out.hit("dup_source_taken");
    }
    // (d) the last handle taken when it is the ONLY handle left (never cloned / every clone gone): not closed
    {
        let a = open_devnull();
        let h = UnixFd::new(a);
        let taken = h.take_raw_fd();
        if taken != Some(a) || !fd_open(a) {
            out.violation("dup-outlives", "take on the only handle: the descriptor that was handed out has been closed");
        } else {
            unsafe { libc::close(a) };
        }
        let a = open_devnull();
        let h = UnixFd::new(a);
        let c1 = h.clone();
        let c2 = h.clone();
        drop(c1);
        drop(h);
        let taken = c2.take_raw_fd();
        if taken != Some(a) || !fd_open(a) {
            out.violation("dup-outlives", "take on the last remaining clone: the descriptor that was handed out has been closed");
        } else {
            unsafe { libc::close(a) };
        }
        out.hit("take_on_only_handle");
    }
}

pub fn run(cfg: &Cfg) {
    std::panic::set_hook(Box::new(|_| {}));
    let mut out = Out::new(&cfg.outdir);
    let devnull = std::ffi::CString::new("/dev/null").unwrap();
    let base_fd = unsafe { libc::open(devnull.as_ptr(), libc::O_RDONLY | libc::O_CLOEXEC) };
    assert!(base_fd >= 0);
    let pool = Pool::new(3);
    let mut st = Stats { executions: 0, max_len: 0, fatal: false, violating: 0, incomplete: false, max_ratio_pct: 0 };

    if let Some(line) = &cfg.replay {
        let toks: Vec<&str> = line.split_whitespace().collect();
        if toks.len() == 3 && toks[0] == "c12.run" {
            let programs: Vec<Vec<OpK>> = toks[1]
                .split('|')
                .map(|p| if p == "-" { vec![] } else { p.chars().filter_map(OpK::parse).collect() })
                .collect();
            let prefix: Vec<u8> = if toks[2] == "-" { vec![] } else { toks[2].bytes().map(|b| b.wrapping_sub(b'0')).collect() };
            if programs.len() <= 3 {
                let ex = execute(&pool, base_fd, &programs, &prefix);
                record(&mut out, &mut st, &programs, &ex);
            }
        }
        out.finish("replay of one schedule", false);
        if !st.fatal {
            pool.quit();
        }
        return;
    }

    // ---- 2 threads: all unordered pairs of valid programs of <= len2 operations whose static interleaving
    //      bound is <= cap2; 3 threads: all unordered triples of programs of <= len3 operations, bound <= cap3.
    //      Measured on the unchanged tree: quick = 1 116 pairs + 34 triples = 412 545 executions (~10 s);
    //      thorough = 3 707 pairs + 338 triples = 1 846 571 executions (~50 s, max schedule length 24).
    //      C12_CAP2 / C12_CAP3 override the caps (experiments only).
    let envf = |k: &str, d: f64| std::env::var(k).ok().and_then(|v| v.parse().ok()).unwrap_or(d);
    let (len2, cap2) = if cfg.thorough { (4usize, envf("C12_CAP2", 8000f64)) } else { (3usize, envf("C12_CAP2", 8000f64)) };
    let (len3, cap3) = if cfg.thorough { (2usize, envf("C12_CAP3", 40000f64)) } else { (1usize, envf("C12_CAP3", 8000f64)) };
    let progs2 = valid_programs(len2);
    let mut sets = 0u64;
    let mut complete = true;
    'outer2: for i in 0..progs2.len() {
        for j in i..progs2.len() {
            let b = interleavings_bound(&[weight(&progs2[i]), weight(&progs2[j])]);
            if b > cap2 {
                continue;
            }
            let programs = vec![progs2[i].clone(), progs2[j].clone()];
            let c = explore(&mut out, &mut st, &pool, base_fd, &programs, b);
            sets += 1;
            out.hit("program_sets_2_threads");
            out.hit_n("schedules_2_threads", c);
            if st.fatal || st.violating >= MAX_VIOLATING {
                complete = false;
                break 'outer2;
            }
        }
    }
    // ---- refused dups (EMFILE injected at the FdDup point): every program of <= 2 operations that contains a refused dup,
    //      against every program of <= 2 ordinary operations
    if !st.fatal && st.violating < MAX_VIOLATING {
        let small = valid_programs(2);
        let mut with_fail: Vec<Vec<OpK>> = vec![vec![OpK::DupFail]];
        for op in ALL_OPS {
            with_fail.push(vec![OpK::DupFail, op]);
            if !matches!(op, OpK::Take | OpK::Drop) {
                with_fail.push(vec![op, OpK::DupFail]);
            }
        }
        with_fail.push(vec![OpK::DupFail, OpK::DupFail]);
        'outerf: for pf in &with_fail {
            for q in small.iter().chain(std::iter::once(&vec![OpK::DupFail])) {
                let b = interleavings_bound(&[weight(pf), weight(q)]);
                if b > cap2 {
                    continue;
                }
                let programs = vec![pf.clone(), q.clone()];
                let c = explore(&mut out, &mut st, &pool, base_fd, &programs, b);
                sets += 1;
                out.hit("program_sets_refused_dup");
                out.hit_n("schedules_refused_dup", c);
                if st.fatal || st.violating >= MAX_VIOLATING {
                    complete = false;
                    break 'outerf;
                }
            }
        }
    }
    // ---- the same small program sets in two unusual environments: the shared descriptor has the NUMBER 0; the kernel
    //      answers the close of the shared descriptor with EINTR (descriptor released all the same)
    for (mode, tag) in [(1u8, "descriptor_number_0"), (2u8, "close_answers_eintr")] {
        if st.fatal || st.violating >= MAX_VIOLATING {
            break;
        }
        EXEC_MODE.store(mode, std::sync::atomic::Ordering::SeqCst);
        let small = valid_programs(2);
        'outerm: for i in 0..small.len() {
            for j in i..small.len() {
                let b = interleavings_bound(&[weight(&small[i]), weight(&small[j])]);
                if b > 2500.0 {
                    continue;
                }
                let programs = vec![small[i].clone(), small[j].clone()];
                let c = explore(&mut out, &mut st, &pool, base_fd, &programs, b);
                sets += 1;
                out.hit(&format!("program_sets_{}", tag));
                out.hit_n(&format!("schedules_{}", tag), c);
                if st.fatal || st.violating >= MAX_VIOLATING {
                    complete = false;
                    break 'outerm;
                }
            }
        }
        EXEC_MODE.store(0, std::sync::atomic::Ordering::SeqCst);
        EINTR_ONCE_FD.store(-1, std::sync::atomic::Ordering::SeqCst);
    }
    // ---- 3 threads
    if !st.fatal && st.violating < MAX_VIOLATING {
        let progs3 = valid_programs(len3);
        'outer3: for i in 0..progs3.len() {
            for j in i..progs3.len() {
                for k in j..progs3.len() {
                    let b = interleavings_bound(&[weight(&progs3[i]), weight(&progs3[j]), weight(&progs3[k])]);
                    if b > cap3 {
                        continue;
                    }
                    let programs = vec![progs3[i].clone(), progs3[j].clone(), progs3[k].clone()];
                    let c = explore(&mut out, &mut st, &pool, base_fd, &programs, b);
                    sets += 1;
                    out.hit("program_sets_3_threads");
                    out.hit_n("schedules_3_threads", c);
                    if st.fatal || st.violating >= MAX_VIOLATING {
                        complete = false;
                        break 'outer3;
                    }
                }
            }
        }
    }
    if st.incomplete {
        complete = false;
    }
    // free-running race rounds (after the scheduled exploration: the worker pool is idle, no callback installed here)
    if !st.fatal {
        let mut rng = Prng::new(cfg.seed);
        free_running(&mut out, &mut rng, 2, if cfg.thorough { 40_000 } else { 6_000 });
        free_running(&mut out, &mut rng, 3, if cfg.thorough { 20_000 } else { 3_000 });
    }
    out.hit_n("max_schedule_length", st.max_len as u64);
    out.hit_n("max_schedules_per_estimate_percent", st.max_ratio_pct);
    out.hit_n("program_sets", sets);
    let rule = format!(
        "real threads under a deterministic scheduler (verif_hooks callback blocks at every FdLoad / FdCompareExchange / FdInnerDrop / FdDup / FdClose point and at every operation start; one thread runs at a time); EVERY complete interleaving (stateless DFS, programs re-run from scratch per schedule) of: all unordered pairs of borrow-valid programs of <= {} operations over take/get/dup/clone/drop (each thread starts with one clone of the handle and drops what it still owns at its end) whose static interleaving estimate is <= {}, and all unordered triples of such programs of <= {} operation(s) with estimate <= {}; programs of <= 2 operations containing a REFUSED dup (EMFILE injected when the thread is released from its FdDup point) against all programs of <= 2 operations; all pairs of programs of <= 2 operations again with the shared descriptor having the NUMBER 0, and again with the kernel answering the close of the shared descriptor with EINTR (every close of the process goes through an interposed `close`); one case per complete schedule (request = programs + schedule, so distinct by construction); non-trivial = some thread was preempted inside an operation; plus free-running race rounds (2 and 3 unscheduled threads released through a spin barrier on clones of a handle wrapping a pipe end; take count, taken => still open, not taken => closed, judged from the kernel's view) as a search between the hook points",
        len2, cap2, len3, cap3
    );
    for _ in 0..20 {
        dup_outlives_source(&mut out);
    }
    out.finish(&rule, complete);
    if !st.fatal {
        pool.quit();
    }
}
