//! C07: signature parser / validator / printer / splitter. Exhaustive over the 19 type characters up
//! to a length bound, depth/length boundary families, grammar-generated valid signatures and their
//! single-character mutations, random strings with foreign characters.
use vcore::common::*;
use rustbus::params::validate_signature;
use rustbus::signature::{SignatureIter, Type};
use rustbus::wire::SignatureWrapper;

// ---- independent oracle: recursive descent written from the specification -------------------
const BASIC: &[u8] = b"ybnqiuxtdsogh";
/// parses one single complete type at s[i..]; returns next index; tracks depths
fn single(s: &[u8], i: usize, ad: usize, sd: usize) -> Option<usize> {
    if i >= s.len() {
        return None;
    }
    let c = s[i];
    if BASIC.contains(&c) || c == b'v' {
        return Some(i + 1);
    }
    match c {
        b'a' => {
            if ad + 1 > 32 {
                return None;
            }
            if i + 1 < s.len() && s[i + 1] == b'{' {
                // dict entry: basic key, single value
                if i + 2 >= s.len() || !BASIC.contains(&s[i + 2]) {
                    return None;
                }
                let j = single(s, i + 3, ad + 1, sd)?;
                if j < s.len() && s[j] == b'}' {
                    Some(j + 1)
                } else {
                    None
                }
            } else {
                single(s, i + 1, ad + 1, sd)
            }
        }
        b'(' => {
            if sd + 1 > 32 {
                return None;
            }
            let mut j = i + 1;
            let mut n = 0;
            loop {
                if j >= s.len() {
                    return None;
                }
                if s[j] == b')' {
                    return if n == 0 { None } else { Some(j + 1) };
                }
                j = single(s, j, ad, sd + 1)?;
                n += 1;
            }
        }
        _ => None,
    }
}
/// Some(top-level pieces) iff valid
pub fn spec_split(sig: &str) -> Option<Vec<String>> {
    let s = sig.as_bytes();
    if s.len() > 255 {
        return None;
    }
    let mut i = 0;
    let mut out = Vec::new();
    while i < s.len() {
        let j = single(s, i, 0, 0)?;
        out.push(sig[i..j].to_string());
        i = j;
    }
    Some(out)
}

fn one(out: &mut Out, s: &str, nontrivial: bool) {
    let req = format!("c07.s {}", cps(s));
    let parsed = Type::parse_description(s);
    let v = validate_signature(s).is_ok();
    let w = SignatureWrapper::new(s).is_ok();
    let p = match &parsed {
        Ok(ts) => {
            let parts: Vec<String> = ts
                .iter()
                .map(|t| {
                    let mut b = String::new();
                    t.to_str(&mut b);
                    b
                })
                .collect();
            format!("ok:{}", parts.join(","))
        }
        Err(_) => "reject".to_string(),
    };
    let it = if v {
        let r = std::panic::catch_unwind(|| SignatureIter::new(s).map(|x| x.to_string()).collect::<Vec<_>>());
        match r {
            Ok(ps) => ps.join(","),
            Err(_) => "panic".to_string(),
        }
    } else {
        "-".to_string()
    };
    // the property, evaluated directly against the independent oracle
    let want = spec_split(s);
    if parsed.is_ok() != want.is_some() {
        out.violation(&req, &format!("parse_description({:?}) {} but the grammar says {}", s, if parsed.is_ok() { "accepts" } else { "rejects" }, if want.is_some() { "valid" } else { "invalid" }));
    }
    if v != want.is_some() {
        out.violation(&req, &format!("validate_signature({:?}) {} but the grammar says {}", s, if v { "accepts" } else { "rejects" }, if want.is_some() { "valid" } else { "invalid" }));
    }
    if w != v {
        out.violation(&req, &format!("SignatureWrapper::new({:?}) disagrees with validate_signature", s));
    }
    if let (Ok(_), Some(pieces)) = (&parsed, &want) {
        if p != format!("ok:{}", pieces.join(",")) {
            out.violation(&req, &format!("printing the parse of {:?} gives {} instead of the input's top-level types", s, p));
        }
    }
    if let (true, Some(pieces)) = (v, &want) {
        if it != pieces.join(",") {
            out.violation(&req, &format!("SignatureIter on {:?} yields {:?} instead of the top-level complete types", s, it));
        }
    }
    out.hit(if want.is_some() { "valid" } else { "invalid" });
    let obs = format!("parse={} validate={} iter={}", p, if v { "ok" } else { "reject" }, it);
    out.case(&req, &obs, nontrivial);
}

fn guard_bool(f: impl FnOnce() -> bool) -> bool {
    std::panic::catch_unwind(std::panic::AssertUnwindSafe(f)).unwrap_or(true)
}

/// random valid single type as a string
fn gen_single(rng: &mut Prng, depth: usize, s: &mut String) {
    let r = if depth == 0 { rng.below(14) } else { rng.below(22) };
    match r {
        0..=12 => s.push(BASIC[r as usize] as char),
        13 => s.push('v'),
        14..=16 => {
            s.push('a');
            gen_single(rng, depth - 1, s);
        }
        17..=18 => {
            s.push_str("a{");
            s.push(*rng.pick(BASIC) as char);
            gen_single(rng, depth - 1, s);
            s.push('}');
        }
        _ => {
            s.push('(');
            for _ in 0..rng.range(1, 3) {
                gen_single(rng, depth - 1, s);
            }
            s.push(')');
        }
    }
}

pub fn run(cfg: &Cfg) {
    std::panic::set_hook(Box::new(|_| {}));
    let mut out = Out::new(&cfg.outdir);
    let mut rng = Prng::new(cfg.seed);
    let alphabet: Vec<char> = "ybnqiuxtdsoghva(){}".chars().collect();
    let maxlen = if cfg.thorough { 5 } else { 4 };
    // 1. exhaustive
    let mut idx: Vec<usize> = vec![];
    loop {
        let s: String = idx.iter().map(|i| alphabet[*i]).collect();
        one(&mut out, &s, true);
        let mut i = idx.len();
        loop {
            if i == 0 {
                idx = vec![0; idx.len() + 1];
                break;
            }
            i -= 1;
            if idx[i] + 1 < alphabet.len() {
                idx[i] += 1;
                for j in i + 1..idx.len() {
                    idx[j] = 0;
                }
                break;
            }
        }
        if idx.len() > maxlen {
            break;
        }
    }
    let exhaustive_cases = out.n;
    // 2. boundary families
    for n in 29..=35usize {
        one(&mut out, &format!("{}y", "a".repeat(n)), true);
        one(&mut out, &format!("{}y{}", "(".repeat(n), ")".repeat(n)), true);
        one(&mut out, &format!("{}v", "a".repeat(n)), true);
        for m in 29..=35usize {
            // dict entries nested in arrays, then structs: a{s a{s ... ( ( ( y ) ) ) }}
            let s = format!("{}{}y{}{}", "a{s".repeat(n), "(".repeat(m), ")".repeat(m), "}".repeat(n));
            one(&mut out, &s, true);
            let s = format!("{}{}y{}", "a".repeat(n), "(".repeat(m), ")".repeat(m));
            one(&mut out, &s, true);
            let s = format!("{}{}y{}", "(".repeat(m), "a".repeat(n), ")".repeat(m));
            one(&mut out, &s, true);
        }
    }
    // many types SIDE BY SIDE: closed containers must not count towards the depth of what follows
    for n in [30usize, 31, 32, 33, 34, 40, 51] {
        one(&mut out, &"a{sv}".repeat(n), true);
        one(&mut out, &format!("({})", "a{yb}".repeat(n)), true);
        one(&mut out, &"(y)".repeat(n), true);
        one(&mut out, &"ay".repeat(n), true);
        for d in [1usize, 12, 13, 31, 32, 33] {
            if 5 * n + d + 1 <= 255 {
                one(&mut out, &format!("{}{}y", "a{sv}".repeat(n), "a".repeat(d)), true);
                one(&mut out, &format!("{}{}y{}", "(y)".repeat(n), "(".repeat(d), ")".repeat(d)), true);
            }
        }
    }
    for len in [253usize, 254, 255, 256, 257] {
        one(&mut out, &"y".repeat(len), true);
        one(&mut out, &format!("{}{}", "(ii)".repeat(len / 4), "y".repeat(len % 4)), true);
        one(&mut out, &format!("{}é", "y".repeat(len.saturating_sub(2))), true);
    }
    // 3. grammar generated valid signatures and all their single-character mutations
    let n_valid = if cfg.thorough { 20_000 } else { 1_500 };
    for _ in 0..n_valid {
        let mut s = String::new();
        for _ in 0..rng.range(1, 3) {
            let d = rng.range(0, 5) as usize;
            gen_single(&mut rng, d, &mut s);
        }
        if s.len() > 60 {
            continue;
        }
        one(&mut out, &s, true);
        let b: Vec<char> = s.chars().collect();
        for i in 0..b.len() {
            // delete, replace, insert
            let mut d = b.clone();
            d.remove(i);
            one(&mut out, &d.iter().collect::<String>(), true);
            let mut r = b.clone();
            r[i] = *rng.pick(&alphabet);
            one(&mut out, &r.iter().collect::<String>(), true);
            let mut ins = b.clone();
            ins.insert(i, *rng.pick(&alphabet));
            one(&mut out, &ins.iter().collect::<String>(), true);
        }
    }
    // 4. random strings with foreign characters
    let n = if cfg.thorough { 200_000 } else { 20_000 };
    for _ in 0..n {
        let len = rng.range(0, 30) as usize;
        let s: String = (0..len)
            .map(|_| {
                if rng.chance(1, 25) {
                    *rng.pick(&['z', 'A', ' ', '\0', 'é', 'r', 'e', 'm', '*', '٣', '[', ']'])
                } else {
                    *rng.pick(&alphabet)
                }
            })
            .collect();
        one(&mut out, &s, true);
    }
    // 5. every Unicode scalar value alone, as array element and as the only struct field, through parser and validator
    //    (a character is a type code exactly if it is one of the 19 ASCII characters; nothing else may alias one)
    let mut cp: u32 = 0;
    let mut chars = 0u64;
    while cp <= 0x10FFFF {
        if let Some(c) = char::from_u32(cp) {
            let strs = [c.to_string(), format!("a{}", c), format!("({})", c)];
            let mut obs = String::new();
            let mut want = String::new();
            for s in &strs {
                let p = guard_bool(|| Type::parse_description(s).is_ok());
                let v = guard_bool(|| validate_signature(s).is_ok());
                obs.push(if p { '1' } else { '0' });
                obs.push(if v { '1' } else { '0' });
                let w = spec_split(s).is_some();
                want.push(if w { '1' } else { '0' });
                want.push(if w { '1' } else { '0' });
            }
            let req = format!("c07.char {}", cp);
            if obs != want {
                out.violation(&req, &format!("character U+{:04X} alone / as array element / as struct field: parser,validator verdicts {} but the grammar says {}", cp, obs, want));
            }
            out.case(&req, &obs, obs != "000000");
            chars += 1;
        }
        cp += 1;
    }
    out.hit_n("unicode_scalars_enumerated", chars);
    out.extra("exhaustive_prefix_cases", exhaustive_cases.to_string());
    out.extra("exhaustive_max_len", maxlen.to_string());
    out.finish(
        "all strings over the 19 type characters up to the length bound (exhaustive), depth families a^n / (^n / a{s^n(^m for n,m in 29..35, 30..51 closed containers side by side followed by nesting up to the limits, 253..257-byte strings, grammar-generated valid signatures with every single-character delete/replace/insert, random strings with foreign characters, every Unicode scalar value alone / as array element / as struct field (exhaustive); through parse_description+to_str, validate_signature, SignatureWrapper::new, SignatureIter; distinct by request, every case counts as non-trivial",
        true,
    );
}
