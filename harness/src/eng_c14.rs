//! C14 engine (stub)
use vcore::common::*;

pub fn run(cfg: &Cfg) {
    let out = Out::new(&cfg.outdir);
    out.finish("stub", false);
}
