//! C14: a real `RpcConn` on a real `DuplexConn` connected to the scripted peer. Random histories of
//! arrivals (messages written by the peer) interleaved with try_get_* / wait_* / refill_once /
//! try_refill_once / refill_all under a random filter. One request line per history; the model
//! prints the whole observation log. The property is also evaluated directly on what the real
//! connection hands out (no model needed for that).
use rustbus::connection::{Error, Timeout};
use rustbus::message_builder::{DynamicHeader, MarshalledMessage, MessageBuilder};
use rustbus::{MessageType, RpcConn};
use std::collections::{HashMap, HashSet, VecDeque};
use std::io::Write;
use std::num::NonZeroU32;
use std::os::unix::net::UnixStream;
use std::sync::Arc;
use std::time::Duration;
use vcore::common::*;
use vcore::eng_wire::guard;
use vcore::peer;

const UNKNOWN_METHOD: &str = "org.freedesktop.DBus.Error.UnknownMethod";

#[derive(Clone, Copy, PartialEq, Eq, Debug)]
enum Typ {
    Call,
    Reply,
    Error,
    Signal,
}
impl Typ {
    fn ch(self) -> &'static str {
        match self {
            Typ::Call => "c",
            Typ::Reply => "r",
            Typ::Error => "e",
            Typ::Signal => "s",
        }
    }
    fn of(t: MessageType) -> Option<Typ> {
        match t {
            MessageType::Call => Some(Typ::Call),
            MessageType::Reply => Some(Typ::Reply),
            MessageType::Error => Some(Typ::Error),
            MessageType::Signal => Some(Typ::Signal),
            MessageType::Invalid => None,
        }
    }
}

/// one message the peer writes
#[derive(Clone)]
struct Arr {
    id: u32,
    typ: Typ,
    serial: u32,
    rs: Option<u32>,
    sender: Option<String>,
    accepted: bool,
    bytes: Vec<u8>,
}

type Filter = Arc<dyn Fn(&MarshalledMessage) -> bool + Send + Sync>;

fn marker(m: &MarshalledMessage) -> Option<u32> {
    m.body.parser().get::<u32>().ok()
}

/// returns (name for the distribution counters, the predicate; None = leave RpcConn's default filter)
fn pick_filter(rng: &mut Prng) -> (String, Option<Filter>) {
    match rng.below(8) {
        0 => ("default".into(), None),
        1 => ("accept_all".into(), Some(Arc::new(|_| true))),
        2 => ("reject_all".into(), Some(Arc::new(|_| false))),
        3 => {
            // by type: a random subset of the four kinds
            let mask = 1 + rng.below(14) as u8;
            (
                "by_type".into(),
                Some(Arc::new(move |m: &MarshalledMessage| {
                    let bit = match m.typ {
                        MessageType::Call => 1,
                        MessageType::Reply => 2,
                        MessageType::Error => 4,
                        MessageType::Signal => 8,
                        MessageType::Invalid => 0,
                    };
                    mask & bit != 0
                })),
            )
        }
        4 => {
            let p = rng.below(2) as u32;
            ("by_marker_parity".into(), Some(Arc::new(move |m: &MarshalledMessage| marker(m).map(|x| x % 2 == p).unwrap_or(false))))
        }
        5 => {
            // by member name; replies and errors (no member) pass or not as a whole
            let others = rng.chance(1, 2);
            (
                "by_member".into(),
                Some(Arc::new(move |m: &MarshalledMessage| match &m.dynheader.member {
                    Some(name) => name == "Ma",
                    None => others,
                })),
            )
        }
        _ => {
            // an arbitrary predicate: a random table over the markers
            let table = rng.next();
            ("table".into(), Some(Arc::new(move |m: &MarshalledMessage| marker(m).map(|x| (table >> (x % 64)) & 1 == 1).unwrap_or(false))))
        }
    }
}

fn build_message(id: u32, typ: Typ, rs: Option<u32>, sender: &Option<String>, member: &str, big: usize) -> MarshalledMessage {
    let mut msg = match typ {
        Typ::Call => {
            // the interface of a call is optional; well-known members come with their interface, with another one, or bare
            let b = MessageBuilder::new().call(member).on("/o/p");
            match (member.len() > 2, id % 3) {
                (true, 0) => b.with_interface("org.freedesktop.DBus.Peer").at("org.me").build(),
                (true, 1) => b.at("org.me").build(),
                _ => b.with_interface("a.b").at("org.me").build(),
            }
        }
        Typ::Signal => MessageBuilder::new().signal("a.b", member, "/o/p").to("org.me").build(),
        Typ::Reply | Typ::Error => {
            let fake_call = DynamicHeader {
                interface: Some("a.b".into()),
                member: Some("M".into()),
                object: Some("/o".into()),
                serial: NonZeroU32::new(rs.unwrap()),
                sender: Some(":1.99".into()),
                ..Default::default()
            };
            if typ == Typ::Reply {
                fake_call.make_response()
            } else {
                fake_call.make_error_response("a.b.Err", None)
            }
        }
    };
    if matches!(typ, Typ::Call | Typ::Signal) {
        msg.dynheader.response_serial = rs.and_then(NonZeroU32::new);
    }
    // header flags (NO_REPLY_EXPECTED, NO_AUTO_START, ALLOW_INTERACTIVE_AUTHORIZATION) in any combination: RpcConn does
    // not look at them; a rejected call is answered whatever they say
    msg.flags = [0u8, 0, 0, 1, 2, 4, 3, 5, 7][(id % 9) as usize];
    msg.dynheader.sender = sender.clone();
    msg.body.push_param(id).unwrap();
    if big > 0 {
        let blob = vec![0xabu8; big];
        msg.body.push_param(&blob[..]).unwrap();
    }
    msg
}

fn frame_of(msg: &MarshalledMessage, serial: u32) -> Vec<u8> {
    let mut buf = Vec::new();
    rustbus::wire::marshal::marshal(msg, NonZeroU32::new(serial).unwrap(), &mut buf).unwrap();
    buf.extend_from_slice(msg.get_buf());
    buf
}

/// the engine's bookkeeping of where each arrival is; used ONLY to decide which operations may be
/// issued (a blocking wait needs its answer in the socket) — the comparison is done by the Lean model
#[derive(Default)]
struct Tracker {
    wire: VecDeque<usize>,
    signals: VecDeque<usize>,
    calls: VecDeque<usize>,
    responses: HashMap<u32, usize>,
}
#[derive(Clone, Copy, PartialEq, Eq)]
enum Consumer {
    Signal,
    Call,
    Response(u32),
}
impl Tracker {
    fn read_one(&mut self, arr: &[Arr]) {
        if let Some(i) = self.wire.pop_front() {
            let a = &arr[i];
            if a.accepted {
                match a.typ {
                    Typ::Call => self.calls.push_back(i),
                    Typ::Signal => self.signals.push_back(i),
                    Typ::Reply | Typ::Error => {
                        self.responses.insert(a.rs.unwrap(), i);
                    }
                }
            }
        }
    }
    fn try_get(&mut self, k: Consumer) -> Option<usize> {
        match k {
            Consumer::Signal => self.signals.pop_front(),
            Consumer::Call => self.calls.pop_front(),
            Consumer::Response(s) => self.responses.remove(&s),
        }
    }
    fn stored(&self, k: Consumer) -> bool {
        match k {
            Consumer::Signal => !self.signals.is_empty(),
            Consumer::Call => !self.calls.is_empty(),
            Consumer::Response(s) => self.responses.contains_key(&s),
        }
    }
    /// would a wait for `k` find its answer without new data?
    fn available(&self, k: Consumer, arr: &[Arr]) -> bool {
        self.stored(k)
            || self.wire.iter().any(|&i| {
                let a = &arr[i];
                a.accepted
                    && match k {
                        Consumer::Signal => a.typ == Typ::Signal,
                        Consumer::Call => a.typ == Typ::Call,
                        Consumer::Response(s) => (a.typ == Typ::Reply || a.typ == Typ::Error) && a.rs == Some(s),
                    }
            })
    }
    fn wait(&mut self, k: Consumer, arr: &[Arr]) {
        loop {
            if self.try_get(k).is_some() || self.wire.is_empty() {
                return;
            }
            self.read_one(arr);
        }
    }
}

/// an error reply as the model prints it
fn show_err(rs: Option<u32>, dest: &Option<String>, name: &Option<String>) -> String {
    format!(
        "{}/{}/{}",
        rs.map(|s| s.to_string()).unwrap_or("~".into()),
        dest.as_ref().map(|d| cps(d)).unwrap_or("~".into()),
        name.as_ref().map(|n| cps(n)).unwrap_or("~".into())
    )
}

fn err_kind(e: &Error) -> String {
    match e {
        Error::TimedOut => "timedout".into(),
        Error::ConnectionClosed => "closed".into(),
        Error::IoError(_) => "io".into(),
        Error::UnmarshalError(_) => "unmarshal".into(),
        Error::MarshalError(_) => "marshal".into(),
        Error::UnexpectedMessageTypeReceived => "unexpected_type".into(),
        _ => "other".into(),
    }
}

struct Hist<'a> {
    rpc: RpcConn,
    server: UnixStream,
    arr: Vec<Arr>,
    tr: Tracker,
    ops: Vec<String>,
    obs: Vec<String>,
    bad: Vec<String>,
    // direct checks
    handed: HashSet<u32>,
    sig_handed: usize,
    call_handed: usize,
    /// rejected calls that arrived and have not been answered yet: (serial, sender)
    owed: Vec<(u32, Option<String>)>,
    deliveries: usize,
    out: &'a mut Out,
}

impl<'a> Hist<'a> {
    /// error replies that reached the peer since the last look, in the model's notation; every one
    /// is checked against the rejected calls that are still owed an answer
    fn peer_errors(&mut self) -> String {
        let bytes = peer::drain(&mut self.server);
        if bytes.is_empty() {
            return String::new();
        }
        let frames = match peer::split_frames(&bytes) {
            Some(f) => f,
            None => {
                self.bad.push(format!("{} bytes at the peer that are not whole frames", bytes.len()));
                return "|?".into();
            }
        };
        let mut items = Vec::new();
        for f in frames {
            match peer::decode_frame(&f) {
                Ok(m) => {
                    let rs = m.dynheader.response_serial.map(|s| s.get());
                    self.account_error("written to the peer", m.typ, rs, &m.dynheader.destination, &m.dynheader.error_name);
                    items.push(show_err(rs, &m.dynheader.destination, &m.dynheader.error_name));
                }
                Err(e) => {
                    self.bad.push(format!("undecodable frame at the peer: {}", e));
                    items.push("?".into());
                }
            }
        }
        self.out.hit_n("errors_written_to_peer", items.len() as u64);
        format!("|{}", items.join(";"))
    }

    fn account_error(&mut self, how: &str, typ: MessageType, rs: Option<u32>, dest: &Option<String>, name: &Option<String>) {
        if !matches!(typ, MessageType::Error) || name.as_deref() != Some(UNKNOWN_METHOD) {
            self.bad.push(format!("message {} is not an UnknownMethod error: {:?} {:?}", how, typ, name));
            return;
        }
        let pos = self.owed.iter().position(|(s, d)| Some(*s) == rs && d == dest);
        match pos {
            Some(p) => {
                self.owed.remove(p);
            }
            None => self.bad.push(format!(
                "unknown-method error {} with reply serial {:?} to {:?}: no unanswered rejected call has that serial and sender (second answer, or answer to something that is not a rejected call)",
                how, rs, dest
            )),
        }
    }

    /// direct checks on a message handed out to consumer `k`
    fn account_delivery(&mut self, what: &str, k: Consumer, m: &MarshalledMessage) -> String {
        self.deliveries += 1;
        let id = match marker(m) {
            Some(id) => id,
            None => {
                self.bad.push(format!("{} returned a message without marker", what));
                return "?".into();
            }
        };
        let a = match self.arr.iter().find(|a| a.id == id) {
            Some(a) => a.clone(),
            None => {
                self.bad.push(format!("{} returned message {} that never arrived", what, id));
                return id.to_string();
            }
        };
        if !self.handed.insert(id) {
            self.bad.push(format!("message {} handed out twice (second time by {})", id, what));
        }
        if !a.accepted {
            self.bad.push(format!("message {} was rejected by the filter but {} handed it out", id, what));
        }
        // intact: the message handed out is the one that arrived
        if Typ::of(m.typ) != Some(a.typ)
            || m.dynheader.serial.map(|s| s.get()) != Some(a.serial)
            || m.dynheader.response_serial.map(|s| s.get()) != a.rs
            || m.dynheader.sender != a.sender
        {
            self.bad.push(format!("message {} handed out by {} differs from the one that arrived", id, what));
        }
        match k {
            Consumer::Signal => {
                if a.typ != Typ::Signal {
                    self.bad.push(format!("{} returned the {:?} {}", what, a.typ, id));
                }
                let expect = self.arr.iter().filter(|x| x.accepted && x.typ == Typ::Signal).nth(self.sig_handed).map(|x| x.id);
                if expect != Some(id) {
                    self.bad.push(format!("signals out of arrival order: {} returned {} but the next accepted signal is {:?}", what, id, expect));
                }
                self.sig_handed += 1;
            }
            Consumer::Call => {
                if a.typ != Typ::Call {
                    self.bad.push(format!("{} returned the {:?} {}", what, a.typ, id));
                }
                let expect = self.arr.iter().filter(|x| x.accepted && x.typ == Typ::Call).nth(self.call_handed).map(|x| x.id);
                if expect != Some(id) {
                    self.bad.push(format!("calls out of arrival order: {} returned {} but the next accepted call is {:?}", what, id, expect));
                }
                self.call_handed += 1;
            }
            Consumer::Response(s) => {
                if !(a.typ == Typ::Reply || a.typ == Typ::Error) || a.rs != Some(s) {
                    self.bad.push(format!("{} for serial {} returned the {:?} {} with reply serial {:?}", what, s, a.typ, id, a.rs));
                }
            }
        }
        id.to_string()
    }

    fn push(&mut self, op: String, item: String) {
        let written = self.peer_errors();
        self.ops.push(op);
        self.obs.push(format!("{}{}", item, written));
    }

    fn write_peer(&mut self, bytes: &[u8]) {
        self.server.write_all(bytes).expect("peer write");
    }

    fn op_try(&mut self, k: Consumer) {
        let (op, what) = match k {
            Consumer::Signal => ("TS".to_string(), "try_get_signal".to_string()),
            Consumer::Call => ("TC".to_string(), "try_get_call".to_string()),
            Consumer::Response(s) => (format!("TR:{}", s), format!("try_get_response({})", s)),
        };
        let rpc = &mut self.rpc;
        let r = guard(|| match k {
            Consumer::Signal => rpc.try_get_signal(),
            Consumer::Call => rpc.try_get_call(),
            Consumer::Response(s) => rpc.try_get_response(NonZeroU32::new(s).unwrap()),
        });
        self.tr.try_get(k);
        let item = match r {
            Ok(Some(m)) => {
                self.out.hit("try_some");
                format!("t{}", self.account_delivery(&what, k, &m))
            }
            Ok(None) => {
                self.out.hit("try_none");
                "t~".into()
            }
            Err(p) => {
                self.bad.push(format!("{} panicked: {}", what, p));
                "Xpanic".into()
            }
        };
        self.push(op, item);
    }

    fn op_wait(&mut self, k: Consumer) {
        let (op, what) = match k {
            Consumer::Signal => ("WS".to_string(), "wait_signal".to_string()),
            Consumer::Call => ("WC".to_string(), "wait_call".to_string()),
            Consumer::Response(s) => (format!("WR:{}", s), format!("wait_response({})", s)),
        };
        let avail = self.tr.available(k, &self.arr);
        // the answer is in the socket: the timeout is only a safety net. Otherwise the real call would
        // block; with a short timeout it must consume everything and report TimedOut.
        let timeout = Timeout::Duration(Duration::from_millis(if avail { 3000 } else { 100 }));
        let reads_needed = !self.tr.stored(k);
        let rpc = &mut self.rpc;
        let r = guard(|| match k {
            Consumer::Signal => rpc.wait_signal(timeout),
            Consumer::Call => rpc.wait_call(timeout),
            Consumer::Response(s) => rpc.wait_response(NonZeroU32::new(s).unwrap(), timeout),
        });
        self.tr.wait(k, &self.arr);
        let item = match r {
            Ok(Ok(m)) => {
                self.out.hit(if reads_needed { "wait_got_after_reading" } else { "wait_got_stored" });
                format!("g{}", self.account_delivery(&what, k, &m))
            }
            Ok(Err(Error::TimedOut)) => {
                if avail {
                    self.bad.push(format!("{} timed out although a matching accepted message had arrived", what));
                }
                self.out.hit("wait_blocked");
                "b".into()
            }
            Ok(Err(e)) => {
                self.bad.push(format!("{} failed: {}", what, err_kind(&e)));
                format!("X{}", err_kind(&e))
            }
            Err(p) => {
                self.bad.push(format!("{} panicked: {}", what, p));
                "Xpanic".into()
            }
        };
        self.push(op, item);
    }

    fn op_refill_once(&mut self, rng: &mut Prng) {
        let rpc = &mut self.rpc;
        let via_try = rng.chance(1, 2);
        let r = guard(|| {
            if via_try {
                rpc.try_refill_once(Timeout::Nonblock)
            } else {
                rpc.refill_once(Timeout::Nonblock).map(Some)
            }
        });
        let had = !self.tr.wire.is_empty();
        self.tr.read_one(&self.arr);
        let item = match r {
            Ok(Ok(Some(t))) => {
                self.out.hit(if via_try { "try_refill_once_ok" } else { "refill_once_ok" });
                if !had {
                    self.bad.push("refill_once read a message although nothing had arrived".into());
                }
                format!("r{}", Typ::of(t).map(|t| t.ch()).unwrap_or("?"))
            }
            Ok(Ok(None)) => "Xnone".into(),
            Ok(Err(Error::TimedOut)) => {
                self.out.hit("refill_once_timedout");
                if had {
                    self.bad.push("refill_once(Nonblock) timed out although a complete message was in the socket".into());
                }
                "to".into()
            }
            Ok(Err(e)) => {
                self.bad.push(format!("refill_once failed: {}", err_kind(&e)));
                format!("X{}", err_kind(&e))
            }
            Err(p) => {
                self.bad.push(format!("refill_once panicked: {}", p));
                "Xpanic".into()
            }
        };
        self.push("RO".into(), item);
    }

    fn op_refill_all(&mut self) {
        let rpc = &mut self.rpc;
        let r = guard(|| rpc.refill_all());
        while !self.tr.wire.is_empty() {
            self.tr.read_one(&self.arr);
        }
        let item = match r {
            Ok(Ok(errs)) => {
                self.out.hit("refill_all");
                self.out.hit_n("errors_returned_by_refill_all", errs.len() as u64);
                let mut items = Vec::new();
                for e in &errs {
                    let rs = e.dynheader.response_serial.map(|s| s.get());
                    self.account_error("returned by refill_all", e.typ, rs, &e.dynheader.destination, &e.dynheader.error_name);
                    items.push(show_err(rs, &e.dynheader.destination, &e.dynheader.error_name));
                }
                format!("d[{}]", items.join(";"))
            }
            Ok(Err(e)) => {
                self.bad.push(format!("refill_all failed: {}", err_kind(&e)));
                format!("X{}", err_kind(&e))
            }
            Err(p) => {
                self.bad.push(format!("refill_all panicked: {}", p));
                "Xpanic".into()
            }
        };
        self.push("RA".into(), item);
    }

    /// record that `self.arr[i]` is now completely in the socket
    fn arrived(&mut self, i: usize) {
        let a = self.arr[i].clone();
        self.tr.wire.push_back(i);
        if !a.accepted && a.typ == Typ::Call {
            self.owed.push((a.serial, a.sender.clone()));
        }
        let op = format!(
            "A:{}:{}:{}:{}:{}:{}",
            a.id,
            a.typ.ch(),
            a.serial,
            a.rs.map(|s| s.to_string()).unwrap_or("~".into()),
            a.sender.as_ref().map(|s| cps(s)).unwrap_or("~".into()),
            if a.accepted { 1 } else { 0 }
        );
        self.out.hit(&format!("arrive_{}_{}", a.typ.ch(), if a.accepted { "accepted" } else { "rejected" }));
        self.push(op, "a".into());
    }
}

fn history(out: &mut Out, rng: &mut Prng, max_ops: usize) {
    let (conn, server) = peer::connect_pair(false);
    server.set_write_timeout(Some(Duration::from_secs(10))).unwrap();
    let mut rpc = RpcConn::new(conn);
    let (fname, filter) = pick_filter(rng);
    if let Some(f) = &filter {
        let f = f.clone();
        rpc.set_filter(Box::new(move |m| f(m)));
    }
    out.hit(&format!("filter_{}", fname));
    let verdict = |m: &MarshalledMessage| filter.as_ref().map(|f| f(m)).unwrap_or(true);

    // reply serials: distinct per history (duplicates are outside the property: HashMap::insert overwrites)
    let mut pool: Vec<u32> = Vec::new();
    while pool.len() < max_ops + 2 {
        let s = match rng.below(6) {
            0 => u32::MAX - rng.below(3) as u32,
            1 => 1 + rng.below(3) as u32,
            _ => 1 + rng.below(5000) as u32,
        };
        if !pool.contains(&s) {
            pool.push(s);
        }
    }
    let mut unused_rs = pool.clone();
    let senders: [Option<String>; 4] = [None, Some(":1.7".into()), Some(":1.4294967295".into()), Some("org.example.Caller".into())];

    let mut h = Hist {
        rpc,
        server,
        arr: Vec::new(),
        tr: Tracker::default(),
        ops: Vec::new(),
        obs: Vec::new(),
        bad: Vec::new(),
        handed: HashSet::new(),
        sig_handed: 0,
        call_handed: 0,
        owed: Vec::new(),
        deliveries: 0,
        out,
    };
    let n_ops = rng.range(3, max_ops as u64) as usize;
    let mut big_used = false;
    let profile = rng.below(4); // 0: mixed, 1: arrival heavy, 2: wait heavy, 3: response heavy

    let mut new_arrival = |h: &mut Hist, rng: &mut Prng, big_used: &mut bool, force: Option<(Typ, u32)>| -> usize {
        let id = h.arr.len() as u32 + 1;
        let typ = if let Some((t, _)) = force { t } else { match (profile, rng.below(10)) {
            (3, 0..=5) => {
                if rng.chance(1, 2) {
                    Typ::Reply
                } else {
                    Typ::Error
                }
            }
            (_, 0..=2) => Typ::Call,
            (_, 3..=5) => Typ::Signal,
            (_, 6..=7) => Typ::Reply,
            _ => Typ::Error,
        } };
        let rs = if let Some((_, forced_rs)) = force {
            Some(forced_rs)
        } else if typ == Typ::Reply || typ == Typ::Error {
            let k = rng.below(unused_rs.len() as u64) as usize;
            Some(unused_rs.swap_remove(k))
        } else if rng.chance(1, 4) {
            // a call or signal that ALSO carries a REPLY_SERIAL field (the wire format and the header decoder allow it):
            // its type decides where it goes; the serial is a fresh one or that of a real reply of this history
            h.out.hit("call_or_signal_with_reply_serial");
            let used: Vec<u32> = h.arr.iter().filter_map(|a| a.rs).collect();
            if !used.is_empty() && rng.chance(1, 2) {
                Some(*rng.pick(&used))
            } else {
                let k = rng.below(unused_rs.len() as u64) as usize;
                Some(unused_rs.swap_remove(k))
            }
        } else {
            None
        };
        let sender = rng.pick(&senders).clone();
        // mostly Ma / Mb; now and then a name the library knows from the standard interfaces (a rejected call is answered
        // with UnknownMethod whatever it is called)
        let member = match rng.below(8) {
            0..=2 => "Ma",
            3..=5 => "Mb",
            6 => "Ping",
            _ => *rng.pick(&["GetMachineId", "Hello", "Introspect", "Ping"]),
        };
        let big = if !*big_used && rng.chance(1, 40) {
            *big_used = true;
            h.out.hit("message_larger_than_one_read");
            (65 * 1024 + rng.below(40 * 1024)) as usize
        } else {
            0
        };
        let serial = match rng.below(5) {
            0 => u32::MAX - id,
            _ => 1000 + id * 3 + rng.below(3) as u32,
        };
        let msg = build_message(id, typ, rs, &sender, member, big);
        let accepted = verdict(&msg);
        let bytes = frame_of(&msg, serial);
        h.arr.push(Arr { id, typ, serial, rs, sender, accepted, bytes });
        h.arr.len() - 1
    };

    let pick_consumer = |h: &Hist, rng: &mut Prng, want_available: bool| -> Consumer {
        // candidates: signal, call, every reply serial of the pool (asked before arrival, after delivery, never arriving)
        let mut cands = vec![Consumer::Signal, Consumer::Call];
        for a in &h.arr {
            if let Some(s) = a.rs {
                cands.push(Consumer::Response(s));
            }
        }
        cands.push(Consumer::Response(pool[rng.below(pool.len() as u64) as usize]));
        if want_available {
            let av: Vec<Consumer> = cands.iter().cloned().filter(|k| h.tr.available(*k, &h.arr)).collect();
            if !av.is_empty() {
                return av[rng.below(av.len() as u64) as usize];
            }
        }
        cands[rng.below(cands.len() as u64) as usize]
    };

    let mut blocked_waits = 0;
    let mut late_replies = 0;
    // serials reserved for the late-reply scenario (never handed to another arrival)
    let mut unused_late: Vec<u32> = vec![pool[0].wrapping_add(100_000).max(1)];
    unused_late.retain(|x| !pool.contains(x));
    while h.ops.len() < n_ops {
        let r = rng.below(100);
        let arrive_w = match profile {
            1 => 55,
            2 => 30,
            _ => 38,
        };
        if r < arrive_w {
            match rng.below(8) {
                0 => {
                    // several messages back-to-back in ONE write
                    let k = rng.range(2, 4) as usize;
                    let idx: Vec<usize> = (0..k).map(|_| new_arrival(&mut h, rng, &mut big_used, None)).collect();
                    let mut all = Vec::new();
                    for &i in &idx {
                        all.extend_from_slice(&h.arr[i].bytes);
                    }
                    h.write_peer(&all);
                    h.out.hit("burst_write");
                    for i in idx {
                        h.arrived(i);
                    }
                }
                1 if h.tr.wire.is_empty() => {
                    // a message in two writes; in between the client looks: nothing complete has arrived
                    let i = new_arrival(&mut h, rng, &mut big_used, None);
                    let bytes = h.arr[i].bytes.clone();
                    let cut = rng.range(1, bytes.len() as u64 - 1) as usize;
                    h.write_peer(&bytes[..cut]);
                    h.out.hit("split_write_with_ops_between");
                    for _ in 0..rng.range(1, 2) {
                        match rng.below(3) {
                            0 => h.op_refill_once(rng),
                            1 => h.op_refill_all(),
                            _ => {
                                let k = pick_consumer(&h, rng, false);
                                h.op_try(k)
                            }
                        }
                    }
                    h.write_peer(&bytes[cut..]);
                    h.arrived(i);
                }
                _ => {
                    let i = new_arrival(&mut h, rng, &mut big_used, None);
                    let bytes = h.arr[i].bytes.clone();
                    if rng.chance(1, 6) && bytes.len() > 20 {
                        // two writes, nothing in between
                        let cut = rng.range(1, bytes.len() as u64 - 1) as usize;
                        h.write_peer(&bytes[..cut]);
                        h.write_peer(&bytes[cut..]);
                        h.out.hit("split_write");
                    } else {
                        h.write_peer(&bytes);
                    }
                    h.arrived(i);
                }
            }
        } else if r < arrive_w + 3 && late_replies == 0 && h.tr.wire.is_empty() && !unused_late.is_empty() {
            // a reply that comes LATE: the wait for it gives up first, the reply then arrives while the client does something
            // else, and is asked for again afterwards
            late_replies += 1;
            let s = unused_late.pop().unwrap();
            h.out.hit("late_reply_after_timed_out_wait");
            h.op_wait(Consumer::Response(s));
            let typ = if rng.chance(1, 2) { Typ::Reply } else { Typ::Error };
            let i = new_arrival(&mut h, rng, &mut big_used, Some((typ, s)));
            let bytes = h.arr[i].bytes.clone();
            h.write_peer(&bytes);
            h.arrived(i);
            match rng.below(3) {
                0 => h.op_refill_once(rng),
                1 => h.op_refill_all(),
                _ => h.op_try(Consumer::Signal),
            }
            h.op_try(Consumer::Response(s));
        } else if r < arrive_w + 20 {
            let want = rng.chance(1, 2);
            let k = pick_consumer(&h, rng, want);
            h.op_try(k);
        } else if r < arrive_w + 30 {
            h.op_refill_once(rng);
        } else if r < arrive_w + 36 {
            h.op_refill_all();
        } else {
            let k = pick_consumer(&h, rng, true);
            if h.tr.available(k, &h.arr) {
                h.op_wait(k);
            } else if blocked_waits == 0 && rng.chance(1, 6) {
                // nothing to come: the wait must read everything and give up
                blocked_waits += 1;
                h.op_wait(k);
            } else {
                h.op_try(k);
            }
        }
    }
    // epilogue: read and fetch everything, so that "exactly once" can be checked on the whole history
    match rng.below(3) {
        0 => h.op_refill_all(),
        1 => {
            while !h.tr.wire.is_empty() {
                h.op_refill_once(rng);
            }
            h.op_refill_once(rng);
        }
        _ => {}
    }
    for k in [Consumer::Signal, Consumer::Call] {
        let mut guard_n = 0;
        loop {
            let before = h.deliveries;
            if h.tr.available(k, &h.arr) && rng.chance(1, 2) {
                h.op_wait(k);
            } else {
                h.op_try(k);
            }
            guard_n += 1;
            if h.deliveries == before || guard_n > 200 {
                break;
            }
        }
    }
    h.op_refill_all();
    for k in [Consumer::Signal, Consumer::Call] {
        let mut guard_n = 0;
        loop {
            let before = h.deliveries;
            h.op_try(k);
            guard_n += 1;
            if h.deliveries == before || guard_n > 200 {
                break;
            }
        }
    }
    let all_rs: Vec<u32> = h.arr.iter().filter_map(|a| a.rs).collect();
    for s in all_rs {
        h.op_try(Consumer::Response(s));
    }
    // conservation at the end: everything accepted has been handed out (exactly once is checked on the way)
    for a in &h.arr {
        if a.accepted && !h.handed.contains(&a.id) {
            h.bad.push(format!("accepted {:?} {} (reply serial {:?}) was never handed out although everything was read and fetched", a.typ, a.id, a.rs));
        }
    }
    for (s, d) in &h.owed {
        h.bad.push(format!("rejected call with serial {} from {:?} was read but never answered with an unknown-method error", s, d));
    }
    let req = format!("c14.run {}", h.ops.join(" "));
    let obs = h.obs.join(" ");
    for b in &h.bad {
        h.out.violation(&req, b);
    }
    h.out.hit("history");
    h.out.hit_n("ops", h.ops.len() as u64);
    h.out.hit_n("deliveries", h.deliveries as u64);
    let nontrivial = h.deliveries >= 1 && h.arr.len() >= 2;
    h.out.case(&req, &obs, nontrivial);
}

/// A rejected call arriving while the client's send buffer is full (the peer is not reading): the unknown-method
/// answer cannot be written at once. Whatever timeout the caller's refill uses, the call must still get exactly one
/// answer. The peer starts reading only after a delay (from a helper thread, because the unchanged library blocks in
/// the write until there is room). Evaluated directly on the implementation (the model has no notion of a full socket).
fn full_send_buffer_case(out: &mut Out, rng: &mut Prng) {
    use std::io::Read;
    use std::os::unix::io::AsRawFd;
    let (conn, mut server) = peer::connect_pair(false);
    let fd = conn.send.as_raw_fd();
    let v: i32 = 4608;
    unsafe { libc::setsockopt(fd, libc::SOL_SOCKET, libc::SO_SNDBUF, &v as *const i32 as *const libc::c_void, 4) };
    let mut rpc = RpcConn::new(conn);
    rpc.set_filter(Box::new(|m| !matches!(m.typ, MessageType::Call)));
    // fill the send buffer with whole signals
    let mut filler = 0u32;
    loop {
        let mut sig = MessageBuilder::new().signal("a.b", "Fill", "/o").build();
        sig.body.push_param(&vec![0x11u8; 500][..]).unwrap();
        let ctx = rpc.conn_mut().send.send_message(&sig).unwrap();
        match ctx.write(Timeout::Nonblock) {
            Ok(_) => filler += 1,
            Err((c, _)) => {
                // SendMessageState derives Debug: "SendMessageState { bytes_sent: N, serial: S }"
                let st = format!("{:?}", c.into_progress());
                if st.contains("bytes_sent: 0,") {
                    break;
                }
                // a partially written signal (the kernel takes messages of this size whole or not at all: not expected)
                out.hit("fullbuf_partial_filler");
                return;
            }
        }
        if filler > 2000 {
            return;
        }
    }
    // the rejected call
    let call_serial = 70 + rng.below(1000) as u32;
    let mut call = MessageBuilder::new().call("Ma").on("/o/p").with_interface("a.b").at("org.me").build();
    call.dynheader.sender = Some(":1.42".into());
    let frame = frame_of(&call, call_serial);
    server.write_all(&frame).unwrap();
    let timeout = match rng.below(3) {
        0 => Timeout::Nonblock,
        1 => Timeout::Duration(Duration::from_millis(30)),
        _ => Timeout::Duration(Duration::from_millis(120)),
    };
    let tname = match timeout {
        Timeout::Nonblock => "nonblock",
        Timeout::Duration(d) if d.as_millis() < 100 => "30ms",
        _ => "120ms",
    };
    // the peer: starts reading after 250 ms, stops when nothing came for 400 ms
    let reader = std::thread::spawn(move || {
        std::thread::sleep(Duration::from_millis(250));
        server.set_read_timeout(Some(Duration::from_millis(400))).unwrap();
        let mut all = Vec::new();
        let mut buf = [0u8; 65536];
        loop {
            match server.read(&mut buf) {
                Ok(0) => break,
                Ok(n) => all.extend_from_slice(&buf[..n]),
                Err(_) => break,
            }
        }
        all
    });
    let r = guard(|| match timeout {
        Timeout::Nonblock => rpc.try_refill_once(Timeout::Nonblock).map(|_| ()),
        t => rpc.refill_once(t).map(|_| ()),
    });
    let bytes = reader.join().unwrap();
    let frames = peer::split_frames(&bytes).unwrap_or_default();
    let mut errors = 0;
    for f in &frames {
        if let Ok(m) = peer::decode_frame(f) {
            if m.typ == MessageType::Error {
                errors += 1;
                let ok = m.dynheader.response_serial.map(|s| s.get()) == Some(call_serial)
                    && m.dynheader.destination.as_deref() == Some(":1.42")
                    && m.dynheader.error_name.as_deref() == Some("org.freedesktop.DBus.Error.UnknownMethod");
                if !ok {
                    out.violation(&format!("c14.fullbuf {} {}", tname, filler), "the error written for the rejected call does not carry its serial / sender / UnknownMethod");
                }
            }
        }
    }
    out.hit("fullbuf_case");
    out.hit(&format!("fullbuf_refill_{}", tname));
    if errors != 1 {
        out.violation(
            &format!("c14.fullbuf {} {}", tname, filler),
            &format!("a rejected call arrived while the send buffer was full ({} filler signals queued); refill ({}) returned {:?}; the peer then read everything and found {} unknown-method answers instead of exactly one", filler, tname, r.as_ref().map(|x| x.as_ref().map_err(|e| format!("{:?}", e))), errors),
        );
    }
    if call_handed_out(&mut rpc) {
        out.violation(&format!("c14.fullbuf {} {}", tname, filler), "the rejected call was handed out");
    }
}

fn call_handed_out(rpc: &mut RpcConn) -> bool {
    rpc.try_get_call().is_some()
}

pub fn run(cfg: &Cfg) {
    std::panic::set_hook(Box::new(|_| {}));
    let mut out = Out::new(&cfg.outdir);
    let mut rng = Prng::new(cfg.seed);
    let (n, max_ops) = if cfg.thorough { (3000, 40) } else { (400, 12) };
    for _ in 0..n {
        history(&mut out, &mut rng, max_ops);
    }
    for _ in 0..(if cfg.thorough { 12 } else { 3 }) {
        full_send_buffer_case(&mut out, &mut rng);
    }
    out.finish(
        "a rejected call arriving while the client's send buffer is full and the peer starts reading only 250 ms later, consumed by try_refill_once / refill_once with a 30 ms / 120 ms timeout: exactly one unknown-method answer must reach the peer (direct check); random histories on a real RpcConn (real DuplexConn + scripted peer): arrivals of calls / signals / replies / errors (unique marker in the body, distinct reply serials, senders present/absent, one message > 64 KiB in some histories, bursts of 2-4 messages in one write, messages split over two writes with client operations in between) interleaved with try_get_response/signal/call, refill_once / try_refill_once (Nonblock; also on an empty socket), refill_all, wait_response/signal/call (answer already in the socket; occasionally nothing to come, short timeout), under a random filter (default, accept all, reject all, by type subset, by marker parity, by member name, random table over markers); quick: 400 histories of 3..12 operations, thorough: 3000 of 3..40, each followed by an epilogue that reads and fetches everything; the model prints the whole observation log incl. error replies written to the peer; direct checks: nothing handed out twice, nothing rejected handed out, message intact, right consumer / reply serial, signals and calls in arrival order, every produced error is an UnknownMethod error for a not yet answered rejected call (its serial, its sender), at the end every accepted message handed out and every rejected call answered; distinct by request; non-trivial = at least two arrivals and one delivery",
        false,
    );
}
