//! C18: size and depth limits are enforced before resources are committed. What the theorems cannot show -
//! the allocations the real code performs - is measured here with a counting `#[global_allocator]`.
//!
//! RECEIVE: a real `DuplexConn` against the scripted in-process peer; the peer writes a 16-byte fixed header
//!   announcing field-array / body lengths around every limit (both byte orders) followed by 0 / 1 / 100 / 70000
//!   bytes; the client calls `read_once`, `bytes_needed_for_current_message`, `buffer_contains_whole_message`,
//!   `get_next_message(Nonblock)`. Observation = result classes + bytes_needed, compared with the model (`c18.recv`).
//!   DIRECT: an announcement beyond the limits (independent arithmetic on the two length words) must be refused
//!   by the first call that sees 16 bytes; the largest single allocation during the calls stays below
//!   `2 * (bytes received + 64 KiB) + 4096` (Vec::resize doubles the capacity, hence the factor 2).
//!   Legit large messages fed in chunks must still be received, with the same allocation bound per call.
//! DECODE: bodies with array/dict lengths around 64 MiB announced at top level / in a struct / in a variant / in
//!   an array with few bytes following, through `validate_marshalled`, the Param unmarshaller and typed `get`s;
//!   variant bombs and maximal signature nesting around depth 64. Compared with the model (`c18.dec`).
//!   DIRECT: peak live allocation during a decode stays below `176 * (input + signature) + 64 KiB`; an accepted
//!   value never contains an array longer than 64 MiB; no panic; the 10^5 deep bomb runs on a 2 MiB stack.
//! SEND: `push_param` of byte / u64 slices at the 64 MiB boundary (fast path, element-wise path, nested in
//!   struct / variant / dict), the Param API, `marshal::marshal` at the 128 MiB boundary and with a field array
//!   at the 64 MiB boundary, `send_message` on the real connection (refused => the peer sees no byte; serial
//!   counter as in the model). Compared with the model (`c18.arr`, `c18.msg`, `c18.send`).
//!   DIRECT: whatever is emitted carries no array length word above 64 MiB and no message above 128 MiB.
use rustbus::connection::ll_conn::DuplexConn;
use rustbus::connection::{Error, Timeout};
use rustbus::message_builder::{MarshalledMessage, MarshalledMessageBody, MessageBuilder};
use rustbus::params::{self, Param};
use rustbus::signature;
use rustbus::wire::errors::UnmarshalError;
use rustbus::wire::unmarshal_context::UnmarshalContext;
use rustbus::wire::validate_raw::validate_marshalled;
use rustbus::ByteOrder;
use std::alloc::{GlobalAlloc, Layout, System};
use std::borrow::Cow;
use std::collections::HashMap;
use std::io::Write;
use std::num::NonZeroU32;
use std::sync::atomic::{AtomicUsize, Ordering::Relaxed};
use vcore::common::*;
use vcore::eng_wire::guard;
use vcore::peer;

// ---------------------------------------------------------------------------------------------------------
// counting allocator
// ---------------------------------------------------------------------------------------------------------

pub struct Counting;
static CUR: AtomicUsize = AtomicUsize::new(0);
static PEAK: AtomicUsize = AtomicUsize::new(0);
static MAX1: AtomicUsize = AtomicUsize::new(0);

#[inline]
fn note(size: usize, grow: usize) {
    MAX1.fetch_max(size, Relaxed);
    let cur = CUR.fetch_add(grow, Relaxed) + grow;
    PEAK.fetch_max(cur, Relaxed);
}

unsafe impl GlobalAlloc for Counting {
    unsafe fn alloc(&self, l: Layout) -> *mut u8 {
        note(l.size(), l.size());
        System.alloc(l)
    }
    unsafe fn alloc_zeroed(&self, l: Layout) -> *mut u8 {
        note(l.size(), l.size());
        System.alloc_zeroed(l)
    }
    unsafe fn dealloc(&self, p: *mut u8, l: Layout) {
        CUR.fetch_sub(l.size(), Relaxed);
        System.dealloc(p, l)
    }
    unsafe fn realloc(&self, p: *mut u8, l: Layout, new: usize) -> *mut u8 {
        if new >= l.size() {
            note(new, new - l.size());
        } else {
            CUR.fetch_sub(l.size() - new, Relaxed);
        }
        System.realloc(p, l, new)
    }
}

#[global_allocator]
static ALLOC: Counting = Counting;

/// worst ratios seen (per mille), reported in meta.json
static RECV_WORST: AtomicUsize = AtomicUsize::new(0);
static DEC_WORST: AtomicUsize = AtomicUsize::new(0);
static DEC_WORST_ABS: AtomicUsize = AtomicUsize::new(0);
/// nesting depth of the well-formed value the current decode case was built from (0 = not a depth case)
static CASE_DEPTH: AtomicUsize = AtomicUsize::new(0);

#[derive(Clone, Copy, Debug, Default)]
struct Meter {
    /// largest single allocation request (alloc or the new size of a realloc)
    max_single: usize,
    /// peak of live bytes above the level at the start
    peak_extra: usize,
}

fn meter<R>(f: impl FnOnce() -> R) -> (R, Meter) {
    let base = CUR.load(Relaxed);
    PEAK.store(base, Relaxed);
    MAX1.store(0, Relaxed);
    let r = f();
    let m = Meter { max_single: MAX1.load(Relaxed), peak_extra: PEAK.load(Relaxed).saturating_sub(base) };
    (r, m)
}

// ---------------------------------------------------------------------------------------------------------
// constants of the property (independent of the library's constants)
// ---------------------------------------------------------------------------------------------------------

const MIB: usize = 1024 * 1024;
const ARR_MAX: usize = 64 * MIB;
const MSG_MAX: usize = 128 * MIB;
const GROWTH: usize = 64 * 1024;
/// receive path: `Vec::resize` may double the capacity, so one request may be twice what is needed
const RECV_SLACK: usize = 4096;
/// decode path: live bytes per input byte (a `Param` node is 72..100 bytes; a one byte value nested in 64
/// levels of structs costs 64 nodes)
const ALLOC_PER_BYTE: usize = 176;
/// constant part: the decoders clone the (at most 64 levels deep, at most 255 characters long) signature type at
/// every container level
const DEC_SLACK: usize = 64 * 1024;

const ORDERS: [ByteOrder; 2] = [ByteOrder::LittleEndian, ByteOrder::BigEndian];
fn bo_name(bo: ByteOrder) -> &'static str {
    match bo {
        ByteOrder::LittleEndian => "le",
        ByteOrder::BigEndian => "be",
    }
}
fn u32b(bo: ByteOrder, v: u32) -> [u8; 4] {
    match bo {
        ByteOrder::LittleEndian => v.to_le_bytes(),
        ByteOrder::BigEndian => v.to_be_bytes(),
    }
}
fn rd32(bo: ByteOrder, b: &[u8]) -> u32 {
    let a = [b[0], b[1], b[2], b[3]];
    match bo {
        ByteOrder::LittleEndian => u32::from_le_bytes(a),
        ByteOrder::BigEndian => u32::from_be_bytes(a),
    }
}
fn native() -> ByteOrder {
    if cfg!(target_endian = "little") {
        ByteOrder::LittleEndian
    } else {
        ByteOrder::BigEndian
    }
}
fn other(bo: ByteOrder) -> ByteOrder {
    match bo {
        ByteOrder::LittleEndian => ByteOrder::BigEndian,
        ByteOrder::BigEndian => ByteOrder::LittleEndian,
    }
}

fn pos_name(v: usize, limit: usize) -> &'static str {
    if v < limit {
        "below"
    } else if v == limit {
        "at"
    } else {
        "above"
    }
}

// ---------------------------------------------------------------------------------------------------------
// RECEIVE
// ---------------------------------------------------------------------------------------------------------

fn class(e: &Error) -> &'static str {
    match e {
        Error::TimedOut => "timedout",
        Error::ConnectionClosed => "closed",
        Error::UnmarshalError(UnmarshalError::MessageTooLong) => "toolong",
        Error::UnmarshalError(
            UnmarshalError::InvalidByteOrder
            | UnmarshalError::InvalidMessageType
            | UnmarshalError::InvalidProtocolVersion
            | UnmarshalError::InvalidSerial,
        ) => "invalid",
        _ => "other",
    }
}

fn hdr16(bo: ByteOrder, typ: u8, version: u8, body: u32, serial: u32, fields: u32) -> Vec<u8> {
    let mut h = vec![if bo == ByteOrder::LittleEndian { b'l' } else { b'B' }, typ, 0, version];
    h.extend_from_slice(&u32b(bo, body));
    h.extend_from_slice(&u32b(bo, serial));
    h.extend_from_slice(&u32b(bo, fields));
    h
}

/// the property's arithmetic on the two announced lengths
fn announced_total(fields: u32, body: u32) -> u64 {
    let h = 16 + fields as u64;
    (h + 7) / 8 * 8 + body as u64
}

fn recv_case(out: &mut Out, hdr: &[u8], follow: usize, valid_fixed: bool, bo: ByteOrder) {
    let (mut conn, mut server) = peer::connect_pair(false);
    let mut wire = hdr.to_vec();
    wire.resize(hdr.len() + follow, 0);
    server.write_all(&wire).unwrap();
    let req = format!("c18.recv {} {}", hex(hdr), follow);
    let received = wire.len();
    let (obs, m) = meter(|| {
        guard(|| {
            let n0 = conn.recv.bytes_needed_for_current_message().ok();
            let r1 = conn.recv.read_once(Timeout::Nonblock);
            let needed = conn.recv.bytes_needed_for_current_message();
            let whole = conn.recv.buffer_contains_whole_message();
            let r2 = conn.recv.get_next_message(Timeout::Nonblock);
            (n0, r1.map_err(|e| class(&e)), needed.map_err(|e| class(&e)), whole.map_err(|e| class(&e)),
             r2.map(|_| ()).map_err(|e| class(&e)))
        })
    });
    let (n0, r1, needed, whole, r2) = match obs {
        Ok(x) => x,
        Err(p) => {
            out.violation(&req, &format!("panic in the receive path: {}", p));
            out.case(&req, "panic", true);
            return;
        }
    };
    if n0 != Some(16) {
        out.violation(&req, &format!("bytes_needed on an empty buffer is {:?}, not 16", n0));
    }
    let s_r1 = match r1 { Ok(()) => "ok", Err(c) => c };
    let s_needed = match needed { Ok(n) => n.to_string(), Err(c) => c.to_string() };
    let s_whole = match whole { Ok(true) => "t", Ok(false) => "f", Err(c) => if c == "toolong" { "toolong" } else { "invalid" } };
    let s_r2 = match r2 { Ok(()) => "msg", Err(c) => c };
    out.case(&req, &format!("{} {} {} {}", s_r1, s_needed, s_whole, s_r2), true);

    // DIRECT 1: allocation follows the bytes received
    let bound = 2 * (received + GROWTH) + RECV_SLACK;
    RECV_WORST.fetch_max(m.max_single * 1000 / (received + GROWTH), Relaxed);
    if m.max_single > bound {
        out.violation(&req, &format!(
            "header announcing fields={} body={} followed by {} bytes made the library allocate {} bytes at once (bound {})",
            rd32(bo, &hdr[12..16]), rd32(bo, &hdr[4..8]), follow, m.max_single, bound));
    }
    if m.peak_extra > 2 * bound {
        out.violation(&req, &format!("peak live allocation {} for {} bytes received (bound {})", m.peak_extra, received, 2 * bound));
    }
    // DIRECT 2: announcements beyond the limits are refused as soon as 16 bytes are there
    if valid_fixed {
        let fields = rd32(bo, &hdr[12..16]);
        let body = rd32(bo, &hdr[4..8]);
        let total = announced_total(fields, body);
        let too_long = fields as usize > ARR_MAX || total > MSG_MAX as u64;
        out.hit(&format!("recv.fields.{}.{}", pos_name(fields as usize, ARR_MAX), bo_name(bo)));
        out.hit(&format!("recv.total.{}.{}", pos_name(total.min(usize::MAX as u64) as usize, MSG_MAX), bo_name(bo)));
        if too_long {
            if s_needed != "toolong" || s_r2 != "toolong" || s_whole != "toolong" {
                out.violation(&req, &format!(
                    "announcement fields={} total={} beyond the limits was not refused: needed={} whole={} get_next={}",
                    fields, total, s_needed, s_whole, s_r2));
            }
        } else {
            if s_needed == "toolong" || s_r2 == "toolong" {
                out.violation(&req, &format!("announcement fields={} total={} within the limits was refused", fields, total));
            }
            if s_needed != total.to_string() {
                out.violation(&req, &format!("bytes_needed = {} for an announcement of {}", s_needed, total));
            }
        }
    } else {
        out.hit("recv.invalid_fixed");
        if s_needed != "invalid" || s_r2 != "invalid" {
            out.violation(&req, &format!("invalid fixed header not refused: needed={} get_next={}", s_needed, s_r2));
        }
    }
    out.hit(&format!("recv.follow.{}", follow));
    out.hit(&format!("recv.result.{}", s_r2));
    drop(server);
}

fn run_recv(out: &mut Out, cfg: &Cfg) {
    let p26 = 1u32 << 26;
    let p27 = 1u32 << 27;
    // (fields, body)
    let mut pairs: Vec<(u32, u32)> = Vec::new();
    for f in [0u32, 8, p26 - 8, p26, p26 + 1, p26 + 8, 1 << 31, u32::MAX] {
        pairs.push((f, 0));
    }
    for b in [0u32, 1, p27 - 24, p27 - 16, p27 - 15, p27 - 8, p27, 1 << 31, u32::MAX] {
        pairs.push((0, b));
    }
    // both at once: total exactly 128 MiB with a 64 MiB field array, and just above
    pairs.push((p26, p27 - 16 - p26));
    pairs.push((p26, p27 - 16 - p26 + 1));
    pairs.push((p26 - 8, p26));
    pairs.push((p26 - 5, p27 - 16 - p26)); // padding matters: 16 + F rounded up
    pairs.push((3, p27 - 24));
    pairs.push((3, p27 - 23));
    pairs.push((u32::MAX, u32::MAX));
    let follows: &[usize] = if cfg.thorough { &[0, 1, 7, 100, 4096, 70000, 200000] } else { &[0, 1, 100, 70000] };
    for bo in ORDERS {
        for &(f, b) in &pairs {
            for &k in follows {
                let h = hdr16(bo, 1, 1, b, 1, f);
                recv_case(out, &h, k, true, bo);
            }
        }
    }
    // invalid fixed headers with huge announcements: refused as invalid, nothing allocated
    for bo in ORDERS {
        for (typ, ver, serial) in [(0u8, 1u8, 1u32), (5, 1, 1), (1, 2, 1), (1, 0, 1), (1, 1, 0)] {
            let h = hdr16(bo, typ, ver, u32::MAX, serial, u32::MAX);
            recv_case(out, &h, 100, false, bo);
        }
        let mut h = hdr16(bo, 1, 1, u32::MAX, 1, u32::MAX);
        h[0] = b'x';
        recv_case(out, &h, 100, false, bo);
    }
}

fn cksum(bs: &[u8]) -> u64 {
    let (mut a, mut b) = (1u64, 0u64);
    for x in bs {
        a = (a + *x as u64) % 65521;
        b = (b + a) % 65521;
    }
    b * 65536 + a
}

/// a legit message with an `ay` body of `n` zero bytes is fed in chunks and must arrive
fn chunk_case(out: &mut Out, bo: ByteOrder, n: usize, chunk: usize, with_model: bool) {
    let mut msg = MessageBuilder::with_byteorder(bo).call("m").on("/").build();
    let data = vec![0u8; n];
    msg.body.push_param(data.as_slice()).unwrap();
    drop(data);
    let mut wire = Vec::new();
    rustbus::wire::marshal::marshal(&msg, NonZeroU32::new(7).unwrap(), &mut wire).unwrap();
    let hdr_len = wire.len();
    wire.extend_from_slice(msg.get_buf());
    drop(msg);
    let req = format!("c18.chunks {} {} {}", hex(&wire[..hdr_len + 4]), n, chunk);
    let (mut conn, mut server) = peer::connect_pair(false);
    let mut fed = 0usize;
    let mut results: Vec<&'static str> = Vec::new();
    let mut worst = 0usize;
    while fed < wire.len() {
        let c = chunk.min(wire.len() - fed);
        server.write_all(&wire[fed..fed + c]).unwrap();
        fed += c;
        let (r, m) = meter(|| guard(|| conn.recv.get_next_message(Timeout::Nonblock)));
        let bound = 2 * (fed + GROWTH) + RECV_SLACK;
        RECV_WORST.fetch_max(m.max_single * 1000 / (fed + GROWTH), Relaxed);
        worst = worst.max(m.max_single);
        if m.max_single > bound {
            out.violation(&req, &format!("after {} of {} bytes one get_next_message allocated {} at once (bound {})", fed, wire.len(), m.max_single, bound));
        }
        match r {
            Err(p) => {
                out.violation(&req, &format!("panic: {}", p));
                results.push("panic");
                break;
            }
            Ok(Ok(got)) => {
                results.push("msg");
                if got.get_buf().len() != n + 4 || cksum(got.get_buf()) != cksum(&wire[hdr_len..]) {
                    out.violation(&req, "the received body differs from what was sent");
                }
                break;
            }
            Ok(Err(e)) => {
                let c = class(&e);
                results.push(c);
                if c != "timedout" {
                    break;
                }
            }
        }
    }
    if results.last() != Some(&"msg") {
        out.violation(&req, &format!("a legit message of {} bytes was not received: {:?}", wire.len(), results.last()));
    }
    // run-length encoding as the model prints it
    let mut rle: Vec<(&str, usize)> = Vec::new();
    for r in &results {
        match rle.last_mut() {
            Some((t, k)) if t == r => *k += 1,
            _ => rle.push((r, 1)),
        }
    }
    let obs = rle.iter().map(|(t, k)| if *k == 1 { t.to_string() } else { format!("{}*{}", t, k) }).collect::<Vec<_>>().join(",");
    if with_model {
        out.case(&req, &obs, true);
    }
    out.hit(&format!("recv.legit.{}MiB.{}", n / MIB, bo_name(bo)));
    let _ = worst;
}

fn run_chunks(out: &mut Out, cfg: &Cfg) {
    for bo in ORDERS {
        chunk_case(out, bo, 200_000, 50_000, true);
        chunk_case(out, bo, 300_000, 65_536, true);
        chunk_case(out, bo, MIB, 100_000, false);
    }
    if cfg.thorough {
        chunk_case(out, ByteOrder::LittleEndian, MIB, 65_536, true);
        chunk_case(out, ByteOrder::LittleEndian, 20 * MIB, 150_000, false);
        chunk_case(out, ByteOrder::BigEndian, ARR_MAX - 64, 180_000, false);
    }
}

// ---------------------------------------------------------------------------------------------------------
// DECODE
// ---------------------------------------------------------------------------------------------------------

/// largest array length word found by walking an accepted `Param` (element regions are not re-measured: the
/// check is on what the decoders returned: number of elements * minimal element size)
fn param_nodes(p: &Param) -> usize {
    match p {
        Param::Base(_) => 1,
        Param::Container(c) => match c {
            params::Container::Array(a) => 1 + a.values.iter().map(param_nodes).sum::<usize>(),
            params::Container::ArrayRef(a) => 1 + a.values.iter().map(param_nodes).sum::<usize>(),
            params::Container::Struct(v) => 1 + v.iter().map(param_nodes).sum::<usize>(),
            params::Container::StructRef(v) => 1 + v.iter().map(param_nodes).sum::<usize>(),
            params::Container::Dict(d) => 1 + d.map.iter().map(|(_, v)| 2 + param_nodes(v)).sum::<usize>(),
            params::Container::DictRef(d) => 1 + d.map.iter().map(|(_, v)| 2 + param_nodes(v)).sum::<usize>(),
            params::Container::Variant(v) => 1 + param_nodes(&v.value),
        },
    }
}

fn typed_ok<'a, T: rustbus::Unmarshal<'a, 'a>>(bo: ByteOrder, buf: &'a [u8]) -> bool {
    let mut ctx = UnmarshalContext::new(&[], bo, buf, 0);
    T::unmarshal(&mut ctx).is_ok()
}

/// which typed decoders apply to a signature
fn typed_decoders(sig: &str) -> Vec<(&'static str, fn(ByteOrder, &[u8]) -> bool)> {
    fn f<T: for<'a> rustbus::Unmarshal<'a, 'a>>(bo: ByteOrder, buf: &[u8]) -> bool {
        let mut ctx = UnmarshalContext::new(&[], bo, buf, 0);
        T::unmarshal(&mut ctx).is_ok()
    }
    fn slice_u8(bo: ByteOrder, buf: &[u8]) -> bool { typed_ok::<&[u8]>(bo, buf) }
    fn cow_u8(bo: ByteOrder, buf: &[u8]) -> bool { typed_ok::<Cow<[u8]>>(bo, buf) }
    fn cow_u64(bo: ByteOrder, buf: &[u8]) -> bool { typed_ok::<Cow<[u64]>>(bo, buf) }
    fn vec_str(bo: ByteOrder, buf: &[u8]) -> bool { typed_ok::<Vec<&str>>(bo, buf) }
    fn variant(bo: ByteOrder, buf: &[u8]) -> bool { typed_ok::<rustbus::wire::unmarshal::traits::Variant>(bo, buf) }
    fn vec4_variant(bo: ByteOrder, buf: &[u8]) -> bool {
        typed_ok::<Vec<Vec<Vec<Vec<rustbus::wire::unmarshal::traits::Variant>>>>>(bo, buf)
    }
    fn map_sv(bo: ByteOrder, buf: &[u8]) -> bool {
        typed_ok::<HashMap<String, rustbus::wire::unmarshal::traits::Variant>>(bo, buf)
    }
    match sig {
        "ay" => vec![("vec_u8", f::<Vec<u8>> as fn(ByteOrder, &[u8]) -> bool), ("slice_u8", slice_u8), ("cow_u8", cow_u8)],
        "at" => vec![("vec_u64", f::<Vec<u64>> as fn(ByteOrder, &[u8]) -> bool), ("cow_u64", cow_u64)],
        "as" => vec![("vec_string", f::<Vec<String>> as fn(ByteOrder, &[u8]) -> bool), ("vec_str", vec_str)],
        "a{sv}" => vec![("map_sv", map_sv as fn(ByteOrder, &[u8]) -> bool)],
        "a{yy}" => vec![("map_yy", f::<HashMap<u8, u8>> as fn(ByteOrder, &[u8]) -> bool)],
        "(yay)" => vec![("tuple_y_ay", f::<(u8, Vec<u8>)> as fn(ByteOrder, &[u8]) -> bool)],
        "aay" => vec![("vec_vec_u8", f::<Vec<Vec<u8>>> as fn(ByteOrder, &[u8]) -> bool)],
        "v" => vec![("variant", variant as fn(ByteOrder, &[u8]) -> bool)],
        "aaaav" => vec![("vec4_variant", vec4_variant as fn(ByteOrder, &[u8]) -> bool)],
        _ => vec![],
    }
}

/// the model's list based decoder is quadratic in the buffer size: inputs above 40 KB are checked directly only
/// (allocation bound, node bound, no panic, no oversized array accepted)
struct Sink<'a> {
    out: &'a mut Out,
    model: bool,
}
impl Sink<'_> {
    fn case(&mut self, req: &str, obs: &str) {
        if self.model {
            self.out.case(req, obs, true);
        } else {
            self.out.hit("dec.direct_only");
        }
    }
}

fn dec_case(out0: &mut Out, bo: ByteOrder, sig: &str, buf: &[u8], tag: &str) {
    let model = buf.len() <= 40_000 || (sig == "v" && tag.starts_with("bomb"));
    let hx = if model { hex(buf) } else { format!("<{} bytes>", buf.len()) };
    let mut sink = Sink { out: out0, model };
    let out = &mut sink;
    let bound = ALLOC_PER_BYTE * (buf.len() + sig.len()) + DEC_SLACK;
    let ty = signature::Type::parse_description(sig).ok().and_then(|mut v| if v.len() == 1 { Some(v.remove(0)) } else { None });
    let depth = CASE_DEPTH.load(Relaxed);
    // the engine built a well-formed value nested `depth` levels deep: accepted iff depth <= 64
    let depth_check = |out: &mut Sink, req: &str, accepted: bool, what: &str| {
        if depth > 64 && accepted {
            out.out.violation(req, &format!("{} accepted a value nested {} levels deep", what, depth));
        }
        if depth != 0 && depth <= 64 && !accepted {
            out.out.violation(req, &format!("{} rejected a well-formed value nested only {} levels deep", what, depth));
        }
    };
    let check = |out: &mut Sink, req: &str, m: Meter, what: &str| {
        DEC_WORST.fetch_max(m.peak_extra * 1000 / (buf.len() + sig.len()).max(1), Relaxed);
        DEC_WORST_ABS.fetch_max(m.peak_extra, Relaxed);
        if m.peak_extra > bound {
            out.out.violation(req, &format!(
                "{}: {} bytes of input made the decoder hold {} bytes (largest single request {}; bound {})",
                what, buf.len(), m.peak_extra, m.max_single, bound));
        }
    };
    // validate_raw
    {
        let req = format!("c18.dec validate {} {} {}", bo_name(bo), sig, hx);
        let (r, m) = meter(|| guard(|| match &ty {
            Some(t) => validate_marshalled(bo, 0, buf, t).map_err(|_| ()),
            None => Err(()),
        }));
        match &r {
            Ok(Ok(n)) => { out.case(&req, &format!("ok {}", n)); out.out.hit(&format!("dec.{}.validate.ok", tag)); }
            Ok(Err(())) => { out.case(&req, "reject"); out.out.hit(&format!("dec.{}.validate.reject", tag)); }
            Err(p) => { out.out.violation(&req, &format!("panic: {}", p)); out.case(&req, "panic"); }
        }
        if let Ok(x) = &r {
            depth_check(out, &req, x.is_ok(), "validate_marshalled");
        }
        check(out, &req, m, "validate_marshalled");
    }
    // Param unmarshaller
    {
        let req = format!("c18.dec param {} {} {}", bo_name(bo), sig, hx);
        let (r, m) = meter(|| guard(|| match &ty {
            Some(t) => {
                let mut ctx = UnmarshalContext::new(&[], bo, buf, 0);
                rustbus::wire::unmarshal::container::unmarshal_with_sig(t, &mut ctx).map(|p| param_nodes(&p)).map_err(|_| ())
            }
            None => Err(()),
        }));
        match &r {
            Ok(Ok(nodes)) => {
                out.case(&req, "ok");
                out.out.hit(&format!("dec.{}.param.ok", tag));
                // Theorem 6 on the implementation: at most 65 nodes per byte
                if *nodes > 65 * buf.len() {
                    out.out.violation(&req, &format!("{} nodes decoded from {} bytes", nodes, buf.len()));
                }
            }
            Ok(Err(())) => { out.case(&req, "reject"); out.out.hit(&format!("dec.{}.param.reject", tag)); }
            Err(p) => { out.out.violation(&req, &format!("panic: {}", p)); out.case(&req, "panic"); }
        }
        if let Ok(x) = &r {
            depth_check(out, &req, x.is_ok(), "the Param unmarshaller");
        }
        check(out, &req, m, "unmarshal_with_sig");
    }
    // typed
    if ty.is_some() {
        for (name, f) in typed_decoders(sig) {
            let req = format!("c18.dec typed:{} {} {} {}", name, bo_name(bo), sig, hx);
            let (r, m) = meter(|| guard(|| f(bo, buf)));
            match &r {
                Ok(true) => { out.case(&req, "ok"); out.out.hit(&format!("dec.{}.{}.ok", tag, name)); }
                Ok(false) => { out.case(&req, "reject"); out.out.hit(&format!("dec.{}.{}.reject", tag, name)); }
                Err(p) => { out.out.violation(&req, &format!("panic: {}", p)); out.case(&req, "panic"); }
            }
            if let Ok(x) = &r {
                depth_check(out, &req, *x, name);
            }
            check(out, &req, m, name);
        }
    }
}

fn run_dec_lengths(out: &mut Out, cfg: &Cfg) {
    let p26 = 1u32 << 26;
    let lens: Vec<u32> = if cfg.thorough {
        vec![0, 3, 8, 100, p26 - 4, p26 - 1, p26, p26 + 1, p26 + 4, p26 + 8, 1 << 27, 1 << 31, u32::MAX - 7, u32::MAX]
    } else {
        vec![3, 8, p26 - 4, p26, p26 + 1, p26 + 4, 1 << 31, u32::MAX]
    };
    let follows: &[usize] = if cfg.thorough { &[0, 3, 8, 16, 100, 1000] } else { &[0, 3, 8, 100] };
    for bo in ORDERS {
        for &l in &lens {
            let pos = pos_name(l as usize, ARR_MAX);
            for &k in follows {
                let tail: Vec<u8> = (0..k).map(|i| if i % 8 == 7 { 0 } else { (i % 5) as u8 }).collect();
                let zeros = vec![0u8; k];
                let w = u32b(bo, l);
                // top level array of bytes / u64 / strings, dicts
                let mut b = w.to_vec(); b.extend_from_slice(&tail);
                dec_case(out, bo, "ay", &b, &format!("top_ay.{}", pos));
                let mut b = w.to_vec(); b.extend_from_slice(&[0; 4]); b.extend_from_slice(&zeros);
                dec_case(out, bo, "at", &b, &format!("top_at.{}", pos));
                let mut b = w.to_vec(); b.extend_from_slice(&zeros);
                dec_case(out, bo, "as", &b, &format!("top_as.{}", pos));
                let mut b = w.to_vec(); b.extend_from_slice(&[0; 4]); b.extend_from_slice(&zeros);
                dec_case(out, bo, "a{sv}", &b, &format!("top_dict_sv.{}", pos));
                let mut b = w.to_vec(); b.extend_from_slice(&[0; 4]); b.extend_from_slice(&tail);
                dec_case(out, bo, "a{yy}", &b, &format!("top_dict_yy.{}", pos));
                // inside a struct
                let mut b = vec![7, 0, 0, 0]; b.extend_from_slice(&w); b.extend_from_slice(&tail);
                dec_case(out, bo, "(yay)", &b, &format!("struct.{}", pos));
                // inside a variant
                let mut b = vec![2, b'a', b'y', 0]; b.extend_from_slice(&w); b.extend_from_slice(&tail);
                dec_case(out, bo, "v", &b, &format!("variant.{}", pos));
                // inside an array (inner length huge, outer covers what is there), and the outer itself
                let mut b = u32b(bo, (4 + k) as u32).to_vec(); b.extend_from_slice(&w); b.extend_from_slice(&tail);
                dec_case(out, bo, "aay", &b, &format!("inner_array.{}", pos));
                let mut b = w.to_vec(); b.extend_from_slice(&u32b(bo, k as u32)); b.extend_from_slice(&tail);
                dec_case(out, bo, "aay", &b, &format!("outer_array.{}", pos));
            }
        }
    }
}

/// legit, element-heavy values: the allocation per input byte is what the decoders need for their result
fn run_dec_legit(out: &mut Out, cfg: &Cfg) {
    let sizes: &[usize] = if cfg.thorough { &[1000, 10_000, 100_000, 1_000_000] } else { &[1000, 8_000] };
    for bo in ORDERS {
        for &n in sizes {
            // n bytes
            let mut b = u32b(bo, n as u32).to_vec();
            b.extend((0..n).map(|i| i as u8));
            dec_case(out, bo, "ay", &b, "legit_ay");
            // n/8 u64
            let mut b = u32b(bo, (n / 8 * 8) as u32).to_vec();
            b.extend_from_slice(&[0; 4]);
            b.extend((0..n / 8 * 8).map(|i| i as u8));
            dec_case(out, bo, "at", &b, "legit_at");
            // n/8 empty strings (4 bytes length, NUL, 3 bytes padding)
            let mut b = u32b(bo, (n / 8 * 8 - 3) as u32).to_vec();
            for _ in 0..n / 8 {
                b.extend_from_slice(&[0, 0, 0, 0, 0, 0, 0, 0]);
            }
            b.truncate(4 + n / 8 * 8 - 3);
            dec_case(out, bo, "as", &b, "legit_as");
            // n/2 dict entries y -> y, 8-aligned each (2 bytes + 6 padding)
            let cnt = n / 8;
            let mut b = u32b(bo, (cnt * 8 - 6) as u32).to_vec();
            b.extend_from_slice(&[0; 4]);
            for i in 0..cnt {
                b.extend_from_slice(&[i as u8, 1, 0, 0, 0, 0, 0, 0]);
            }
            b.truncate(8 + cnt * 8 - 6);
            dec_case(out, bo, "a{yy}", &b, "legit_dict_yy");
            // n/4 arrays of one byte each inside an array (4 bytes length + 1 byte + 3 padding)
            let cnt = n / 8;
            let mut b = u32b(bo, (cnt * 8 - 3) as u32).to_vec();
            for _ in 0..cnt {
                b.extend_from_slice(&u32b(bo, 1));
                b.extend_from_slice(&[9, 0, 0, 0]);
            }
            b.truncate(4 + cnt * 8 - 3);
            dec_case(out, bo, "aay", &b, "legit_aay");
        }
    }
}

fn bomb(depth: usize) -> Vec<u8> {
    // `depth` nested variants, the innermost holds the byte 42
    let mut b = Vec::with_capacity(depth * 3 + 1);
    for _ in 1..depth {
        b.extend_from_slice(&[1, b'v', 0]);
    }
    b.extend_from_slice(&[1, b'y', 0, 42]);
    b
}

/// arrays of fixed-size elements that are COMPLETELY present, at the 64 MiB boundary: exactly 64 MiB is a valid
/// array and must be accepted, one element more must be refused although every byte is there. The model answers
/// from the lengths (`c18.fullarr`, theorem `decode_boundary`); the Param unmarshaller (80 bytes per element) is
/// exercised with 64 strings of 1 MiB instead (direct check).
fn run_dec_full(out: &mut Out, _cfg: &Cfg) {
    fn one(out: &mut Out, req: &str, name: &str, input: usize, f: impl FnOnce() -> bool) {
        let (r, m) = meter(|| guard(f));
        match r {
            Ok(true) => out.case(req, "ok", true),
            Ok(false) => out.case(req, "reject", true),
            Err(p) => {
                out.violation(req, &format!("panic: {}", p));
                out.case(req, "panic", true)
            }
        }
        out.hit(&format!("dec.full.{}", name));
        let bound = ALLOC_PER_BYTE * input + DEC_SLACK;
        if m.peak_extra > bound {
            out.violation(req, &format!("{}: {} bytes of input made the decoder hold {} bytes (bound {})", name, input, m.peak_extra, bound));
        }
    }
    let mut buf = vec![0u8; ARR_MAX + 64];
    let ty_ay = signature::Type::parse_description("ay").unwrap().remove(0);
    let ty_at = signature::Type::parse_description("at").unwrap().remove(0);
    for bo in ORDERS {
        for n in [ARR_MAX - 1, ARR_MAX, ARR_MAX + 1] {
            buf[..4].copy_from_slice(&u32b(bo, n as u32));
            let b = &buf[..4 + n];
            out.hit(&format!("dec.full.ay.{}.{}", pos_name(n, ARR_MAX), bo_name(bo)));
            one(out, &format!("c18.fullarr 1 {} {}:validate", n, bo_name(bo)), "validate_ay", b.len(), || validate_marshalled(bo, 0, b, &ty_ay) == Ok(4 + n));
            one(out, &format!("c18.fullarr 1 {} {}:slice_u8", n, bo_name(bo)), "slice_u8", b.len(), || typed_ok::<&[u8]>(bo, b));
            one(out, &format!("c18.fullarr 1 {} {}:cow_u8", n, bo_name(bo)), "cow_u8", b.len(), || typed_ok::<Cow<[u8]>>(bo, b));
            one(out, &format!("c18.fullarr 1 {} {}:vec_u8", n, bo_name(bo)), "vec_u8", b.len(), || typed_ok::<Vec<u8>>(bo, b));
        }
        for cnt in [ARR_MAX / 8 - 1, ARR_MAX / 8, ARR_MAX / 8 + 1] {
            buf[..4].copy_from_slice(&u32b(bo, (cnt * 8) as u32));
            buf[4..8].copy_from_slice(&[0; 4]);
            let b = &buf[..8 + cnt * 8];
            out.hit(&format!("dec.full.at.{}.{}", pos_name(cnt * 8, ARR_MAX), bo_name(bo)));
            one(out, &format!("c18.fullarr 8 {} {}:validate", cnt, bo_name(bo)), "validate_at", b.len(), || validate_marshalled(bo, 0, b, &ty_at) == Ok(8 + cnt * 8));
            one(out, &format!("c18.fullarr 8 {} {}:cow_u64", cnt, bo_name(bo)), "cow_u64", b.len(), || typed_ok::<Cow<[u64]>>(bo, b));
            one(out, &format!("c18.fullarr 8 {} {}:vec_u64", cnt, bo_name(bo)), "vec_u64", b.len(), || typed_ok::<Vec<u64>>(bo, b));
        }
        buf[..8].copy_from_slice(&[0; 8]);
    }
    drop(buf);
    // `as`: 64 strings; each occupies 4 + len + 1 bytes with len = 3 mod 4 (no padding): 64 * 2^20 = 64 MiB exactly,
    // and one string 4 bytes longer: 64 MiB + 4
    let ty_as = signature::Type::parse_description("as").unwrap().remove(0);
    for bo in ORDERS {
        for extra in [0usize, 4] {
            let mut b: Vec<u8> = Vec::with_capacity(ARR_MAX + 16);
            b.extend_from_slice(&u32b(bo, (ARR_MAX + extra) as u32));
            for i in 0..64 {
                let len = MIB - 5 + if i == 0 { extra } else { 0 };
                b.extend_from_slice(&u32b(bo, len as u32));
                b.resize(b.len() + len, b'a');
                b.push(0);
            }
            let region = b.len() - 4;
            let req = format!("c18.fullas {} {}", region, bo_name(bo));
            let expect = region <= ARR_MAX;
            for (name, r) in [
                ("validate", guard(|| validate_marshalled(bo, 0, &b, &ty_as).is_ok())),
                ("param", guard(|| {
                    let mut ctx = UnmarshalContext::new(&[], bo, &b, 0);
                    rustbus::wire::unmarshal::container::unmarshal_with_sig(&ty_as, &mut ctx).is_ok()
                })),
                ("vec_str", guard(|| typed_ok::<Vec<&str>>(bo, &b))),
                ("vec_string", guard(|| typed_ok::<Vec<String>>(bo, &b))),
            ] {
                out.hit(&format!("dec.full.as.{}.{}", name, pos_name(region, ARR_MAX)));
                match r {
                    Ok(x) if x == expect => {}
                    Ok(true) => out.violation(&req, &format!("{} accepted an array of strings with an element region of {} bytes (> 64 MiB)", name, region)),
                    Ok(false) => out.violation(&req, &format!("{} rejected a valid array of strings whose element region is exactly 64 MiB (limit over-tight)", name)),
                    Err(p) => out.violation(&req, &format!("{} panicked: {}", name, p)),
                }
            }
        }
    }
}

fn run_dec_depth(out: &mut Out, cfg: &Cfg) {
    // variant bombs: depth 64 is the deepest accepted
    let depths: &[usize] = if cfg.thorough { &[1, 2, 3, 31, 32, 33, 62, 63, 64, 65, 66, 67, 100, 128, 1000, 5000] } else { &[1, 2, 63, 64, 65, 66, 1000] };
    for bo in ORDERS {
        for &d in depths {
            CASE_DEPTH.store(d, Relaxed);
            dec_case(out, bo, "v", &bomb(d), &format!("bomb.{}", pos_name(d, 64)));
        }
        CASE_DEPTH.store(0, Relaxed);
        // the signature's own nesting: 32 arrays / 32 structs are the maximum; deeper signatures are refused
        for n in [1usize, 31, 32, 33, 40] {
            let sig = format!("{}y", "a".repeat(n));
            let mut data = vec![42u8];
            for _ in 0..n {
                let mut d = u32b(bo, data.len() as u32).to_vec();
                d.extend_from_slice(&data);
                data = d;
            }
            // beyond 32 it is the signature's own limit that refuses (not a depth-64 case)
            CASE_DEPTH.store(if n <= 32 { n } else { 0 }, Relaxed);
            dec_case(out, bo, &sig, &data, &format!("sig_arrays.{}", pos_name(n, 32)));
            let sig = format!("{}y{}", "(".repeat(n), ")".repeat(n));
            dec_case(out, bo, &sig, &[42], &format!("sig_structs.{}", pos_name(n, 32)));
            CASE_DEPTH.store(0, Relaxed);
        }
        // arrays in the signature, then variants: 31 + j levels
        for (na, j) in [(31usize, 32usize), (31, 33), (31, 34), (32, 31), (32, 32), (32, 33), (1, 63), (1, 64), (4, 59), (4, 60), (4, 61)] {
            let sig = format!("{}v", "a".repeat(na));
            let mut data = bomb(j);
            for _ in 0..na {
                let mut d = u32b(bo, data.len() as u32).to_vec();
                d.extend_from_slice(&data);
                data = d;
            }
            CASE_DEPTH.store(na + j, Relaxed);
            dec_case(out, bo, &sig, &data, &format!("arrays_then_bomb.{}", pos_name(na + j, 64)));
            CASE_DEPTH.store(0, Relaxed);
        }
        // a dict (two levels) whose only value is a variant bomb: 2 + j levels, through the typed HashMap as well
        for j in [61usize, 62, 63] {
            let b = bomb(j);
            let mut data = u32b(bo, (6 + b.len()) as u32).to_vec();
            data.extend_from_slice(&[0; 4]);
            data.extend_from_slice(&u32b(bo, 1));
            data.extend_from_slice(&[b'k', 0]);
            data.extend_from_slice(&b);
            CASE_DEPTH.store(2 + j, Relaxed);
            dec_case(out, bo, "a{sv}", &data, &format!("dict_then_bomb.{}", pos_name(2 + j, 64)));
            CASE_DEPTH.store(0, Relaxed);
        }
        // 32 arrays of 32 structs (64 levels) holding a byte: accepted; holding a variant: 65 levels
        for (inner, payload, depth) in [("y", vec![42u8], 64usize), ("v", vec![1, b'y', 0, 42], 65)] {
            let sig = format!("{}{}{}{}", "a".repeat(32), "(".repeat(32), inner, ")".repeat(32));
            // innermost struct is 8-aligned: the payload sits after 32 length words (128 bytes: aligned)
            let mut data = payload.clone();
            for _ in 0..32 {
                // the innermost length word ends at offset 128, which is 8-aligned: no padding before the struct
                let mut d = u32b(bo, data.len() as u32).to_vec();
                d.extend_from_slice(&data);
                data = d;
            }
            CASE_DEPTH.store(depth, Relaxed);
            dec_case(out, bo, &sig, &data, &format!("sig64.{}", pos_name(depth, 64)));
            CASE_DEPTH.store(0, Relaxed);
        }
    }
}

/// the 10^5 deep bomb on a 2 MiB stack: a decoder that recursed per level would overflow it
fn run_dec_deep(out: &mut Out, cfg: &Cfg) {
    let depth = if cfg.thorough { 400_000 } else { 100_000 };
    let data = bomb(depth);
    let req = format!("c18.deepbomb {}", depth);
    let d2 = data.clone();
    let h = std::thread::Builder::new().stack_size(2 * MIB).spawn(move || {
        let ty = signature::Type::parse_description("v").unwrap().remove(0);
        let mut res = Vec::new();
        for bo in ORDERS {
            let a = guard(|| validate_marshalled(bo, 0, &d2, &ty).is_ok());
            let b = guard(|| {
                let mut ctx = UnmarshalContext::new(&[], bo, &d2, 0);
                rustbus::wire::unmarshal::container::unmarshal_with_sig(&ty, &mut ctx).is_ok()
            });
            let c = guard(|| typed_ok::<rustbus::wire::unmarshal::traits::Variant>(bo, &d2));
            res.push((a, b, c));
        }
        res
    }).unwrap();
    match h.join() {
        Ok(res) => {
            for (a, b, c) in res {
                for (name, r) in [("validate", a), ("param", b), ("typed", c)] {
                    match r {
                        Ok(false) => out.hit(&format!("dec.deepbomb.{}.reject", name)),
                        Ok(true) => out.violation(&req, &format!("{} accepted a {} deep variant bomb", name, depth)),
                        Err(p) => out.violation(&req, &format!("{} panicked on a {} deep variant bomb: {}", name, depth, p)),
                    }
                }
            }
        }
        Err(_) => out.violation(&req, "the decoder thread died"),
    }
    // the model sees the same bytes
    CASE_DEPTH.store(depth, Relaxed);
    dec_case(out, ByteOrder::LittleEndian, "v", &data, "bomb.deep");
    CASE_DEPTH.store(0, Relaxed);
}

// ---------------------------------------------------------------------------------------------------------
// SEND
// ---------------------------------------------------------------------------------------------------------

/// every array length word of a body that consists of ONE array at offset 0 (possibly wrapped) is checked by
/// the caller; this finds the length word of a top level array
fn check_emitted_array(out: &mut Out, req: &str, bo: ByteOrder, body: &[u8], len_pos: usize, expect_region: usize) {
    if body.len() < len_pos + 4 {
        out.violation(req, "accepted but no length word was emitted");
        return;
    }
    let l = rd32(bo, &body[len_pos..]) as usize;
    if l > ARR_MAX {
        out.violation(req, &format!("the library emitted an array of {} bytes (> 64 MiB)", l));
    }
    if l != expect_region {
        out.violation(req, &format!("length word {} but the element region is {}", l, expect_region));
    }
}

fn arr_obs(out: &mut Out, req: &str, r: Result<Result<(), ()>, String>, region: usize, tag: &str, bo: ByteOrder) -> bool {
    out.hit(&format!("send.{}.{}.{}", tag, pos_name(region, ARR_MAX), bo_name(bo)));
    match r {
        Ok(Ok(())) => {
            out.case(req, "ok", true);
            if region > ARR_MAX {
                out.violation(req, &format!("an array/dict with an element region of {} bytes (> 64 MiB) was marshalled", region));
            }
            true
        }
        Ok(Err(())) => {
            out.case(req, "refuse", true);
            false
        }
        Err(p) => {
            out.violation(req, &format!("panic: {}", p));
            out.case(req, "panic", true);
            false
        }
    }
}

fn run_send_arrays(out: &mut Out, cfg: &Cfg) {
    let zeros = vec![0u8; ARR_MAX + 16];
    let ns: Vec<usize> = if cfg.thorough {
        vec![0, 1, ARR_MAX - 8, ARR_MAX - 1, ARR_MAX, ARR_MAX + 1, ARR_MAX + 8, ARR_MAX + 16]
    } else {
        vec![ARR_MAX - 1, ARR_MAX, ARR_MAX + 1]
    };
    for bo in ORDERS {
        for &n in &ns {
            // &[u8] on its own
            let req = format!("c18.arr top 1 {}", n);
            let mut body = MarshalledMessageBody::with_byteorder(bo);
            let r = guard(|| body.push_param(&zeros[..n]).map_err(|_| ()));
            let req = format!("{} {}:slice_u8", req, bo_name(bo));
            if arr_obs(out, &req, r, n, "slice_u8", bo) {
                let m = msg_of(body);
                check_emitted_array(out, &req, bo, m.get_buf(), 0, n);
            }
            if n > ARR_MAX + 1 || (n < ARR_MAX - 1 && !cfg.thorough) {
                continue;
            }
            // second field of a struct
            let req = format!("c18.arr struct 1 {} {}:tuple", n, bo_name(bo));
            let mut body = MarshalledMessageBody::with_byteorder(bo);
            let r = guard(|| body.push_param((7u8, &zeros[..n])).map_err(|_| ()));
            if arr_obs(out, &req, r, n, "in_struct", bo) {
                let m = msg_of(body);
                check_emitted_array(out, &req, bo, m.get_buf(), 4, n);
            }
            // in a variant
            let req = format!("c18.arr variant 1 {} {}:variant", n, bo_name(bo));
            let mut body = MarshalledMessageBody::with_byteorder(bo);
            let r = guard(|| body.push_variant(&zeros[..n]).map_err(|_| ()));
            if arr_obs(out, &req, r, n, "in_variant", bo) {
                let m = msg_of(body);
                check_emitted_array(out, &req, bo, m.get_buf(), 4, n);
            }
        }
        // value of the only entry of a dict: the dict's own region is 12 + n
        for n in [ARR_MAX - 13, ARR_MAX - 12, ARR_MAX - 11] {
            let req = format!("c18.arr dict1 1 {} {}:hashmap", n, bo_name(bo));
            let mut map: HashMap<&str, &[u8]> = HashMap::new();
            map.insert("k", &zeros[..n]);
            let mut body = MarshalledMessageBody::with_byteorder(bo);
            let r = guard(|| body.push_param(&map).map_err(|_| ()));
            if arr_obs(out, &req, r, 12 + n, "dict_typed", bo) {
                let m = msg_of(body);
                check_emitted_array(out, &req, bo, m.get_buf(), 0, 12 + n);
            }
        }
    }
    drop(zeros);
    // u64: the fast path (native order) and the element-wise path (other order)
    let words = vec![0u64; ARR_MAX / 8 + 2];
    for bo in [native(), other(native())] {
        let path = if bo == native() { "u64_fast" } else { "u64_elementwise" };
        for cnt in [ARR_MAX / 8 - 1, ARR_MAX / 8, ARR_MAX / 8 + 1] {
            let req = format!("c18.arr top 8 {} {}:{}", cnt, bo_name(bo), path);
            let mut body = MarshalledMessageBody::with_byteorder(bo);
            let r = guard(|| body.push_param(&words[..cnt]).map_err(|_| ()));
            if arr_obs(out, &req, r, cnt * 8, path, bo) {
                let m = msg_of(body);
                check_emitted_array(out, &req, bo, m.get_buf(), 0, cnt * 8);
            }
        }
    }
    drop(words);
    // the Param API: a flat array of u64 params
    {
        let cnt_max = ARR_MAX / 8 + 1;
        let values: Vec<Param<'static, 'static>> = (0..cnt_max).map(|_| Param::Base(params::Base::Uint64(0))).collect();
        let el = signature::Type::Base(signature::Base::Uint64);
        for bo in ORDERS {
            for cnt in [ARR_MAX / 8 - 1, ARR_MAX / 8, ARR_MAX / 8 + 1] {
                let req = format!("c18.arr top 8 {} {}:param_array", cnt, bo_name(bo));
                let p = Param::Container(params::Container::ArrayRef(params::ArrayRef { element_sig: el.clone(), values: &values[..cnt] }));
                let mut body = MarshalledMessageBody::with_byteorder(bo);
                let r = guard(|| body.push_old_param(&p).map_err(|_| ()));
                if arr_obs(out, &req, r, cnt * 8, "param_array", bo) {
                    let m = msg_of(body);
                    check_emitted_array(out, &req, bo, m.get_buf(), 0, cnt * 8);
                }
            }
        }
        // the Param API dict {"k": at}: region = 16 + 8 * cnt (direct check only; no length-level model)
        for bo in ORDERS {
            for cnt in [ARR_MAX / 8 - 3, ARR_MAX / 8 - 2, ARR_MAX / 8 - 1] {
                let req = format!("c18.paramdict {} {}", cnt, bo_name(bo));
                let arr = Param::Container(params::Container::ArrayRef(params::ArrayRef { element_sig: el.clone(), values: &values[..cnt] }));
                let mut map = params::DictMap::new();
                map.insert(params::Base::String("k".into()), arr);
                let d = Param::Container(params::Container::Dict(params::Dict {
                    key_sig: signature::Base::String,
                    value_sig: signature::Type::Container(signature::Container::Array(Box::new(el.clone()))),
                    map,
                }));
                let mut body = MarshalledMessageBody::with_byteorder(bo);
                let r = guard(|| body.push_old_param(&d).map_err(|_| ()));
                let region = 16 + 8 * cnt;
                out.hit(&format!("send.param_dict.{}.{}", pos_name(region, ARR_MAX), bo_name(bo)));
                match r {
                    Ok(Ok(())) => {
                        out.hit("send.param_dict.ok");
                        let m = msg_of(body);
                        check_emitted_array(out, &req, bo, m.get_buf(), 0, region);
                    }
                    Ok(Err(())) => {
                        out.hit("send.param_dict.refuse");
                        if region <= ARR_MAX {
                            out.hit("send.param_dict.refused_within_limit");
                        }
                    }
                    Err(p) => out.violation(&req, &format!("panic: {}", p)),
                }
            }
        }
    }
}

fn msg_of(body: MarshalledMessageBody) -> MarshalledMessage {
    let mut m = MessageBuilder::new().call("m").on("/").build();
    m.body = body;
    m
}

fn opt(s: &Option<String>) -> String {
    match s {
        Some(s) => s.len().to_string(),
        None => "-".into(),
    }
}

/// the lengths the model is given
fn lens_of(m: &MarshalledMessage) -> String {
    format!(
        "{} {} {} {} {} {} {} {} {} {}",
        if m.dynheader.response_serial.is_some() { 1 } else { 0 },
        opt(&m.dynheader.interface),
        opt(&m.dynheader.destination),
        opt(&m.dynheader.sender),
        opt(&m.dynheader.member),
        opt(&m.dynheader.object),
        opt(&m.dynheader.error_name),
        if m.get_buf().is_empty() { "-".to_string() } else { m.get_sig().len().to_string() },
        m.get_buf().len(),
        if m.body.get_fds().is_empty() { 0 } else { 1 }
    )
}

/// independent frame arithmetic on emitted header bytes
fn check_emitted_header(out: &mut Out, req: &str, bo: ByteOrder, hdr: &[u8], body_len: usize) {
    if hdr.len() < 16 {
        out.violation(req, "accepted but fewer than 16 header bytes");
        return;
    }
    let f = rd32(bo, &hdr[12..16]) as usize;
    let b = rd32(bo, &hdr[4..8]) as usize;
    if f > ARR_MAX {
        out.violation(req, &format!("emitted a header field array of {} bytes (> 64 MiB)", f));
    }
    if hdr.len() + body_len > MSG_MAX {
        out.violation(req, &format!("emitted a message of {} bytes (> 128 MiB)", hdr.len() + body_len));
    }
    if b != body_len || (16 + f + 7) / 8 * 8 != hdr.len() {
        out.violation(req, &format!("header words (fields {}, body {}) do not describe the emitted {} + {} bytes", f, b, hdr.len(), body_len));
    }
}

fn marshal_case(out: &mut Out, m: &MarshalledMessage, tag: &str, hbuf: &mut Vec<u8>) {
    let bo = m.body.byteorder();
    let req = format!("c18.msg {}", lens_of(m));
    hbuf.clear();
    let r = guard(|| rustbus::wire::marshal::marshal(m, NonZeroU32::new(9).unwrap(), hbuf).map_err(|_| ()));
    out.hit(&format!("send.msg.{}.{}", tag, bo_name(bo)));
    match r {
        Ok(Ok(())) => {
            out.case(&req, &format!("ok {}", hbuf.len()), true);
            check_emitted_header(out, &req, bo, hbuf, m.get_buf().len());
        }
        Ok(Err(())) => out.case(&req, "refuse", true),
        Err(p) => {
            out.violation(&req, &format!("panic: {}", p));
            out.case(&req, "panic", true)
        }
    }
}

fn big_body(bo: ByteOrder, len: usize) -> MarshalledMessageBody {
    big_body_sig(bo, len, 2)
}

/// a body of `len` zero bytes under a signature of `sig_len` characters ("ay", "ayy", ... : a byte array and single
/// bytes; "y" alone for length 1). `marshal` looks at the length and the signature of the body only. The signature
/// is the last header field, so its length decides how much padding separates header and body.
fn big_body_sig(bo: ByteOrder, len: usize, sig_len: usize) -> MarshalledMessageBody {
    let sig = if len == 0 {
        String::new()
    } else if sig_len == 1 {
        "y".to_owned()
    } else {
        format!("ay{}", "y".repeat(sig_len - 2))
    };
    MarshalledMessageBody::from_parts(vec![0u8; len], 0, vec![], sig, bo)
}

fn run_send_messages(out: &mut Out, cfg: &Cfg) {
    let mut hbuf: Vec<u8> = Vec::new();
    // header of call("m").on("/") with signature "ay": 56 bytes (the model computes it from the lengths)
    let deltas: Vec<i64> = if cfg.thorough { vec![-64, -9, -8, -7, -1, 0, 1, 7, 8, 9, 64, 4096] } else { vec![-8, -1, 0, 1, 8] };
    for bo in ORDERS {
        for &d in &deltas {
            let len = (MSG_MAX as i64 - 56 + d) as usize;
            let mut m = MessageBuilder::with_byteorder(bo).call("m").on("/").build();
            m.body = big_body(bo, len);
            marshal_case(out, &m, &format!("total.{}", pos_name(56 + len, MSG_MAX)), &mut hbuf);
        }
        // every padding phase between header and body: the limit is on header + PADDING + body
        for sig_len in 1..=9usize {
            let mut m = MessageBuilder::with_byteorder(bo).call("m").on("/").build();
            m.body = big_body_sig(bo, 8, sig_len);
            let mut small = Vec::new();
            if rustbus::wire::marshal::marshal(&m, NonZeroU32::new(9).unwrap(), &mut small).is_err() {
                continue;
            }
            let padded_header = small.len();
            let ds: &[i64] = if cfg.thorough { &[-8, -7, -2, -1, 0, 1, 2, 3, 4, 5, 6, 7, 8] } else { &[-1, 0, 1, 4, 7] };
            for &d in ds {
                let len = (MSG_MAX as i64 - padded_header as i64 + d) as usize;
                m.body = big_body_sig(bo, len, sig_len);
                marshal_case(out, &m, &format!("total.pad_phase{}.{}", (8 - (6 + sig_len) % 8) % 8, pos_name(padded_header + len, MSG_MAX)), &mut hbuf);
            }
        }
        // with more header fields the same total is reached with a smaller body
        let mut m = MessageBuilder::with_byteorder(bo).call("member").on("/some/path").with_interface("some.iface").at("some.dest").build();
        m.dynheader.sender = Some(":1.5".into());
        for d in [-8i64, 0, 8] {
            // header: computed by the model; the engine only picks bodies around 128 MiB - 152
            let len = (MSG_MAX as i64 - 152 + d) as usize;
            m.body = big_body(bo, len);
            marshal_case(out, &m, "total.more_fields", &mut hbuf);
        }
    }
    // a header field that makes the field array exceed 64 MiB: object path, interface (both valid names)
    for bo in ORDERS {
        for plen in [ARR_MAX - 25 - 1, ARR_MAX - 25, ARR_MAX - 25 + 1, ARR_MAX - 25 + 8] {
            let mut path = String::with_capacity(plen);
            path.push('/');
            while path.len() < plen {
                path.push('a');
            }
            let mut m = MessageBuilder::with_byteorder(bo).call("m").on("/").build();
            m.dynheader.object = Some(path);
            marshal_case(out, &m, "fields.path", &mut hbuf);
        }
        if cfg.thorough {
            // names other than the object path are limited to 255 characters: a 64 MiB interface name is refused by
            // name validation whatever its length (outside the length-level model, which assumes valid names)
            for ilen in [ARR_MAX - 41, ARR_MAX - 25] {
                let mut s = String::with_capacity(ilen);
                s.push_str("a.b");
                while s.len() < ilen {
                    s.push('c');
                }
                let mut m = MessageBuilder::with_byteorder(bo).call("m").on("/").build();
                m.dynheader.interface = Some(s);
                hbuf.clear();
                let r = guard(|| rustbus::wire::marshal::marshal(&m, NonZeroU32::new(9).unwrap(), &mut hbuf).is_ok());
                out.hit("send.msg.fields.interface_64MiB");
                if r != Ok(false) {
                    out.violation("c18.msg <64 MiB interface name>", &format!("not refused: {:?}", r));
                }
            }
        }
    }
    drop(hbuf);

    // send_message on the real connection
    let (mut conn, mut server) = peer::connect_pair(false);
    let send_case = |out: &mut Out, conn: &mut DuplexConn, server: &mut std::os::unix::net::UnixStream, m: &MarshalledMessage, tag: &str| {
        let c0 = conn.send.alloc_serial().get() as u64 + 1; // the counter now
        let preset = match m.dynheader.serial { Some(s) => s.get().to_string(), None => "-".into() };
        let req = format!("c18.send {} {} {}", c0, preset, lens_of(m));
        let r = guard(|| match conn.send.send_message(m) {
            Ok(ctx) => {
                let s = ctx.serial().get();
                let t = ctx.bytes_total();
                ctx.force_finish();
                Ok((s, t))
            }
            Err(_) => Err(()),
        });
        let seen = peer::drain(server);
        let after = conn.send.alloc_serial().get() as u64; // value of the counter after the call
        out.hit(&format!("send.send_message.{}", tag));
        match r {
            Ok(Ok((s, t))) => {
                out.case(&req, &format!("started {} {} {}", s, after, t), true);
                if t > MSG_MAX {
                    out.violation(&req, &format!("send_message started a message of {} bytes", t));
                }
            }
            Ok(Err(())) => {
                out.case(&req, &format!("refused {}", after), true);
                if !seen.is_empty() {
                    out.violation(&req, &format!("a refused message put {} bytes on the wire", seen.len()));
                }
            }
            Err(p) => {
                out.violation(&req, &format!("panic: {}", p));
                out.case(&req, "panic", true)
            }
        }
        if !seen.is_empty() {
            out.violation(&req, &format!("{} bytes reached the peer although nothing was written", seen.len()));
        }
    };
    for bo in ORDERS {
        for d in [-8i64, 0, 1, 8] {
            let len = (MSG_MAX as i64 - 56 + d) as usize;
            let mut m = MessageBuilder::with_byteorder(bo).call("m").on("/").build();
            m.body = big_body(bo, len);
            send_case(out, &mut conn, &mut server, &m, if d <= 0 { "within" } else { "above" });
            m.dynheader.serial = NonZeroU32::new(4242);
            send_case(out, &mut conn, &mut server, &m, if d <= 0 { "within.preset" } else { "above.preset" });
        }
    }
    // a small message is really written
    {
        let mut m = MessageBuilder::new().call("m").on("/").build();
        m.body.push_param(&[1u8, 2, 3][..]).unwrap();
        let r = conn.send.send_message_write_all(&m);
        let seen = peer::drain(&mut server);
        if r.is_err() || seen.len() != 56 + 7 {
            out.violation("c18.small", &format!("a small message was not written completely: {:?} / {} bytes", r.is_ok(), seen.len()));
        }
        out.hit("send.send_message.small_written");
    }
}

// ---------------------------------------------------------------------------------------------------------

pub fn run(cfg: &Cfg) {
    let mut out = Out::new(&cfg.outdir);
    run_dec_lengths(&mut out, cfg);
    run_dec_legit(&mut out, cfg);
    run_dec_full(&mut out, cfg);
    run_dec_depth(&mut out, cfg);
    run_recv(&mut out, cfg);
    run_chunks(&mut out, cfg);
    run_send_arrays(&mut out, cfg);
    run_send_messages(&mut out, cfg);
    // send-side nesting limit of the Param API: towers of variants / v:a{sv} / (v) / av from inside the limit to beyond
    // it - refused beyond 64 levels with nothing left behind, and whatever is accepted validates and reads back
    {
        let mut r2 = Prng::new(cfg.seed ^ 0x18d);
        vcore::eng_wire::run_illformed_params(&mut out, &mut r2);
    }
    // last: a decoder that recursed per level would kill the process here
    run_dec_deep(&mut out, cfg);
    out.extra("recv_worst_single_alloc_per_mille_of_received_plus_64KiB", RECV_WORST.load(Relaxed).to_string());
    out.extra("decode_worst_peak_live_per_mille_of_input_plus_sig", DEC_WORST.load(Relaxed).to_string());
    out.extra("decode_worst_peak_live_bytes", DEC_WORST_ABS.load(Relaxed).to_string());
    out.finish(
        "RECEIVE: 16-byte headers (both byte orders) with (fields, body) length words on both sides of 64 MiB / 128 MiB \
         (incl. 2^31, 2^32-1, padding-sensitive totals) followed by 0/1/100/70000 bytes [thorough: +7/4096/200000], \
         invalid fixed headers announcing 2^32-1; calls read_once, bytes_needed, buffer_contains_whole_message, \
         get_next_message(Nonblock) on a real connection; direct: largest single allocation <= 2*(received+64KiB)+4096, \
         too-long announcements refused at the first call after 16 bytes; legit messages 200 KB..1 MiB [thorough: 20 MiB, \
         64 MiB] fed in chunks are received with the same bound per call. \
         DECODE: length words 3, 8, 2^26-4, 2^26, 2^26+1, 2^26+4, 2^31, 2^32-1 at top level (ay, at, as, a{sv}, a{yy}), in a \
         struct, in a variant, as inner and as outer array, followed by 0/3/8/100 bytes, through validate_marshalled, the \
         Param unmarshaller and every typed decoder of that signature; variant bombs of depth 1,2,63..66,1000, signature \
         nesting 31/32/33 arrays and structs, arrays-then-bomb totals 63..65 (incl. the typed Vec<Vec<Vec<Vec<Variant>>>>), dict-then-bomb 63..65 (typed HashMap<String, Variant>), the 64-level signature with and without a \
         variant inside; a 10^5 deep bomb on a 2 MiB stack; completely present ay / at arrays of 2^26-1, 2^26, 2^26+1 bytes (2^23-1..2^23+1 u64) through validate and the typed decoders, `as` with an element region of 2^26 / 2^26+4 through all decoders; direct: peak live allocation <= 176*(input+signature)+64KiB (a Param is 80 bytes, Vec growth doubles), <= 65 nodes \
         per input byte, no panic. \
         SEND: &[u8] of 2^26-1, 2^26, 2^26+1 bytes on its own / in a struct / in a variant / as dict value (dict region \
         12+n at 2^26-1..2^26+1), &[u64] fast path and element-wise path, Param-API arrays and dicts at the boundary; \
         marshal::marshal with header+padding+body at 128 MiB -8..+8 in every padding phase between header and body (body signatures of 1..9 characters) and with an object path / interface that makes the field \
         array 2^26-1..2^26+8; send_message on the real connection with and without preset serial; direct: no emitted \
         length word > 64 MiB, no emitted message > 128 MiB, a refused message puts no byte on the wire. \
         A case is distinct by its request line (entry point, byte order, signature, bytes / lengths).",
        false,
    );
}
