//! C17: connection setup. Three phases, in this order (the first two need a single-threaded process):
//!  1. uids: forked children `setresuid` to boundary uids and run the real `connect_to_bus` against the
//!     parent's scripted server, which records the AUTH line (`get_uid_as_hex` is private).
//!  2. addresses: `get_session_bus_path()` under a controlled DBUS_SESSION_BUS_ADDRESS for grammar
//!     generated addresses and single character mutations of them; independent oracle parser.
//!  3. handshakes: `DuplexConn::connect_to_bus` against an in-process abstract-socket listener and
//!     `auth::{do_auth, negotiate_unix_fds, send_begin}` on a `UnixStream::pair()`, the server side being a
//!     scripted thread (reply classes, chunkings, close after k bytes, reset, pipelining); watchdog.
use rustbus::auth;
use rustbus::connection::ll_conn::DuplexConn;
use rustbus::connection::{get_session_bus_path, get_system_bus_path, Error as ConnError, Timeout};
use rustbus::message_builder::MessageBuilder;
use std::io::{Read, Write};
use std::os::linux::net::SocketAddrExt;
use std::os::unix::ffi::OsStrExt;
use std::os::unix::io::AsRawFd;
use std::os::unix::net::{SocketAddr, UnixListener, UnixStream};
use std::sync::mpsc;
use std::time::{Duration, Instant};
use vcore::common::*;
use vcore::eng_wire::guard;
use vcore::peer;

const ENV: &str = "DBUS_SESSION_BUS_ADDRESS";

// ---------------------------------------------------------------------------------------------
// phase 1: uids
// ---------------------------------------------------------------------------------------------

fn expected_auth_line(uid: u32) -> Vec<u8> {
    // written from the property text: AUTH EXTERNAL + hex of the ASCII decimal uid, CRLF
    let mut v = b"AUTH EXTERNAL ".to_vec();
    for b in uid.to_string().bytes() {
        v.extend(format!("{:02x}", b).bytes());
    }
    v.extend(b"\r\n");
    v
}

fn accept_timeout(l: &UnixListener, ms: u64) -> Option<UnixStream> {
    l.set_nonblocking(true).ok()?;
    let t0 = Instant::now();
    loop {
        match l.accept() {
            Ok((s, _)) => {
                s.set_nonblocking(false).ok()?;
                return Some(s);
            }
            Err(_) => {
                if t0.elapsed() > Duration::from_millis(ms) {
                    return None;
                }
                std::thread::sleep(Duration::from_micros(200));
            }
        }
    }
}

/// returns (auth line seen by the server, child exit status) or a description of what went wrong
fn handshake_as_uid(uid: u32) -> Result<(Vec<u8>, i32), String> {
    let name = peer::fresh_abstract_name();
    let addr = SocketAddr::from_abstract_name(&name).unwrap();
    let listener = UnixListener::bind_addr(&addr).map_err(|e| format!("bind: {}", e))?;
    let pid = unsafe { libc::fork() };
    if pid < 0 {
        return Err("fork failed".into());
    }
    if pid == 0 {
        // child: single-threaded, only talks to the socket, leaves with _exit
        let code = unsafe {
            if libc::setresuid(uid, uid, uid) != 0 {
                libc::_exit(3);
            }
            if libc::getuid() != uid {
                libc::_exit(4);
            }
            let uaddr = nix::sys::socket::UnixAddr::new_abstract(&name).unwrap();
            match std::panic::catch_unwind(|| DuplexConn::connect_to_bus(uaddr, false)) {
                Ok(Ok(_)) => 0,
                Ok(Err(_)) => 1,
                Err(_) => 2,
            }
        };
        unsafe { libc::_exit(code) };
    }
    let res = (|| -> Result<Vec<u8>, String> {
        let mut s = accept_timeout(&listener, 2000).ok_or("child never connected")?;
        s.set_read_timeout(Some(Duration::from_millis(2000))).unwrap();
        let mut nul = [0u8; 1];
        s.read_exact(&mut nul).map_err(|e| format!("nul: {}", e))?;
        if nul[0] != 0 {
            return Err(format!("first byte {}", nul[0]));
        }
        let line = peer::read_line(&mut s).map_err(|e| format!("auth line: {}", e))?;
        s.write_all(b"OK 1234\r\n").map_err(|e| e.to_string())?;
        let b = peer::read_line(&mut s).map_err(|e| format!("begin: {}", e))?;
        if b != b"BEGIN\r\n" {
            return Err(format!("expected BEGIN, got {}", hex(&b)));
        }
        Ok(line)
    })();
    let mut status: i32 = 0;
    unsafe { libc::waitpid(pid, &mut status, 0) };
    let code = if libc::WIFEXITED(status) { libc::WEXITSTATUS(status) } else { 100 + libc::WTERMSIG(status) };
    res.map(|l| (l, code))
}

/// One client process that connects several times, changing its real uid in between (a service that drops privileges
/// and reconnects): every connection announces the uid the process has AT THAT MOMENT. The saved set-user-id stays 0 so
/// that the child may change again.
fn handshakes_changing_uid(uids: &[u32]) -> Result<(Vec<Vec<u8>>, i32), String> {
    let name = peer::fresh_abstract_name();
    let addr = SocketAddr::from_abstract_name(&name).unwrap();
    let listener = UnixListener::bind_addr(&addr).map_err(|e| format!("bind: {}", e))?;
    let pid = unsafe { libc::fork() };
    if pid < 0 {
        return Err("fork failed".into());
    }
    if pid == 0 {
        let mut code = 0;
        for uid in uids {
            unsafe {
                // back to root first (the saved set-user-id is 0), then to the next uid
                if libc::setresuid(0, 0, 0) != 0 || libc::setresuid(*uid, *uid, 0) != 0 || libc::getuid() != *uid {
                    libc::_exit(3);
                }
            }
            let uaddr = nix::sys::socket::UnixAddr::new_abstract(&name).unwrap();
            match std::panic::catch_unwind(|| DuplexConn::connect_to_bus(uaddr, false)) {
                Ok(Ok(_)) => {}
                Ok(Err(_)) => code = 1,
                Err(_) => code = 2,
            }
        }
        unsafe { libc::_exit(code) };
    }
    let res = (|| -> Result<Vec<Vec<u8>>, String> {
        let mut lines = Vec::new();
        for _ in uids {
            let mut s = accept_timeout(&listener, 2000).ok_or("child never connected")?;
            s.set_read_timeout(Some(Duration::from_millis(2000))).unwrap();
            let mut nul = [0u8; 1];
            s.read_exact(&mut nul).map_err(|e| format!("nul: {}", e))?;
            let line = peer::read_line(&mut s).map_err(|e| format!("auth line: {}", e))?;
            s.write_all(b"OK 1234\r\n").map_err(|e| e.to_string())?;
            let _ = peer::read_line(&mut s).map_err(|e| format!("begin: {}", e))?;
            lines.push(line);
        }
        Ok(lines)
    })();
    let mut status: i32 = 0;
    unsafe { libc::waitpid(pid, &mut status, 0) };
    let code = if libc::WIFEXITED(status) { libc::WEXITSTATUS(status) } else { 100 + libc::WTERMSIG(status) };
    res.map(|l| (l, code))
}

fn uid_phase(out: &mut Out, rng: &mut Prng, cfg: &Cfg) {
    let am_root = unsafe { libc::geteuid() } == 0;
    let mut uids: Vec<u32> = if am_root {
        vec![0, 9, 10, 99, 100, 1000, 65534, 0x7fff_ffff, 0xffff_fffe, 1, 19, 101, 999, 10000, 99999, 100000, 999_999_999, 1_000_000_000, 4_000_000_000, 4_294_967_290]
    } else {
        out.hit("uid_not_root_only_current_uid");
        vec![unsafe { libc::getuid() }]
    };
    if am_root {
        let n = if cfg.thorough { 300 } else { 30 };
        for _ in 0..n {
            // uniform over the number of digits
            let digits = rng.range(1, 10);
            let hi: u64 = 10u64.pow(digits as u32).min(0xffff_ffff) - 1;
            let lo: u64 = if digits == 1 { 0 } else { 10u64.pow(digits as u32 - 1) };
            uids.push(rng.range(lo, hi.max(lo)) as u32);
        }
    }
    for uid in uids {
        let req = format!("c17.uid {}", uid);
        match handshake_as_uid(uid) {
            Ok((line, code)) => {
                if line != expected_auth_line(uid) {
                    out.violation(&req, &format!("uid {} announced as {:?}", uid, String::from_utf8_lossy(&line)));
                }
                if code != 0 {
                    out.violation(&req, &format!("client child for uid {} ended with status {}", uid, code));
                }
                out.hit(&format!("uid_digits_{}", uid.to_string().len()));
                out.case(&req, &format!("auth={}", hex(&line)), true);
            }
            Err(e) => {
                out.violation(&req, &format!("handshake as uid {} did not complete: {}", uid, e));
                out.case(&req, "failed", true);
            }
        }
    }
    // a process that changes its uid between connections
    if am_root {
        for seq in [vec![0u32, 12345], vec![1000, 0, 1000], vec![7, 4_000_000_000], vec![99999, 100000, 9]] {
            let req = format!("c17.uidseq {}", seq.iter().map(|u| u.to_string()).collect::<Vec<_>>().join(","));
            match handshakes_changing_uid(&seq) {
                Ok((lines, code)) => {
                    for (u, l) in seq.iter().zip(lines.iter()) {
                        if *l != expected_auth_line(*u) {
                            out.violation(&req, &format!("a connection opened while the process had uid {} announced {:?}", u, String::from_utf8_lossy(l)));
                        }
                    }
                    if code != 0 {
                        out.violation(&req, &format!("client child ended with status {}", code));
                    }
                }
                Err(e) => out.violation(&req, &format!("handshakes did not complete: {}", e)),
            }
            out.hit("uid_changed_between_connections");
        }
    }
}

// ---------------------------------------------------------------------------------------------
// phase 2: addresses
// ---------------------------------------------------------------------------------------------

fn show_addr(r: Result<Result<nix::sys::socket::UnixAddr, ConnError>, String>) -> String {
    match r {
        Err(_) => "panic".into(),
        Ok(Ok(a)) => {
            if let Some(p) = a.path() {
                match p.to_str() {
                    Some(s) => format!("path {}", cps(s)),
                    None => "path ?".into(),
                }
            } else if let Some(n) = a.as_abstract() {
                match std::str::from_utf8(n) {
                    Ok(s) => format!("abstract {}", cps(s)),
                    Err(_) => "abstract ?".into(),
                }
            } else {
                "unnamed".into()
            }
        }
        Ok(Err(ConnError::NoAddressFound)) => "err:noaddr".into(),
        Ok(Err(ConnError::AddressTypeNotSupported(_))) => "err:unsupported".into(),
        Ok(Err(ConnError::PathDoesNotExist(p))) => format!("err:missing {}", cps(&p)),
        Ok(Err(ConnError::IoError(_))) => "err:io".into(),
        Ok(Err(_)) => "err:other".into(),
    }
}

fn exists(v: &str) -> bool {
    std::path::Path::new(v).exists()
}

/// independent parser written from the property text (index arithmetic, no split/split_once)
fn oracle(addr: &str) -> String {
    let c = match addr.find(':') {
        Some(c) => c,
        None => return "err:noaddr".into(),
    };
    if &addr[..c] != "unix" {
        return "err:unsupported".into();
    }
    let mut rest = &addr[c + 1..];
    loop {
        let (item, more) = match rest.find(',') {
            Some(i) => (&rest[..i], Some(&rest[i + 1..])),
            None => (rest, None),
        };
        let e = match item.find('=') {
            Some(e) => e,
            None => return "err:unsupported".into(),
        };
        let (k, v) = (&item[..e], &item[e + 1..]);
        if k == "path" {
            return if !exists(v) {
                format!("err:missing {}", cps(v))
            } else if v.len() >= 108 {
                "err:io".into()
            } else {
                format!("path {}", cps(v))
            };
        }
        if k == "abstract" {
            return if v.len() >= 108 { "err:io".into() } else { format!("abstract {}", cps(v)) };
        }
        match more {
            Some(m) => rest = m,
            None => return "err:unsupported".into(),
        }
    }
}

/// every value the parser could possibly ask the file system about: for each ','-piece of the text after
/// each ':' every suffix behind an '='. Those that exist are handed to the model as its `exists` input.
fn existing_values(addr: &str) -> Vec<String> {
    let mut found: Vec<String> = Vec::new();
    for (ci, ch) in addr.char_indices() {
        if ch != ':' {
            continue;
        }
        for piece in addr[ci + 1..].split(',') {
            for (ei, eq) in piece.char_indices() {
                if eq == '=' {
                    let v = &piece[ei + 1..];
                    if !v.is_empty() && exists(v) && !found.iter().any(|f| f == v) {
                        found.push(v.to_string());
                    }
                }
            }
        }
    }
    found
}

fn addr_case(out: &mut Out, addr: &str, tag: &str) {
    std::env::set_var(ENV, addr);
    let ex = existing_values(addr);
    let exs = if ex.is_empty() { "-".to_string() } else { ex.iter().map(|s| cps(s)).collect::<Vec<_>>().join(";") };
    let req = format!("c17.addr {} {}", cps(addr), exs);
    let r = guard(get_session_bus_path);
    if let Err(p) = &r {
        out.violation(&req, &format!("get_session_bus_path panicked on {:?}: {}", addr, p));
    }
    let obs = show_addr(r);
    let want = oracle(addr);
    if obs != want {
        out.violation(&req, &format!("address {:?} resolved to `{}`, the property says `{}`", addr, obs, want));
    }
    let kind = obs.split(' ').next().unwrap_or("").to_string();
    out.hit(&format!("addr_{}", kind));
    out.hit(tag);
    out.case(&req, &obs, true);
}

struct AddrGen {
    existing: Vec<String>,
    missing: Vec<String>,
}

impl AddrGen {
    fn new(outdir: &str) -> AddrGen {
        let base = std::fs::canonicalize(outdir).unwrap().join("fs");
        std::fs::create_dir_all(&base).unwrap();
        let b = base.to_str().unwrap().to_string();
        let mut existing = Vec::new();
        for name in ["a", "sock", "bus-\u{e4}\u{20ac}", "x=y", "c:d", "sp ace"] {
            let p = format!("{}/{}", b, name);
            std::fs::write(&p, b"").unwrap();
            existing.push(p);
        }
        // names whose full length is 106, 107, 108 and 130 bytes (UnixAddr::new accepts < 108)
        for total in [106usize, 107, 108, 130] {
            if b.len() + 2 < total {
                let p = format!("{}/{}", b, "L".repeat(total - b.len() - 1));
                std::fs::write(&p, b"").unwrap();
                existing.push(p);
            }
        }
        std::fs::create_dir_all(format!("{}/dir", b)).unwrap();
        existing.push(format!("{}/dir", b));
        existing.push(b.clone());
        existing.push("/".into());
        existing.push(".".into());
        existing.push("/tmp".into());
        let missing = vec![
            format!("{}/nope", b),
            format!("{}/a/x", b),
            "/nonexistent/dbus/socket".into(),
            "".into(),
            "relative/none".into(),
            format!("{}/{}", b, "M".repeat(120)),
        ];
        AddrGen { existing, missing }
    }

    fn word(&self, rng: &mut Prng) -> String {
        let alphabet: Vec<char> = "abcxyzPATH019-_/.\u{e9}\u{4e16}\u{1f600} ".chars().collect();
        let n = rng.range(0, 6);
        (0..n).map(|_| *rng.pick(&alphabet)).collect()
    }

    fn system(&self, rng: &mut Prng) -> String {
        match rng.below(20) {
            0..=11 => "unix".into(),
            12 => "tcp".into(),
            13 => "launchd".into(),
            14 => (*rng.pick(&["unixexec", "nonce-tcp", "autolaunch", "Unix", "UNIX", "unix ", " unix", "uni", "unixx", "", "path"])).into(),
            15 => format!("{}unix", self.word(rng)),
            _ => self.word(rng),
        }
    }

    fn pair(&self, rng: &mut Prng) -> String {
        let key: String = match rng.below(16) {
            0..=3 => "path".into(),
            4..=6 => "abstract".into(),
            7..=8 => "guid".into(),
            9 => "runtime".into(),
            10 => (*rng.pick(&["dir", "tmpdir", "host", "port", "family", "env"])).into(),
            11 => (*rng.pick(&["", "Path", "PATH", "path ", " path", "pat", "paths", "Abstract", "abstrac", "abstract "])).into(),
            _ => self.word(rng),
        };
        let value: String = match key.as_str() {
            "path" => match rng.below(10) {
                0..=4 => rng.pick(&self.existing).clone(),
                5..=7 => rng.pick(&self.missing).clone(),
                _ => self.word(rng),
            },
            "abstract" => match rng.below(10) {
                0..=3 => format!("/tmp/dbus-{}", self.word(rng)),
                4 => "".into(),
                5 => "n".repeat(*rng.pick(&[106usize, 107, 108, 109, 200])),
                6 => "\u{e9}".repeat(*rng.pick(&[53usize, 54, 55])),
                7 => rng.pick(&self.existing).clone(),
                _ => self.word(rng),
            },
            "guid" => format!("{:032x}", (rng.next() as u128) << 64 | rng.next() as u128),
            "runtime" => "yes".into(),
            _ => match rng.below(6) {
                0 => "".into(),
                1 => "a=b".into(),
                2 => rng.pick(&self.existing).clone(),
                _ => self.word(rng),
            },
        };
        if rng.chance(1, 14) {
            // no '=' at all
            if rng.chance(1, 2) { key } else { format!("{}{}", key, value.replace('=', "")) }
        } else {
            format!("{}={}", key, value)
        }
    }

    fn address(&self, rng: &mut Prng) -> String {
        let sys = self.system(rng);
        let n = match rng.below(12) {
            0 => 0,
            1..=4 => 1,
            5..=7 => 2,
            8..=9 => 3,
            _ => rng.range(4, 7),
        };
        let mut pairs: Vec<String> = (0..n).map(|_| self.pair(rng)).collect();
        if rng.chance(1, 12) {
            let at = rng.below(pairs.len() as u64 + 1) as usize;
            pairs.insert(at, "".into()); // leading / trailing / doubled comma
        }
        let body = pairs.join(",");
        if rng.chance(1, 25) {
            format!("{}{}", sys, body) // no ':'
        } else if rng.chance(1, 20) {
            format!("{}:{};tcp:host=localhost,port=1", sys, body) // a second address after ';'
        } else {
            format!("{}:{}", sys, body)
        }
    }

    fn mutate(&self, rng: &mut Prng, a: &str) -> String {
        let mut cs: Vec<char> = a.chars().collect();
        let ins: Vec<char> = ":,=;pux /\u{e9}%\\\"'~$&?#@+*!^`|<>()[]{}\t\n\r.-_0A".chars().collect();
        match rng.below(3) {
            0 if !cs.is_empty() => {
                let i = rng.below(cs.len() as u64) as usize;
                cs.remove(i);
            }
            1 if !cs.is_empty() => {
                let i = rng.below(cs.len() as u64) as usize;
                cs[i] = *rng.pick(&ins);
            }
            _ => {
                let i = rng.below(cs.len() as u64 + 1) as usize;
                cs.insert(i, *rng.pick(&ins));
            }
        }
        cs.into_iter().collect()
    }
}

fn addr_phase(out: &mut Out, rng: &mut Prng, cfg: &Cfg) {
    let g = AddrGen::new(&cfg.outdir);
    // unset / not unicode
    std::env::remove_var(ENV);
    let r = guard(get_session_bus_path);
    let obs = show_addr(r);
    if obs != "err:noaddr" {
        out.violation("c17.addr ~ -", &format!("unset variable gave `{}`", obs));
    }
    out.case("c17.addr ~ -", &obs, true);
    std::env::set_var(ENV, std::ffi::OsStr::from_bytes(b"unix:path=/\xff"));
    let obs = show_addr(guard(get_session_bus_path));
    if obs != "err:noaddr" {
        out.violation("c17.addr ~ -", &format!("non-unicode variable gave `{}`", obs));
    }
    out.case("c17.addr ~ -", &obs, true);
    // the strings of the library's own test and a few fixed ones
    let mut fixed: Vec<String> = vec![
        "unix:path=/tmp/dbus-test-not-exist".into(),
        "unix:path=/tmp/dbus-test-not-exist,guid=aaaaa,test=bbbbbbbb".into(),
        "unix:abstract=/tmp/dbus-test".into(),
        "unix:abstract=/tmp/dbus-test,guid=aaaaaaaa,test=bbbbbbbb".into(),
        "".into(),
        ":".into(),
        "unix".into(),
        "unix:".into(),
        "unix:,".into(),
        "unix:=".into(),
        "unix:path".into(),
        "unix:path=".into(),
        "unix:abstract=".into(),
        "unix:guid=1,path".into(),
        "tcp:host=localhost,port=4".into(),
        "unix:unix:path=/".into(),
        "tcp:unix:path=/".into(),
    ];
    for e in &g.existing {
        fixed.push(format!("unix:path={}", e));
        fixed.push(format!("unix:guid=00ff,path={},abstract=zz", e));
        fixed.push(format!("unix:abstract=zz,path={}", e));
        fixed.push(format!("unix:runtime=yes,other=1,path={},path=/nonexistent", e));
        fixed.push(format!("unix:path=/nonexistent/q,path={}", e));
        fixed.push(format!("unix:novalue,path={}", e));
        fixed.push(format!("unix:path={},novalue", e));
    }
    for a in &fixed {
        addr_case(out, a, "addr_fixed");
    }
    // every ASCII character (NUL cannot be in the environment) alone, followed by one and by two more characters, at the
    // end / the start / the middle of a value and inside a key: whatever special meaning a parser may give to a character
    // (escapes, quotes, separators), the address is taken literally or refused - never a panic
    {
        let e0 = g.existing[0].clone();
        for c in 1u8..=0x7f {
            let c = c as char;
            for tail in ["", "4", "41", "g", "zz", "%", "\u{e9}"] {
                let x = format!("{}{}", c, tail);
                for a in [
                    format!("unix:abstract=/tmp/x{}", x),
                    format!("unix:abstract={}/tmp/x", x),
                    format!("unix:abstract=/tmp/{}x,guid=00ff", x),
                    format!("unix:path={}{}", e0, x),
                    format!("unix:path={}{},guid=00ff", e0, x),
                    format!("unix:path={}{}", x, e0),
                    format!("unix:pa{}th={}", x, e0),
                    format!("unix:guid=0{}0,path={}", x, e0),
                    format!("un{}ix:path={}", x, e0),
                ] {
                    addr_case(out, &a, "addr_every_char");
                }
            }
        }
    }
    let n = if cfg.thorough { 30000 } else { 3000 };
    for _ in 0..n {
        let a = g.address(rng);
        addr_case(out, &a, "addr_grammar");
        for _ in 0..3 {
            let m = g.mutate(rng, &a);
            addr_case(out, &m, "addr_mutated");
        }
    }
    std::env::remove_var(ENV);
    // system bus: fixed path
    let ex = exists("/run/dbus/system_bus_socket");
    let obs = show_addr(guard(get_system_bus_path));
    let req = format!("c17.sys {}", if ex { 1 } else { 0 });
    let want = if ex { format!("path {}", cps("/run/dbus/system_bus_socket")) } else { format!("err:missing {}", cps("/run/dbus/system_bus_socket")) };
    if obs != want {
        out.violation(&req, &format!("system bus path gave `{}`", obs));
    }
    out.case(&req, &obs, true);
}

// ---------------------------------------------------------------------------------------------
// phase 3: handshakes
// ---------------------------------------------------------------------------------------------

#[derive(Clone, Copy, PartialEq, Debug)]
enum Then {
    /// go on with the next step
    Continue,
    /// close the socket after the chunks (only used when the chunks hold no complete line)
    Close,
    /// do not read the client's line, send the chunks and close with the line still unread: the client's
    /// read fails with ECONNRESET (a read error event)
    Reset,
    /// send the chunks, then shut down the READING side and keep the socket open for a while: the client's next WRITE
    /// fails (EPIPE) while nothing it could read tells it so
    ShutRead,
}

#[derive(Clone, Debug)]
struct Rep {
    chunks: Vec<Vec<u8>>,
    then: Then,
}

fn rep(chunks: Vec<Vec<u8>>) -> Rep {
    let all: Vec<u8> = chunks.concat();
    let then = if find_crlf(&all).is_some() { Then::Continue } else { Then::Close };
    Rep { chunks, then }
}

fn find_crlf(b: &[u8]) -> Option<usize> {
    b.windows(2).position(|w| w == b"\r\n")
}

/// model events for a server script: the chunks as written (pieces of at most 512 bytes, what one read
/// can return), `x` for a reset, and `e` for the close at the end
fn events(reps: &[Rep]) -> String {
    let mut ev: Vec<String> = Vec::new();
    let mut ended = false;
    for r in reps {
        for c in &r.chunks {
            for piece in c.chunks(512) {
                ev.push(format!("c{}", hex(piece)));
            }
        }
        match r.then {
            Then::Continue => {}
            Then::Close => {
                ev.push("e".into());
                ended = true;
                break;
            }
            Then::Reset => {
                ev.push("x".into());
                ended = true;
                break;
            }
            Then::ShutRead => {
                // the client's next write fails (see `write_failures`); what the socket would deliver afterwards is never read
                ev.push("e".into());
                ended = true;
                break;
            }
        }
    }
    if !ended {
        ev.push("e".into());
    }
    ev.join(",")
}

/// the gap the scripted server leaves between two pieces of a reply (µs); raised for the slow-server scenarios
static GAP_US: std::sync::atomic::AtomicU64 = std::sync::atomic::AtomicU64::new(700);
fn pause() {
    std::thread::sleep(Duration::from_micros(GAP_US.load(std::sync::atomic::Ordering::SeqCst)));
}

fn read_line_partial(s: &mut UnixStream) -> Result<Vec<u8>, Vec<u8>> {
    let mut line = Vec::new();
    let mut b = [0u8; 1];
    loop {
        match s.read(&mut b) {
            Ok(1) => {
                line.push(b[0]);
                if line.ends_with(b"\r\n") {
                    return Ok(line);
                }
                if line.len() > 4096 {
                    return Err(line);
                }
            }
            _ => return Err(line),
        }
    }
}

fn peek_line(s: &UnixStream) -> Option<Vec<u8>> {
    let t0 = Instant::now();
    let mut buf = [0u8; 1024];
    loop {
        let n = unsafe { libc::recv(s.as_raw_fd(), buf.as_mut_ptr() as *mut libc::c_void, buf.len(), libc::MSG_PEEK | libc::MSG_DONTWAIT) };
        if n > 0 {
            if let Some(i) = find_crlf(&buf[..n as usize]) {
                return Some(buf[..i + 2].to_vec());
            }
        } else if n == 0 {
            return None;
        }
        if t0.elapsed() > Duration::from_millis(1500) {
            return None;
        }
        std::thread::sleep(Duration::from_micros(200));
    }
}

/// the scripted server. `expect_nul`: the first step is the auth step. Returns everything received.
fn serve(mut s: UnixStream, reps: Vec<Rep>, expect_nul: bool, tail: bool, post_begin: Vec<u8>) -> Vec<u8> {
    s.set_read_timeout(Some(Duration::from_millis(1500))).unwrap();
    let mut trace = Vec::new();
    if expect_nul {
        let mut b = [0u8; 1];
        match s.read(&mut b) {
            Ok(1) => trace.push(b[0]),
            _ => return trace,
        }
    }
    for r in &reps {
        if r.then == Then::Reset {
            match peek_line(&s) {
                Some(l) => trace.extend(l),
                None => return trace,
            }
        } else {
            match read_line_partial(&mut s) {
                Ok(l) => trace.extend(l),
                Err(p) => {
                    trace.extend(p);
                    return trace;
                }
            }
        }
        if r.then == Then::ShutRead {
            // the reading side goes down BEFORE the reply that makes the client write again is sent
            let _ = s.shutdown(std::net::Shutdown::Read);
        }
        for c in &r.chunks {
            if s.write_all(c).is_err() {
                return trace;
            }
            let _ = s.flush();
            pause();
        }
        if r.then == Then::ShutRead {
            std::thread::sleep(Duration::from_millis(60));
            drop(s);
            return trace;
        }
        if r.then != Then::Continue {
            drop(s);
            return trace;
        }
    }
    if !tail {
        return trace;
    }
    match read_line_partial(&mut s) {
        Ok(l) => {
            let is_begin = l == b"BEGIN\r\n";
            trace.extend(l);
            if is_begin {
                let _ = s.write_all(&post_begin);
                let mut rest = Vec::new();
                let _ = s.read_to_end(&mut rest);
                trace.extend(rest);
            }
        }
        Err(p) => trace.extend(p),
    }
    trace
}

fn io_kind(e: &std::io::Error) -> &'static str {
    match e.kind() {
        std::io::ErrorKind::UnexpectedEof => "io:eof",
        std::io::ErrorKind::InvalidData => "io:invalid",
        _ => "io:other",
    }
}

fn post_begin_message() -> Vec<u8> {
    let mut msg = MessageBuilder::new().signal("io.verif.C17", "AfterBegin", "/io/verif").build();
    msg.body.push_param(0x1122334455667788u64).unwrap();
    msg.body.push_param("nothing was consumed").unwrap();
    let mut bytes = Vec::new();
    rustbus::wire::marshal::marshal(&msg, std::num::NonZeroU32::new(77).unwrap(), &mut bytes).unwrap();
    bytes.extend_from_slice(msg.get_buf());
    bytes
}

struct Hs<'a> {
    out: &'a mut Out,
    uid: u32,
    hangs: u32,
    post: Vec<u8>,
    /// ONE client thread performs all connects, one after the other (state the library keeps per thread or per process
    /// between connections stays in play); it is replaced only after a connect that never returned
    client: Option<ClientWorker>,
}

struct ClientWorker {
    jobs: mpsc::Sender<(Vec<u8>, bool)>,
    results: mpsc::Receiver<(String, Option<String>, Duration)>,
}

fn spawn_client_worker() -> ClientWorker {
    let (jtx, jrx) = mpsc::channel::<(Vec<u8>, bool)>();
    let (rtx, rrx) = mpsc::channel::<(String, Option<String>, Duration)>();
    std::thread::spawn(move || {
        while let Ok((name2, with_fd)) = jrx.recv() {
            let t0 = Instant::now();
            let uaddr = nix::sys::socket::UnixAddr::new_abstract(&name2).unwrap();
            let r = guard(|| DuplexConn::connect_to_bus(uaddr, with_fd));
            let el = t0.elapsed();
            let (res, msg) = match r {
                Err(p) => (format!("panic:{}", p), None),
                Ok(Ok(mut conn)) => {
                    // nothing of what follows BEGIN may have been consumed by the handshake
                    let slack = Duration::from_micros(2 * GAP_US.load(std::sync::atomic::Ordering::SeqCst));
                    let m = guard(|| conn.recv.get_next_message(Timeout::Duration(Duration::from_millis(1500) + slack)));
                    let verdict = match m {
                        Ok(Ok(m)) => {
                            let mut p = m.body.parser();
                            let a = p.get::<u64>().ok();
                            let b = p.get::<&str>().ok().map(|s| s.to_string());
                            if m.dynheader.member.as_deref() == Some("AfterBegin")
                                && m.dynheader.serial.map(|s| s.get()) == Some(77)
                                && a == Some(0x1122334455667788)
                                && b.as_deref() == Some("nothing was consumed")
                            {
                                "intact".to_string()
                            } else {
                                format!("damaged: member {:?} params {:?} {:?}", m.dynheader.member, a, b)
                            }
                        }
                        Ok(Err(e)) => format!("not received: {:?}", e),
                        Err(p) => format!("panic: {}", p),
                    };
                    ("ok".to_string(), Some(verdict))
                }
                Ok(Err(ConnError::AuthFailed)) => ("authfailed".into(), None),
                Ok(Err(ConnError::UnixFdNegotiationFailed)) => ("fdfailed".into(), None),
                Ok(Err(ConnError::IoError(e))) => (io_kind(&e).into(), None),
                Ok(Err(_)) => ("err:other".into(), None),
            };
            if rtx.send((res, msg, el)).is_err() {
                break;
            }
        }
    });
    ClientWorker { jobs: jtx, results: rrx }
}

impl<'a> Hs<'a> {
    fn give_up(&self) -> bool {
        self.hangs >= 3
    }

    /// the property evaluated on what the server saw; `accepted[i]`: reply i (its first line) starts with
    /// the keyword of step i. `steps` = the client lines expected in order.
    fn direct(&mut self, req: &str, trace: &[u8], nul: bool, steps: &[Vec<u8>], first_lines: &[Option<Vec<u8>>], keywords: &[&[u8]], res: &str, success: &str) {
        let mut body = trace;
        if nul {
            if trace.is_empty() {
                if res == success {
                    self.out.violation(req, "success although nothing was sent");
                }
                return;
            }
            if trace[0] != 0 {
                self.out.violation(req, &format!("first byte is {:#x}, not NUL", trace[0]));
                return;
            }
            body = &trace[1..];
        }
        // CRLF-terminated lines
        let mut lines: Vec<Vec<u8>> = Vec::new();
        let mut cur = body;
        while !cur.is_empty() {
            match find_crlf(cur) {
                Some(i) => {
                    lines.push(cur[..i + 2].to_vec());
                    cur = &cur[i + 2..];
                }
                None => {
                    self.out.violation(req, &format!("client sent an unterminated line {:?}", String::from_utf8_lossy(cur)));
                    return;
                }
            }
        }
        if lines.len() > steps.len() || lines.iter().zip(steps.iter()).any(|(a, b)| a != b) {
            self.out.violation(
                req,
                &format!(
                    "client lines {:?} are not a prefix of the protocol {:?}",
                    lines.iter().map(|l| String::from_utf8_lossy(l).to_string()).collect::<Vec<_>>(),
                    steps.iter().map(|l| String::from_utf8_lossy(l).to_string()).collect::<Vec<_>>()
                ),
            );
            return;
        }
        // line i+1 may only be sent after reply i was accepted
        for i in 1..lines.len() {
            let ok = match &first_lines.get(i - 1) {
                Some(Some(l)) => l.starts_with(keywords[i - 1]) && std::str::from_utf8(l).is_ok(),
                _ => false,
            };
            if !ok {
                self.out.violation(
                    req,
                    &format!("{:?} was sent although the reply to the previous command was not accepted", String::from_utf8_lossy(&lines[i])),
                );
            }
        }
        if res == success {
            let all_ok = (0..keywords.len()).all(|i| matches!(&first_lines.get(i), Some(Some(l)) if l.starts_with(keywords[i]) && std::str::from_utf8(l).is_ok()));
            if !all_ok {
                self.out.violation(req, "success reported without OK / AGREE_UNIX_FD");
            }
            if lines.len() != steps.len() {
                self.out.violation(req, "success reported but not every command was sent");
            }
        } else if steps.last().map(|b| b.as_slice()) == Some(b"BEGIN\r\n".as_slice()) && lines.iter().any(|l| l == b"BEGIN\r\n") {
            self.out.violation(req, &format!("BEGIN was sent although the result is {}", res));
        }
    }

    /// `DuplexConn::connect_to_bus` against a listener served by `reps`
    fn connect(&mut self, reps: Vec<Rep>, with_fd: bool, tag: &str, exact: bool) {
        if self.give_up() {
            return;
        }
        // the server plays exactly the steps this configuration has (then waits for BEGIN)
        let reps: Vec<Rep> = reps.into_iter().take(if with_fd { 2 } else { 1 }).collect();
        // the write attempts are numbered NUL = 0, AUTH = 1, then NEGOTIATE_UNIX_FD / BEGIN: the one after a ShutRead step fails
        let wf = match reps.iter().position(|r| r.then == Then::ShutRead) {
            Some(i) => (i + 2).to_string(),
            None => "-".to_string(),
        };
        let req = format!("c17.conn {} {} {} {}", self.uid, if with_fd { 1 } else { 0 }, wf, events(&reps));
        let name = peer::fresh_abstract_name();
        let addr = SocketAddr::from_abstract_name(&name).unwrap();
        let listener = UnixListener::bind_addr(&addr).unwrap();
        let post = self.post.clone();
        let reps2 = reps.clone();
        let srv = std::thread::spawn(move || match accept_timeout(&listener, 2000) {
            Some(s) => serve(s, reps2, true, true, post),
            None => Vec::new(),
        });
        if self.client.is_none() {
            self.client = Some(spawn_client_worker());
        }
        let _ = self.client.as_ref().unwrap().jobs.send((name.clone(), with_fd));
        let pieces: u64 = reps.iter().map(|r| r.chunks.len() as u64).sum();
        let got = self.client.as_ref().unwrap().results.recv_timeout(Duration::from_millis(4500) + Duration::from_micros((3 * pieces + 3) * GAP_US.load(std::sync::atomic::Ordering::SeqCst)));
        if got.is_err() {
            // the connect never returned: that thread is lost; the next connect gets a new one
            self.client = None;
        }
        let trace = srv.join().unwrap_or_default();
        let hexuid: String = self.uid.to_string().bytes().map(|b| format!("{:02x}", b)).collect();
        let mut steps: Vec<Vec<u8>> = vec![format!("AUTH EXTERNAL {}\r\n", hexuid).into_bytes()];
        let mut keywords: Vec<&[u8]> = vec![b"OK"];
        if with_fd {
            steps.push(b"NEGOTIATE_UNIX_FD\r\n".to_vec());
            keywords.push(b"AGREE_UNIX_FD");
        }
        steps.push(b"BEGIN\r\n".to_vec());
        let res = match got {
            Ok((res, msg, el)) => {
                // bounded time AFTER the server's last piece: the scripted gaps between the pieces are the server's
                let allowed = Duration::from_millis(2000) + Duration::from_micros((pieces + 1) * GAP_US.load(std::sync::atomic::Ordering::SeqCst));
                if el > allowed {
                    self.out.violation(&req, &format!("connect_to_bus took {:?}", el));
                }
                if res.starts_with("panic") {
                    self.out.violation(&req, &format!("connect_to_bus panicked: {}", res));
                }
                if let Some(v) = msg {
                    if v != "intact" {
                        self.out.violation(&req, &format!("message sent right after BEGIN: {}", v));
                    } else {
                        self.out.hit("message_after_begin_intact");
                    }
                }
                res
            }
            Err(_) => {
                self.hangs += 1;
                self.out.violation(&req, "connect_to_bus did not return within 2.5 s although the server closed or answered (hang)");
                "hang".to_string()
            }
        };
        if exact {
            let first_lines = first_lines_of(&reps);
            self.direct(&req, &trace, true, &steps, &first_lines, &keywords, &res, "ok");
        } else {
            // pipelined / loosely compared scripts: only the unconditional parts
            let fl: Vec<Option<Vec<u8>>> = pipelined_lines(&reps);
            self.direct(&req, &trace, true, &steps, &fl, &keywords, &res, "ok");
        }
        self.out.hit(tag);
        self.out.hit(&format!("conn_{}", res.split(':').next().unwrap_or("")));
        let r = if res.starts_with("panic") { "panic".to_string() } else { res };
        self.out.case(&req, &format!("res={} trace={}", r, hex(&trace)), true);
    }

    /// one step function on a `UnixStream::pair()`; `which`: 0 = do_auth, 1 = negotiate_unix_fds
    fn step(&mut self, which: u8, r: Option<Rep>, tag: &str) {
        if self.give_up() {
            return;
        }
        // `None`: the peer is already closed when the client starts (its first write fails)
        let (mut client, server) = UnixStream::pair().unwrap();
        let (req, reps) = match &r {
            Some(r) => {
                let ev = events(std::slice::from_ref(r));
                (if which == 0 { format!("c17.auth {} - {}", self.uid, ev) } else { format!("c17.neg - {}", ev) }, vec![r.clone()])
            }
            None => (if which == 0 { format!("c17.auth {} 0 -", self.uid) } else { "c17.neg 0 -".to_string() }, vec![]),
        };
        let closed = r.is_none();
        let reps2 = reps.clone();
        let srv = std::thread::spawn(move || {
            if closed {
                drop(server);
                Vec::new()
            } else {
                serve(server, reps2, which == 0, false, Vec::new())
            }
        });
        let mut srv = Some(srv);
        let mut pre_trace = None;
        if closed {
            pre_trace = Some(srv.take().unwrap().join().unwrap_or_default());
        }
        let (tx, rx) = mpsc::channel::<(String, Duration, UnixStream)>();
        std::thread::spawn(move || {
            let t0 = Instant::now();
            let r = guard(|| if which == 0 { auth::do_auth(&mut client) } else { auth::negotiate_unix_fds(&mut client) });
            let res = match r {
                Err(p) => format!("panic:{}", p),
                Ok(Ok(auth::AuthResult::Ok)) => "ok".into(),
                Ok(Ok(auth::AuthResult::Rejected)) => "rejected".into(),
                Ok(Err(e)) => io_kind(&e).into(),
            };
            let _ = tx.send((res, t0.elapsed(), client));
        });
        let got = rx.recv_timeout(Duration::from_millis(2500));
        // keep the client end open until the server is done (it reads what the client wrote)
        let trace = match pre_trace {
            Some(t) => t,
            None => srv.take().unwrap().join().unwrap_or_default(),
        };
        let hexuid: String = self.uid.to_string().bytes().map(|b| format!("{:02x}", b)).collect();
        let steps: Vec<Vec<u8>> = if which == 0 { vec![format!("AUTH EXTERNAL {}\r\n", hexuid).into_bytes()] } else { vec![b"NEGOTIATE_UNIX_FD\r\n".to_vec()] };
        let keywords: Vec<&[u8]> = if which == 0 { vec![b"OK"] } else { vec![b"AGREE_UNIX_FD"] };
        let res = match got {
            Ok((res, el, _client)) => {
                if el > Duration::from_millis(2000) {
                    self.out.violation(&req, &format!("step took {:?}", el));
                }
                if res.starts_with("panic") {
                    self.out.violation(&req, &format!("step panicked: {}", res));
                }
                res
            }
            Err(_) => {
                self.hangs += 1;
                self.out.violation(&req, "the step function did not return within 2.5 s although the server closed or answered (hang)");
                "hang".into()
            }
        };
        if !closed {
            let fl = first_lines_of(&reps);
            self.direct(&req, &trace, which == 0, &steps, &fl, &keywords, &res, "ok");
            // a rejection must be reported as such (not as success, not as an io error)
            if let Some(Some(l)) = fl.first() {
                let want = if std::str::from_utf8(l).is_err() { "io:invalid" } else if l.starts_with(keywords[0]) { "ok" } else { "rejected" };
                if res != want {
                    self.out.violation(&req, &format!("reply line {:?} gave {}, expected {}", String::from_utf8_lossy(l), res, want));
                }
            }
        } else if res != "io:other" {
            self.out.violation(&req, &format!("writing to a closed peer gave {}", res));
        }
        self.out.hit(tag);
        self.out.hit(&format!("step{}_{}", which, res.split(':').next().unwrap_or("")));
        let r = if res.starts_with("panic") { "panic".to_string() } else { res };
        self.out.case(&req, &format!("res={} trace={}", r, hex(&trace)), true);
    }

    fn begin(&mut self, peer_open: bool) {
        let (mut client, mut server) = UnixStream::pair().unwrap();
        let req = if peer_open { "c17.begin -".to_string() } else { "c17.begin 0".to_string() };
        let mut trace = Vec::new();
        if !peer_open {
            drop(server);
            let r = guard(|| auth::send_begin(&mut client));
            let res = match r {
                Err(_) => "panic",
                Ok(Ok(())) => "ok",
                Ok(Err(_)) => "io:other",
            };
            if res != "io:other" {
                self.out.violation(&req, &format!("send_begin to a closed peer gave {}", res));
            }
            self.out.case(&req, &format!("res={} trace=-", res), true);
        } else {
            let r = guard(|| auth::send_begin(&mut client));
            drop(client);
            let _ = server.read_to_end(&mut trace);
            let res = match r {
                Err(_) => "panic",
                Ok(Ok(())) => "ok",
                Ok(Err(_)) => "io:other",
            };
            if res != "ok" || trace != b"BEGIN\r\n" {
                self.out.violation(&req, &format!("send_begin gave {} and the peer received {:?}", res, String::from_utf8_lossy(&trace)));
            }
            self.out.case(&req, &format!("res={} trace={}", res, hex(&trace)), true);
        }
        self.out.hit("begin");
    }
}

/// for scripts in the exact class: the line the client gets for reply i = the bytes of reply i up to its first CRLF
fn first_lines_of(reps: &[Rep]) -> Vec<Option<Vec<u8>>> {
    reps.iter()
        .map(|r| {
            let all = r.chunks.concat();
            find_crlf(&all).map(|i| all[..i].to_vec())
        })
        .collect()
}

/// for pipelined scripts the client only ever sees the first line of each reply write as well
fn pipelined_lines(reps: &[Rep]) -> Vec<Option<Vec<u8>>> {
    first_lines_of(reps)
}

fn split_at_points(b: &[u8], points: &[usize]) -> Vec<Vec<u8>> {
    let mut out = Vec::new();
    let mut last = 0;
    for &p in points {
        if p > last && p < b.len() {
            out.push(b[last..p].to_vec());
            last = p;
        }
    }
    out.push(b[last..].to_vec());
    out.retain(|c| !c.is_empty());
    out
}

fn random_chunking(rng: &mut Prng, b: &[u8]) -> Vec<Vec<u8>> {
    if b.len() < 2 {
        return vec![b.to_vec()];
    }
    let mode = rng.below(4);
    let mut points: Vec<usize> = Vec::new();
    match mode {
        0 => {}
        1 => points.push(rng.range(1, b.len() as u64 - 1) as usize),
        2 => {
            // split inside / around the CRLF
            if let Some(i) = find_crlf(b) {
                for p in [i, i + 1] {
                    if rng.chance(1, 2) {
                        points.push(p);
                    }
                }
            }
        }
        _ => {
            let k = rng.range(1, 6.min(b.len() as u64 - 1));
            for _ in 0..k {
                points.push(rng.range(1, b.len() as u64 - 1) as usize);
            }
            points.sort();
            points.dedup();
        }
    }
    split_at_points(b, &points)
}

fn line(s: &[u8]) -> Vec<u8> {
    let mut v = s.to_vec();
    v.extend(b"\r\n");
    v
}

fn classes1() -> Vec<(&'static str, Vec<u8>)> {
    let mut v: Vec<(&'static str, Vec<u8>)> = vec![
        ("ok", b"OK".to_vec()),
        ("ok_guid", b"OK 1234deadbeef00112233445566778899".to_vec()),
        ("okay", b"OKAY".to_vec()),
        ("ok_tab", b"OK\tx".to_vec()),
        ("ok_lower", b"ok 1234".to_vec()),
        ("ok_space_before", b" OK 1234".to_vec()),
        ("o", b"O".to_vec()),
        ("ko", b"KO".to_vec()),
        ("empty", b"".to_vec()),
        ("rejected", b"REJECTED EXTERNAL DBUS_COOKIE_SHA1 ANONYMOUS".to_vec()),
        ("rejected_bare", b"REJECTED".to_vec()),
        ("error", b"ERROR".to_vec()),
        ("error_msg", b"ERROR \"unknown command\"".to_vec()),
        ("data", b"DATA 3031".to_vec()),
        ("agree_instead", b"AGREE_UNIX_FD".to_vec()),
        ("garbage", b"\x01\x02~}{ lorem ipsum \x7f".to_vec()),
        ("ok_lone_cr", b"OK\rabc".to_vec()),
        ("ok_lone_lf", b"OK\nabc".to_vec()),
        ("lf_only_then_ok", b"REJECTED\nOK".to_vec()),
        ("ok_trailing_cr", b"OK 12\r".to_vec()),
        ("non_utf8_ff", b"OK \xff\xfe".to_vec()),
        ("non_utf8_trunc", b"OK \xe2\x82".to_vec()),
        ("non_utf8_overlong", b"\xc0\xafOK".to_vec()),
        ("non_utf8_surrogate", b"OK \xed\xa0\x80".to_vec()),
        ("non_utf8_rejected", b"REJECTED \x80".to_vec()),
        ("utf8_ok", "OK \u{e4}\u{20ac}\u{1f600}".as_bytes().to_vec()),
        ("utf8_not_ok", "\u{e4}OK".as_bytes().to_vec()),
        ("nul_bytes", b"OK\0\0".to_vec()),
    ];
    for n in [509usize, 510, 511, 512, 513, 1022, 1500] {
        let mut l = b"OK ".to_vec();
        l.extend(std::iter::repeat(b'a').take(n - 3));
        v.push(("ok_long", l));
    }
    let mut l = b"REJECTED ".to_vec();
    l.extend(std::iter::repeat(b'z').take(700));
    v.push(("rejected_long", l));
    v
}

fn classes2() -> Vec<(&'static str, Vec<u8>)> {
    vec![
        ("agree", b"AGREE_UNIX_FD".to_vec()),
        ("agree_more", b"AGREE_UNIX_FD yes".to_vec()),
        ("agree_glued", b"AGREE_UNIX_FDS".to_vec()),
        ("agree_short", b"AGREE_UNIX_F".to_vec()),
        ("agree_lower", b"agree_unix_fd".to_vec()),
        ("agree_space", b" AGREE_UNIX_FD".to_vec()),
        ("error", b"ERROR".to_vec()),
        ("error_msg", b"ERROR \"not supported\"".to_vec()),
        ("ok", b"OK".to_vec()),
        ("rejected", b"REJECTED EXTERNAL".to_vec()),
        ("empty", b"".to_vec()),
        ("non_utf8", b"AGREE_UNIX_FD \xff".to_vec()),
        ("non_utf8_2", b"\xf8AGREE_UNIX_FD".to_vec()),
        ("garbage", b"%%%%%%%%%%%%%%%%%%%%%%%".to_vec()),
        ("utf8", "AGREE_UNIX_FD \u{2713}".as_bytes().to_vec()),
    ]
}

fn all_compositions(b: &[u8]) -> Vec<Vec<Vec<u8>>> {
    let n = b.len();
    let mut out = Vec::new();
    for mask in 0u32..(1 << (n - 1)) {
        let points: Vec<usize> = (1..n).filter(|i| mask & (1 << (i - 1)) != 0).collect();
        out.push(split_at_points(b, &points));
    }
    out
}

fn handshake_phase(out: &mut Out, rng: &mut Prng, cfg: &Cfg) {
    let uid = unsafe { libc::getuid() };
    let mut hs = Hs { out, uid, hangs: 0, post: post_begin_message(), client: None };
    let c1 = classes1();
    let c2 = classes2();
    let ok = || rep(vec![line(b"OK 1234deadbeef")]);
    let agree = || rep(vec![line(b"AGREE_UNIX_FD")]);

    // 1. every reply class at step 1, both configurations
    for (_, l) in &c1 {
        for fd in [false, true] {
            hs.connect(vec![rep(vec![line(l)]), agree()], fd, "conn_class1", true);
        }
    }
    // 2. every reply class at step 2
    for (_, l) in &c2 {
        hs.connect(vec![ok(), rep(vec![line(l)])], true, "conn_class2", true);
    }
    // 2b. a SLOW server: the OK line arrives in three pieces with long gaps (quick: 150 ms, thorough: 2.1 s, the whole
    //     step then takes longer than any plausible handshake budget): the handshake still has to complete, in bounded
    //     time after the last piece, without panicking
    {
        let gap = if cfg.thorough { 2_100_000 } else { 150_000 };
        GAP_US.store(gap, std::sync::atomic::Ordering::SeqCst);
        let l = line(b"OK 1234deadbeef");
        for fd in [true, false] {
            hs.connect(vec![rep(vec![l[..2].to_vec(), l[2..9].to_vec(), l[9..].to_vec()]), agree()], fd, "conn_slow_trickle", true);
        }
        GAP_US.store(700, std::sync::atomic::Ordering::SeqCst);
    }
    // 2c. the client's WRITE fails: the server accepts a step, then shuts down its reading side (the next line the client
    //     writes gets EPIPE); the connects that follow ON THE SAME CLIENT THREAD must start from a clean slate
    for fd in [false, true] {
        hs.connect(vec![Rep { chunks: vec![line(b"OK 1234deadbeef")], then: Then::ShutRead }], fd, "conn_write_fails_after_ok", false);
        hs.connect(vec![ok(), agree()], fd, "conn_after_failed_write", true);
        if fd {
            hs.connect(vec![ok(), Rep { chunks: vec![line(b"AGREE_UNIX_FD")], then: Then::ShutRead }], true, "conn_write_fails_after_agree", false);
            hs.connect(vec![ok(), agree()], true, "conn_after_failed_write", true);
        }
    }
    // 3. close after k bytes, for every k, at each step (k = whole reply is racy for connect_to_bus: the
    //    client's next write may or may not see the close; it is done deterministically on the step functions)
    let mut close_lines: Vec<Vec<u8>> = vec![line(b"OK 1234"), line(b"REJECTED EXTERNAL")];
    if cfg.thorough {
        close_lines.push(line(b"OK 1234deadbeef00112233445566778899"));
        close_lines.push(line(b"ERROR \"x\""));
    }
    for l in &close_lines {
        for k in 0..l.len() {
            for fd in [false, true] {
                let chunks = if k == 0 { vec![] } else { vec![l[..k].to_vec()] };
                hs.connect(vec![Rep { chunks, then: Then::Close }], fd, "conn_close_after_k_step1", true);
            }
        }
    }
    for l in [line(b"AGREE_UNIX_FD"), line(b"ERROR")] {
        for k in 0..l.len() {
            let chunks = if k == 0 { vec![] } else { vec![l[..k].to_vec()] };
            hs.connect(vec![ok(), Rep { chunks, then: Then::Close }], true, "conn_close_after_k_step2", true);
        }
    }
    // close after k bytes with the k bytes in two chunks
    for k in 2..7usize {
        let l = line(b"OK 1234");
        hs.connect(vec![Rep { chunks: vec![l[..1].to_vec(), l[1..k].to_vec()], then: Then::Close }], false, "conn_close_after_k_step1", true);
    }
    // 4. chunkings
    for comp in all_compositions(&line(b"OK")) {
        for fd in [false, true] {
            hs.connect(vec![rep(comp.clone()), agree()], fd, "conn_all_chunkings", true);
        }
    }
    if cfg.thorough {
        for comp in all_compositions(&line(b"OK 12")) {
            hs.connect(vec![rep(comp.clone()), agree()], false, "conn_all_chunkings", true);
        }
        for comp in all_compositions(&line(b"ERROR")) {
            hs.connect(vec![rep(comp.clone()), agree()], true, "conn_all_chunkings", true);
        }
    }
    for l in [line(b"OK 1234deadbeef"), line(b"REJECTED EXTERNAL")] {
        for p in 1..l.len() {
            hs.connect(vec![rep(split_at_points(&l, &[p])), agree()], true, "conn_two_chunks", true);
        }
    }
    {
        let l = line(b"AGREE_UNIX_FD");
        for p in 1..l.len() {
            hs.connect(vec![ok(), rep(split_at_points(&l, &[p]))], true, "conn_two_chunks", true);
        }
        // byte by byte
        let bytewise: Vec<Vec<u8>> = l.iter().map(|b| vec![*b]).collect();
        hs.connect(vec![rep(line(b"OK 12").iter().map(|b| vec![*b]).collect()), rep(bytewise)], true, "conn_bytewise", true);
    }
    // long lines in 100 byte chunks
    for n in [511usize, 512, 513, 1500] {
        let mut l = b"OK ".to_vec();
        l.extend(std::iter::repeat(b'q').take(n - 3));
        let l = line(&l);
        let chunks: Vec<Vec<u8>> = l.chunks(100).map(|c| c.to_vec()).collect();
        hs.connect(vec![rep(chunks), agree()], true, "conn_long_chunked", true);
    }
    // 5. bytes behind the CRLF in the same write are dropped; pipelined replies
    hs.connect(vec![rep(vec![b"OK 1\r\nXYZ".to_vec()]), agree()], true, "conn_extra_dropped", true);
    hs.connect(vec![rep(vec![b"OK 1\r".to_vec(), b"\nXYZ".to_vec()]), agree()], true, "conn_extra_dropped", true);
    hs.connect(vec![rep(vec![b"REJECTED\r\nOK\r\n".to_vec()])], false, "conn_extra_dropped", true);
    hs.connect(vec![rep(vec![b"OK\r\nAGREE_UNIX_FD\r\n".to_vec()])], true, "conn_pipelined", false);
    hs.connect(vec![rep(vec![b"OK\r\nAGREE_UNIX_FD\r\n".to_vec()])], false, "conn_pipelined", false);
    hs.connect(vec![rep(vec![b"OK\r\nERROR\r\n".to_vec()])], true, "conn_pipelined", false);
    // 6. reset (read error) at each step
    hs.connect(vec![Rep { chunks: vec![], then: Then::Reset }], false, "conn_reset", true);
    hs.connect(vec![Rep { chunks: vec![b"OK".to_vec()], then: Then::Reset }], true, "conn_reset", true);
    hs.connect(vec![ok(), Rep { chunks: vec![], then: Then::Reset }], true, "conn_reset", true);
    hs.connect(vec![ok(), Rep { chunks: vec![b"AGREE_".to_vec()], then: Then::Reset }], true, "conn_reset", true);
    // a server that answers OK and then nothing more: closes when it gets NEGOTIATE_UNIX_FD
    hs.connect(vec![ok()], true, "conn_script_ends", true);
    hs.connect(vec![ok()], false, "conn_script_ends", true);
    // 7. random scripts
    let n = if cfg.thorough { 2500 } else { 150 };
    for _ in 0..n {
        let fd = rng.chance(1, 2);
        let l1 = if rng.chance(1, 2) { rng.pick(&c1).1.clone() } else if rng.chance(2, 3) { b"OK abcdef".to_vec() } else { random_line(rng) };
        let l2 = if rng.chance(1, 2) { rng.pick(&c2).1.clone() } else if rng.chance(2, 3) { b"AGREE_UNIX_FD".to_vec() } else { random_line(rng) };
        let mut reps = Vec::new();
        for l in [l1, l2] {
            let full = line(&l);
            match rng.below(8) {
                0 => {
                    // close inside the reply (before its first CRLF is complete)
                    let first = find_crlf(&full).unwrap() + 1;
                    let k = rng.below(first as u64 + 1) as usize;
                    let chunks = if k == 0 { vec![] } else { random_chunking(rng, &full[..k]) };
                    reps.push(Rep { chunks, then: Then::Close });
                    break;
                }
                1 if full.len() <= 400 => {
                    // extra bytes in the write that carries the end of the CRLF. Only for replies that
                    // fit one 512 byte read: then whichever read returns the '\n' also returns the extra
                    // bytes and they are dropped. (For longer replies they can spill into the next read and
                    // end up in the message stream - servers that send bytes beyond the line are outside
                    // the property.)
                    let mut chunks = random_chunking(rng, &full);
                    let extra = random_line(rng);
                    chunks.last_mut().unwrap().extend(extra);
                    reps.push(Rep { chunks, then: Then::Continue });
                }
                _ => reps.push(rep(random_chunking(rng, &full))),
            }
        }
        // only scripts in which no write follows a complete line within the same reply
        hs.connect(reps, fd, "conn_random", true);
    }
    // 8. the step functions on a socket pair
    for (_, l) in &c1 {
        let full = line(l);
        hs.step(0, Some(rep(random_chunking(rng, &full))), "step_auth_class");
    }
    for (_, l) in &c2 {
        let full = line(l);
        hs.step(1, Some(rep(random_chunking(rng, &full))), "step_neg_class");
    }
    for (which, l) in [(0u8, line(b"OK 99")), (1u8, line(b"AGREE_UNIX_FD"))] {
        for k in 0..l.len() {
            let chunks = if k == 0 { vec![] } else { vec![l[..k].to_vec()] };
            hs.step(which, Some(Rep { chunks, then: Then::Close }), "step_close_after_k");
        }
        hs.step(which, Some(Rep { chunks: vec![], then: Then::Reset }), "step_reset");
        hs.step(which, Some(Rep { chunks: vec![l[..2].to_vec()], then: Then::Reset }), "step_reset");
        hs.step(which, None, "step_peer_closed");
    }
    hs.begin(true);
    hs.begin(false);
    if hs.give_up() {
        hs.out.hit("handshake_phase_cut_short_after_3_hangs");
    }
    // connecting to a name nobody listens on: an error, quickly
    let t0 = Instant::now();
    let uaddr = nix::sys::socket::UnixAddr::new_abstract(&peer::fresh_abstract_name()).unwrap();
    let r = guard(|| DuplexConn::connect_to_bus(uaddr, false));
    if !matches!(r, Ok(Err(_))) || t0.elapsed() > Duration::from_millis(2000) {
        hs.out.violation("connect to an unbound name", "expected a prompt error");
    }
    hs.out.hit("conn_unbound_name");
}

fn random_line(rng: &mut Prng) -> Vec<u8> {
    // arbitrary bytes without CRLF (lone CR / LF allowed)
    let n = rng.range(0, 24);
    let mut v: Vec<u8> = Vec::new();
    for _ in 0..n {
        let b = match rng.below(8) {
            0 => *rng.pick(&[b'\r', b'\n', 0u8, 0xff, 0x80, 0xc3, 0xa4, b'O', b'K']),
            1 => rng.below(256) as u8,
            _ => rng.range(0x20, 0x7e) as u8,
        };
        if b == b'\n' && v.last() == Some(&b'\r') {
            continue;
        }
        v.push(b);
    }
    if rng.chance(1, 3) {
        let mut w = if rng.chance(1, 2) { b"OK".to_vec() } else { b"AGREE_UNIX_FD".to_vec() };
        w.extend(v);
        v = w;
    }
    v
}

pub fn run(cfg: &Cfg) {
    let mut out = Out::new(&cfg.outdir);
    let mut rng = Prng::new(cfg.seed);
    // single-threaded phases first (fork, set_var)
    uid_phase(&mut out, &mut rng, cfg);
    std::panic::set_hook(Box::new(|_| {}));
    addr_phase(&mut out, &mut rng, cfg);
    handshake_phase(&mut out, &mut rng, cfg);
    out.finish(
        "uids: forked children setresuid to boundary and random uids (uniform over the digit count) and run the real connect_to_bus, the parent's server records the AUTH line; addresses: fixed strings + grammar (system x 0..7 key=value pairs with keys path/abstract/guid/runtime/other/misspelt, values existing files, missing files, directories, long names around the 108 byte limit, unicode, empty, missing '=', missing ':', extra commas) and three single character mutations of each, through get_session_bus_path under a controlled environment, compared with an independent parser; handshakes: connect_to_bus against a scripted listener and do_auth / negotiate_unix_fds / send_begin on a socket pair: every reply class at each step x with/without fd negotiation, close after k bytes for every k, all chunkings of short lines, every two-chunk split, byte-wise, long lines, bytes behind the CRLF, pipelined replies, reset with unread data, closed peer, random scripts; distinct by request; non-trivial = everything except duplicate requests",
        false,
    );
}
