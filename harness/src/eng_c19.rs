//! C19: dispatch. (1) ObjectPathPattern::{new,matches} exhaustively through PathMatcher::{insert,get_match}
//! against an oracle written from the property text; (2) route tables with several patterns: the handler
//! returned by get_match is really invoked and must belong to a matching pattern / be the unique match;
//! (3) DispatchConn::run on a real connection to a scripted peer with logging handlers that reply, stay
//! silent, fail and add routes.
use rustbus::connection::dispatch_conn::{DispatchConn, HandleEnvironment, HandleError, HandleFn, Matches, PathMatcher};
use rustbus::connection::ll_conn::SendConn;
use rustbus::message_builder::{MarshalledMessage, MessageBuilder, MessageType};
use std::cell::RefCell;
use std::collections::{BTreeMap, HashMap};
use std::io::Write;
use std::num::NonZeroU32;
use std::rc::Rc;
use std::sync::{Arc, Mutex};
use vcore::common::*;
use vcore::eng_wire::guard;
use vcore::peer;

// ---------------------------------------------------------------------------------------------
// oracle, written from the property text (no use of the library, not even of str::split)
// ---------------------------------------------------------------------------------------------
fn segments(s: &str) -> Vec<String> {
    let mut out = vec![String::new()];
    for c in s.chars() {
        if c == '/' {
            out.push(String::new());
        } else {
            out.last_mut().unwrap().push(c);
        }
    }
    out
}

/// literal segments equal, named segments captured under their name, a wildcard matches one segment
/// or, as last segment, any non-empty tail
fn rel(pat: &[String], path: &[String], caps: &mut BTreeMap<String, String>) -> bool {
    match (pat.first(), path.first()) {
        (None, None) => true,
        (None, Some(_)) | (Some(_), None) => false,
        (Some(p), Some(q)) => {
            if p == "*" {
                if pat.len() == 1 {
                    return true; // `path` is a non-empty tail
                }
                rel(&pat[1..], &path[1..], caps)
            } else if p.starts_with(':') {
                caps.insert(p.clone(), q.clone()); // a repeated name keeps the last
                rel(&pat[1..], &path[1..], caps)
            } else {
                p == q && rel(&pat[1..], &path[1..], caps)
            }
        }
    }
}

fn oracle(pattern: &str, path: &str) -> Option<BTreeMap<String, String>> {
    let mut caps = BTreeMap::new();
    if rel(&segments(pattern), &segments(path), &mut caps) {
        Some(caps)
    } else {
        None
    }
}

fn show_caps<'a, I: Iterator<Item = (&'a String, &'a String)>>(it: I) -> String {
    let mut v: Vec<(&String, &String)> = it.collect();
    v.sort();
    if v.is_empty() {
        return "-".into();
    }
    v.iter().map(|(k, v)| format!("{}={}", cps(k), cps(v))).collect::<Vec<_>>().join(";")
}

// ---------------------------------------------------------------------------------------------
// (1) exhaustive pattern x path
// ---------------------------------------------------------------------------------------------
const ALPHA: [&str; 5] = ["", "a", "b", ":x", "*"];

/// all '/'-joined segment lists over ALPHA with 1..=n segments, plus those with n+1 segments whose
/// first segment is empty (the shape of real object paths: "/s1/../sn")
fn universe(n: usize) -> Vec<String> {
    let mut out = Vec::new();
    let mut level: Vec<Vec<&str>> = vec![vec![]];
    for len in 1..=n + 1 {
        let mut next = Vec::new();
        for l in &level {
            for a in ALPHA {
                let mut l2 = l.clone();
                l2.push(a);
                next.push(l2);
            }
        }
        for l in &next {
            if len <= n || l[0].is_empty() {
                out.push(l.join("/"));
            }
        }
        level = next;
    }
    out
}

fn noop_handler<U>() -> Box<HandleFn<U, ()>> {
    Box::new(|_, _, _, _| Ok(None))
}

fn exhaustive(out: &mut Out, n: usize) {
    let uni = universe(n);
    for pattern in &uni {
        let mut pm: PathMatcher<(), ()> = PathMatcher::new();
        pm.insert(pattern, noop_handler());
        for path in &uni {
            let req = format!("c19.match {} {}", cps(pattern), cps(path));
            let got = match guard(|| pm.get_match(path).map(|(m, _)| m.matches)) {
                Ok(g) => g,
                Err(_) => {
                    out.violation(&req, "get_match panicked");
                    out.case(&req, "panic", true);
                    continue;
                }
            };
            let want = oracle(pattern, path);
            let obs = match &got {
                Some(m) => format!("some {}", show_caps(m.iter())),
                None => "none".to_string(),
            };
            let wanted = match &want {
                Some(m) => format!("some {}", show_caps(m.iter())),
                None => "none".to_string(),
            };
            if obs != wanted {
                out.violation(&req, &format!("pattern {:?} on path {:?}: library {}, the matching relation says {}", pattern, path, obs, wanted));
            }
            match &got {
                Some(m) if m.is_empty() => out.hit("match_no_captures"),
                Some(_) => out.hit("match_with_captures"),
                None => out.hit("no_match"),
            }
            if got.is_some() && segments(path).len() > segments(pattern).len() {
                out.hit("match_by_wildcard_tail");
            }
            out.case(&req, &obs, true);
        }
    }
}

// ---------------------------------------------------------------------------------------------
// (2) route tables
// ---------------------------------------------------------------------------------------------
fn dummy_msg() -> MarshalledMessage {
    MessageBuilder::new().call("M").on("/o").build()
}

fn tables(out: &mut Out, rng: &mut Prng, n_tables: usize, send: &Arc<Mutex<SendConn>>) {
    let small = universe(2);
    let big = universe(3);
    let msg = dummy_msg();
    for _ in 0..n_tables {
        let k = rng.range(2, 4) as usize;
        let pats: Vec<String> = (0..k)
            .map(|_| if rng.chance(2, 3) { rng.pick(&small).clone() } else { rng.pick(&big).clone() })
            .collect();
        // handler i stores i into the user data when it is invoked
        let mut pm: PathMatcher<Option<usize>, ()> = PathMatcher::new();
        for (i, p) in pats.iter().enumerate() {
            pm.insert(
                p,
                Box::new(move |ud: &mut Option<usize>, _m: Matches, _msg: &MarshalledMessage, _env: &mut HandleEnvironment<Option<usize>, ()>| {
                    *ud = Some(i);
                    Ok(None)
                }),
            );
        }
        // the live entry of a pattern string is the one inserted last
        let live: Vec<bool> = (0..k).map(|i| !pats[i + 1..].contains(&pats[i])).collect();
        let table = pats.iter().map(|p| cps(p)).collect::<Vec<_>>().join("|");
        let paths: Vec<&String> = if rng.chance(1, 2) { small.iter().collect() } else { (0..40).map(|_| rng.pick(&big)).collect() };
        for path in paths {
            let mut ud: Option<usize> = None;
            let mut env = HandleEnvironment { conn: send.clone(), new_dispatches: PathMatcher::new() };
            let got_caps = match pm.get_match(path) {
                Some((m, h)) => {
                    let caps = show_caps(m.matches.iter());
                    let _ = h(&mut ud, m, &msg, &mut env);
                    Some(caps)
                }
                None => None,
            };
            let matching: Vec<usize> = (0..k).filter(|i| live[*i] && oracle(&pats[*i], path).is_some()).collect();
            let chosen = match (&got_caps, ud) {
                (Some(_), Some(i)) => i.to_string(),
                (None, None) => "d".to_string(),
                _ => {
                    out.violation(&format!("c19.table {} {}", table, cps(path)), "get_match returned a handler that is none of the registered ones");
                    "d".to_string()
                }
            };
            let req = format!("c19.table {} {} {}", table, cps(path), chosen);
            match ud {
                Some(i) => {
                    if !matching.contains(&i) {
                        out.violation(&req, &format!("patterns {:?}, path {:?}: handler {} was chosen but its pattern does not match (or was replaced)", pats, path, i));
                    }
                    if let Some(want) = oracle(&pats[i], path) {
                        if got_caps.as_deref() != Some(show_caps(want.iter()).as_str()) {
                            out.violation(&req, &format!("captures {:?} handed over, expected {:?}", got_caps, want));
                        }
                    }
                }
                None => {
                    if !matching.is_empty() {
                        out.violation(&req, &format!("patterns {:?}, path {:?}: no route found although {:?} match", pats, path, matching));
                    }
                }
            }
            out.hit(match matching.len() {
                0 => "table_no_match",
                1 => "table_unique_match",
                _ => "table_ambiguous",
            });
            out.case(&req, "legal", true);
            if matching.len() <= 1 {
                // the answer is determined, the model has to name the same handler
                let obs = match (ud, &got_caps) {
                    (Some(i), Some(c)) => format!("h={} {}", i, c),
                    _ => "default".to_string(),
                };
                if matching.len() == 1 && ud != Some(matching[0]) {
                    out.violation(&req, &format!("exactly one pattern ({}) matches but {:?} was chosen", matching[0], ud));
                }
                out.case(&format!("c19.lookup {} {}", table, cps(path)), &obs, true);
            }
        }
    }
}

// ---------------------------------------------------------------------------------------------
// (3) DispatchConn::run against the scripted peer
// ---------------------------------------------------------------------------------------------
#[derive(Clone)]
struct Script {
    beh: char, // n = Ok(None), r = Ok(Some(custom)), e = Err
    bad_reply: bool, // the custom reply cannot be marshalled (send_message fails)
    adds: Vec<(String, usize)>,
}

type Log = Rc<RefCell<Vec<(String, u32, String)>>>; // who, serial of the message, captures

/// the user data given to DispatchConn::new (it is private in there, hence the shared log)
struct Ctx {
    log: Log,
    script: HashMap<u32, Script>,
}

fn custom_reply(msg: &MarshalledMessage, bad: bool) -> MarshalledMessage {
    let serial = msg.dynheader.serial.map(|s| s.get()).unwrap_or(0);
    let mut r = msg.dynheader.make_error_response("h.Custom", None);
    r.dynheader.response_serial = NonZeroU32::new(serial + 1000);
    r.dynheader.destination = Some("h.custom".into());
    if bad {
        r.typ = MessageType::Invalid;
    }
    r
}

fn handler(who: Option<usize>) -> Box<HandleFn<Ctx, String>> {
    Box::new(move |ctx: &mut Ctx, m: Matches, msg: &MarshalledMessage, env: &mut HandleEnvironment<Ctx, String>| {
        let serial = msg.dynheader.serial.map(|s| s.get()).unwrap_or(0);
        ctx.log.borrow_mut().push((who.map(|h| h.to_string()).unwrap_or("d".into()), serial, show_caps(m.matches.iter())));
        let sc = match ctx.script.get(&serial) {
            Some(s) => s.clone(),
            None => return Ok(None),
        };
        for (pat, h) in &sc.adds {
            env.new_dispatches.insert(pat, handler(Some(*h)));
        }
        match sc.beh {
            'n' => Ok(None),
            'r' => Ok(Some(custom_reply(msg, sc.bad_reply))),
            _ => Err(HandleError::User(format!("handler failed on {}", serial))),
        }
    })
}

struct Ev {
    serial: u32,
    sender: Option<String>,
    object: Option<String>,
    kind: u8, // 0 call, 1 signal, 2 method return without object path
    script: Script,
}

const RUN_PATTERNS: [&str; 16] = [
    "/", "/a", "/b", "/:x", "/*", "/a/b", "/a/:x", "/a/*", "/:x/b", "/:x/:y", "/:x/:x", "/b/*", "/*/a", "/a/b/c", "/b/:x/*", "/a/b/:z",
];
const RUN_PATHS: [&str; 12] = ["/", "/a", "/b", "/c", "/a/b", "/b/a", "/a/a", "/b/c", "/a/b/c", "/b/a/c", "/a/b/c/d", "/b/b/a/a"];
const SENDERS: [Option<&str>; 4] = [None, Some(":1.5"), Some("org.example.Caller"), Some(":1.4294967295")];

fn matching_patterns<'a>(table: &'a BTreeMap<String, usize>, path: &str) -> Vec<(&'a String, usize)> {
    table.iter().filter(|(p, _)| oracle(p, path).is_some()).map(|(p, h)| (p, *h)).collect()
}

/// a valid object path that the pattern matches
fn instantiate(pattern: &str, rng: &mut Prng) -> String {
    let segs = segments(pattern);
    let mut out: Vec<String> = Vec::new();
    for (i, s) in segs.iter().enumerate().skip(1) {
        if s.starts_with(':') {
            out.push(rng.pick(&["a", "b", "c"]).to_string());
        } else if s == "*" {
            out.push(rng.pick(&["a", "b", "c"]).to_string());
            if i + 1 == segs.len() {
                for _ in 0..rng.below(3) {
                    out.push(rng.pick(&["a", "b", "c"]).to_string());
                }
            }
        } else if !s.is_empty() {
            out.push(s.clone());
        }
    }
    format!("/{}", out.join("/"))
}

fn build_incoming(ev: &Ev) -> Vec<u8> {
    let mut msg = match ev.kind {
        1 => MessageBuilder::new().signal("a.b", "S", ev.object.clone().unwrap()).build(),
        _ => MessageBuilder::new().call("M").on(ev.object.clone().unwrap_or("/x".into())).with_interface("a.b").build(),
    };
    if ev.kind == 2 {
        msg.typ = MessageType::Reply;
        msg.dynheader.object = None;
        msg.dynheader.member = None;
        msg.dynheader.interface = None;
        msg.dynheader.response_serial = NonZeroU32::new(77);
    }
    msg.dynheader.sender = ev.sender.clone();
    // a call need not name a destination (a direct peer, a relay that consumed it): the reply goes to the SENDER all the same
    msg.dynheader.destination = if ev.serial % 4 == 1 { None } else { Some("org.me".into()) };
    if ev.kind != 2 && ev.serial % 5 == 2 {
        // a stray REPLY_SERIAL on a call or signal (the wire format allows it) must not leak into the reply
        msg.dynheader.response_serial = NonZeroU32::new(0x0a0b0c0d);
    }
    if ev.serial % 3 == 0 {
        msg.body.push_param(ev.serial).unwrap();
    }
    let mut buf = Vec::new();
    rustbus::wire::marshal::marshal(&msg, NonZeroU32::new(ev.serial).unwrap(), &mut buf).expect("marshal incoming");
    buf.extend_from_slice(msg.get_buf());
    buf
}

/// OVERLAPPING routes that differ only in the NAMES of their captures (`/dev/:name/status` and `/dev/:id/status`, the second
/// registered before run() or by a successful handler): which of the two handlers gets a matching call is not specified,
/// but whichever is called finds the segment under ITS OWN capture name. Evaluated directly (the model's histories keep
/// every lookup unambiguous).
fn same_shape_family(out: &mut Out, rng: &mut Prng) {
    let shapes: [(&str, &str, &str); 3] = [("/dev/:name/status", "/dev/:id/status", "/dev/sda/status"), ("/:a/:b", "/:b/:a", "/p/q"), ("/x/:k/*", "/x/:key/*", "/x/v/rest/more")];
    for (first, second, object) in shapes {
        for via_handler in [false, true] {
            let (conn, mut server) = peer::connect_pair(false);
            let shared: Log = Rc::new(RefCell::new(Vec::new()));
            let serial0 = 10 + rng.below(50) as u32;
            let mut script: HashMap<u32, Script> = HashMap::new();
            if via_handler {
                // the first message goes to a helper route whose (successful) handler registers the second pattern
                script.insert(serial0, Script { beh: 'n', bad_reply: false, adds: vec![(second.to_string(), 2)] });
            }
            let ctx = Ctx { log: shared.clone(), script };
            let mut dc = DispatchConn::new(conn, ctx, handler(None));
            dc.add_handler(first, handler(Some(1)));
            dc.add_handler("/helper", handler(Some(9)));
            if !via_handler {
                dc.add_handler(second, handler(Some(2)));
            }
            let mk = |serial: u32, object: &str| Ev { serial, sender: Some(":1.5".into()), object: Some(object.to_string()), kind: 0, script: Script { beh: 'n', bad_reply: false, adds: vec![] } };
            let evs = vec![mk(serial0, "/helper"), mk(serial0 + 1, object), mk(serial0 + 2, object)];
            for e in &evs {
                server.write_all(&build_incoming(e)).unwrap();
            }
            server.shutdown(std::net::Shutdown::Write).unwrap();
            let _ = guard(|| {
                for _ in 0..evs.len() + 2 {
                    match dc.run() {
                        Err((None, _)) | Ok(()) => break,
                        _ => {}
                    }
                }
            });
            let log: Vec<(String, u32, String)> = shared.borrow().clone();
            let req = format!("c19.sameshape {} {} {} via_handler={}", first, second, object, via_handler);
            for (who, serial, caps) in log.iter().filter(|l| l.1 != serial0) {
                let pat = match who.as_str() {
                    "1" => first,
                    "2" => second,
                    other => {
                        out.violation(&req, &format!("message {} for {} went to handler {:?}, not to one of the two matching routes", serial, object, other));
                        continue;
                    }
                };
                let want = show_caps(oracle(pat, object).unwrap().iter());
                if *caps != want {
                    out.violation(&req, &format!("message {}: the handler registered for {} was called with captures {} instead of {}", serial, pat, caps, want));
                }
            }
            if log.iter().filter(|l| l.1 != serial0).count() != 2 {
                out.violation(&req, &format!("two calls for {} were sent, invocations: {:?}", object, log));
            }
            out.hit("same_shape_routes");
        }
    }
}

fn scenario(out: &mut Out, rng: &mut Prng, max_events: u64, peer_gone: bool) {
    // --- generate: the engine keeps its own idea of the route table (pattern string -> handler id) to keep
    // every lookup unambiguous and to evaluate the property directly
    let mut next_hid = 1usize;
    let mut table: BTreeMap<String, usize> = BTreeMap::new();
    let mut init: Vec<(String, usize)> = Vec::new();
    let mut mentioned: Vec<String> = Vec::new();
    for _ in 0..rng.below(4) {
        let p = rng.pick(&RUN_PATTERNS).to_string();
        init.push((p.clone(), next_hid));
        mentioned.push(p.clone());
        table.insert(p, next_hid);
        next_hid += 1;
    }
    let n = rng.range(1, max_events);
    let mut evs: Vec<Ev> = Vec::new();
    let mut serial = rng.range(1, 50) as u32;
    // expectations computed directly from the property text
    let mut want_inv: Vec<(String, u32, String)> = Vec::new();
    let mut want_wr: Vec<(Option<u32>, Option<String>, bool)> = Vec::new();
    let mut want_ret: Vec<String> = Vec::new();
    for _ in 0..n {
        serial += rng.range(1, 9) as u32;
        let kind = match rng.below(10) {
            0 => 1,
            1 => 2,
            _ => 0,
        };
        // pick an object path with at most one matching pattern; most of the time one that fits a pattern
        // that was registered (or that a failing handler tried to register) recently
        let mut object = None;
        if kind != 2 {
            for _ in 0..20 {
                let p = if !mentioned.is_empty() && rng.chance(3, 5) {
                    let lo = mentioned.len().saturating_sub(4);
                    instantiate(&mentioned[lo + rng.below((mentioned.len() - lo) as u64) as usize], rng)
                } else {
                    rng.pick(&RUN_PATHS).to_string()
                };
                if matching_patterns(&table, &p).len() <= 1 {
                    object = Some(p);
                    break;
                }
            }
            if object.is_none() {
                object = Some("/c/c/c/c/c".to_string()); // may still be ambiguous; checked below
            }
        }
        let ambiguous = object.as_ref().map(|o| matching_patterns(&table, o).len() > 1).unwrap_or(false);
        if ambiguous {
            break;
        }
        let beh = match rng.below(10) {
            0..=4 => 'n',
            5..=7 => 'r',
            _ => 'e',
        };
        let bad_reply = beh == 'r' && rng.chance(1, 5);
        let mut adds = Vec::new();
        for _ in 0..(if rng.chance(1, 2) { rng.below(3) } else { 0 }) {
            let p = if rng.chance(1, 6) && !table.is_empty() {
                // replace an existing route
                table.keys().nth(rng.below(table.len() as u64) as usize).unwrap().clone()
            } else {
                rng.pick(&RUN_PATTERNS).to_string()
            };
            mentioned.push(p.clone());
            adds.push((p, next_hid));
            next_hid += 1;
        }
        let sender = rng.pick(&SENDERS).map(|s| s.to_string());
        // expectation
        let (who, caps) = match &object {
            Some(o) => match matching_patterns(&table, o).first() {
                Some((p, h)) => (h.to_string(), show_caps(oracle(p, o).unwrap().iter())),
                None => ("d".to_string(), "-".to_string()),
            },
            None => ("d".to_string(), "-".to_string()),
        };
        want_inv.push((who, serial, caps));
        let send_ok = !peer_gone && !bad_reply;
        match beh {
            'e' => want_ret.push(format!("h@{}", serial)),
            _ => {
                for (p, h) in &adds {
                    table.insert(p.clone(), *h);
                }
                if send_ok {
                    if beh == 'n' {
                        want_wr.push((Some(serial), sender.clone(), false));
                    } else {
                        want_wr.push((Some(serial + 1000), Some("h.custom".into()), true));
                    }
                } else {
                    want_ret.push(format!("s@{}", serial));
                }
            }
        }
        out.hit(match beh {
            'n' => "handler_ok_none",
            'r' => {
                if bad_reply {
                    "handler_ok_unsendable_reply"
                } else {
                    "handler_ok_custom_reply"
                }
            }
            _ => "handler_err",
        });
        if !adds.is_empty() {
            out.hit(if beh == 'e' { "routes_added_by_failing_handler" } else { "routes_added_by_ok_handler" });
        }
        evs.push(Ev { serial, sender, object, kind, script: Script { beh, bad_reply, adds } });
    }
    if evs.is_empty() {
        return;
    }
    // --- request line
    let routes = if init.is_empty() { "-".to_string() } else { init.iter().map(|(p, h)| format!("{}={}", cps(p), h)).collect::<Vec<_>>().join("|") };
    let events = evs
        .iter()
        .map(|e| {
            format!(
                "{};{};{};{};{};{}",
                e.serial,
                e.sender.as_ref().map(|s| cps(s)).unwrap_or("!".into()),
                e.object.as_ref().map(|s| cps(s)).unwrap_or("!".into()),
                e.script.beh,
                if !peer_gone && !e.script.bad_reply { 1 } else { 0 },
                if e.script.adds.is_empty() { "-".to_string() } else { e.script.adds.iter().map(|(p, h)| format!("{}={}", cps(p), h)).collect::<Vec<_>>().join("+") }
            )
        })
        .collect::<Vec<_>>()
        .join("|");
    let req = format!("c19.run {} {}", routes, events);

    // --- run the real thing
    let (conn, mut server) = peer::connect_pair(false);
    let shared: Log = Rc::new(RefCell::new(Vec::new()));
    let ctx = Ctx { log: shared.clone(), script: evs.iter().map(|e| (e.serial, e.script.clone())).collect() };
    let mut dc = DispatchConn::new(conn, ctx, handler(None));
    for (p, h) in &init {
        dc.add_handler(p, handler(Some(*h)));
    }
    for e in &evs {
        server.write_all(&build_incoming(e)).unwrap();
    }
    let mut server = if peer_gone {
        drop(server);
        None
    } else {
        server.shutdown(std::net::Shutdown::Write).unwrap();
        Some(server)
    };
    let mut rets: Vec<String> = Vec::new();
    let mut end = "no-end".to_string();
    let panicked = guard(|| {
        for _ in 0..evs.len() + 2 {
            match dc.run() {
                Ok(()) => {
                    end = "returned-ok".into();
                    break;
                }
                Err((None, HandleError::Connection(rustbus::connection::Error::ConnectionClosed))) => {
                    end = "closed".into();
                    break;
                }
                Err((None, e)) => {
                    end = format!("receive-error {:?}", e);
                    break;
                }
                Err((Some(m), HandleError::User(_))) => rets.push(format!("h@{}", m.dynheader.serial.map(|s| s.get()).unwrap_or(0))),
                Err((Some(m), _)) => rets.push(format!("s@{}", m.dynheader.serial.map(|s| s.get()).unwrap_or(0))),
            }
        }
    })
    .is_err();
    let log: Vec<(String, u32, String)> = shared.borrow().clone();
    if panicked {
        out.violation(&req, "DispatchConn::run panicked");
    }
    let wr: Vec<(Option<u32>, Option<String>, bool)> = match server.as_mut() {
        Some(s) => {
            let bytes = peer::drain(s);
            match peer::split_frames(&bytes) {
                Some(frames) => frames
                    .iter()
                    .map(|f| {
                        let m = peer::decode_frame(f).expect("reply decodes");
                        (m.dynheader.response_serial.map(|s| s.get()), m.dynheader.destination.clone(), matches!(m.typ, MessageType::Error))
                    })
                    .collect(),
                None => {
                    out.violation(&req, "the bytes written by run() are not a whole number of messages");
                    Vec::new()
                }
            }
        }
        None => Vec::new(),
    };
    // --- the property, directly
    if end != "closed" {
        out.violation(&req, &format!("run() did not end with ConnectionClosed after the peer closed: {}", end));
    }
    if log.len() != evs.len() || log.iter().zip(evs.iter()).any(|(l, e)| l.1 != e.serial) {
        out.violation(
            &req,
            &format!("each message must be given to exactly one handler: messages {:?}, invocations {:?}", evs.iter().map(|e| e.serial).collect::<Vec<_>>(), log),
        );
    } else {
        for (l, w) in log.iter().zip(want_inv.iter()) {
            if l != w {
                out.violation(&req, &format!("message {}: handler {} (captures {}) was invoked, expected {} ({})", l.1, l.0, l.2, w.0, w.2));
            }
        }
    }
    if wr != want_wr {
        out.violation(&req, &format!("replies (reply_serial, destination, is_error) seen by the peer {:?}, expected {:?}", wr, want_wr));
    }
    if rets != want_ret {
        out.violation(&req, &format!("run() returned with {:?}, expected {:?}", rets, want_ret));
    }
    // --- canonical log, same format as the model prints
    let join_or = |v: Vec<String>, sep: &str| if v.is_empty() { "-".to_string() } else { v.join(sep) };
    let obs = format!(
        "inv={} wr={} ret={}",
        join_or(log.iter().map(|l| format!("{}:{}", l.0, l.2)).collect(), "|"),
        join_or(
            wr.iter()
                .map(|w| format!("{}:{}:{}", w.0.map(|s| s.to_string()).unwrap_or("!".into()), w.1.as_ref().map(|s| cps(s)).unwrap_or("!".into()), if w.2 { 1 } else { 0 }))
                .collect(),
            "|"
        ),
        join_or(rets.clone(), ",")
    );
    out.hit(if peer_gone { "scenario_peer_gone" } else { "scenario" });
    out.hit_n("scenario_events", evs.len() as u64);
    out.hit_n("replies_seen_at_peer", wr.len() as u64);
    if log.iter().any(|l| l.0 == "d") {
        out.hit("scenario_with_default_handler");
    }
    if evs.iter().any(|e| e.kind == 2) {
        out.hit("scenario_with_message_without_object_path");
    }
    out.case(&req, &obs, evs.len() >= 2);
}

pub fn run(cfg: &Cfg) {
    std::panic::set_hook(Box::new(|_| {}));
    let mut out = Out::new(&cfg.outdir);
    let mut rng = Prng::new(cfg.seed);
    exhaustive(&mut out, if cfg.thorough { 4 } else { 3 });
    out.extra("exhaustive_match_cases", out.n.to_string());
    let (conn, _server) = peer::connect_pair(false);
    let send = Arc::new(Mutex::new(conn.send));
    tables(&mut out, &mut rng, if cfg.thorough { 4000 } else { 400 }, &send);
    let n = if cfg.thorough { 1500 } else { 150 };
    for i in 0..n {
        scenario(&mut out, &mut rng, if cfg.thorough { 20 } else { 8 }, i % 10 == 9);
    }
    same_shape_family(&mut out, &mut rng);
    out.finish(
        "(1) every pattern x every path over '/'-joined segment lists from {empty, a, b, :x, *} with up to 3 (quick) / 4 (thorough) segments, plus one more when the first is empty, through PathMatcher::insert/get_match, compared with an oracle written from the property text; (2) random tables of 2-4 such patterns (duplicates included) x paths, the handler returned by get_match is invoked and identified, judged legal/illegal by the model and required to be the unique match where there is one; (3) random histories (initial routes, up to 8 / 20 calls, signals and object-less messages with random senders; handlers return Ok(None) / Ok(Some(custom reply)) / an unsendable reply / Err and add or replace routes) run by DispatchConn::run on a real connection to a scripted peer (every tenth scenario the peer is already gone), run() is called again after every error return; invocation log, replies decoded at the peer and error returns compared; distinct by request line; non-trivial = all match/table cases, histories with at least 2 messages",
        false,
    );
}
