//! C11: descriptors stay with their own message, are never leaked and never closed twice.
//!
//! Histories over REAL descriptors: temp files with distinct inodes, `UnixFd`s, message bodies, a real
//! `DuplexConn` connected to an in-process scripted peer that echoes every message (with its
//! descriptors) back, and peer-made messages. After EVERY step the process descriptor table
//! (`/proc/self/fd` minus the baseline taken after connecting) is audited: the open descriptors in
//! creation order with the identity (st_dev, st_ino) of the file behind each; together with the result
//! of the call and the number of `close` calls the library made (hook `FdClose`) this is the
//! observation that the model (`Rustbus.FdTable`) has to reproduce.
use rustbus::connection::ll_conn::DuplexConn;
use rustbus::connection::Timeout;
use rustbus::message_builder::{MarshalledMessage, MarshalledMessageBody, MessageBuilder};
use rustbus::wire::unmarshal::traits::Variant;
use rustbus::wire::UnixFd;
use std::cell::RefCell;
use std::collections::{BTreeSet, HashMap, VecDeque};
use std::num::NonZeroU32;
use std::os::unix::io::{AsRawFd, IntoRawFd, RawFd};
use std::os::unix::net::UnixStream;
use std::rc::Rc;
use vcore::common::*;
use vcore::eng_wire::guard;
use vcore::peer;

const NFILES: usize = 5;
const MAX_RECV_FDS: usize = 10;

// ---------------------------------------------------------------------------------------------
// process table audit

fn list_fds() -> Vec<RawFd> {
    let mut v = Vec::new();
    unsafe {
        let d = libc::opendir(b"/proc/self/fd\0".as_ptr() as *const libc::c_char);
        if d.is_null() {
            return v;
        }
        let dfd = libc::dirfd(d);
        loop {
            let e = libc::readdir(d);
            if e.is_null() {
                break;
            }
            let name = std::ffi::CStr::from_ptr((*e).d_name.as_ptr());
            if let Ok(n) = name.to_string_lossy().parse::<RawFd>() {
                if n != dfd {
                    v.push(n);
                }
            }
        }
        libc::closedir(d);
    }
    v.sort();
    v
}

fn ident(fd: RawFd) -> Option<(u64, u64)> {
    unsafe {
        let mut st: libc::stat = std::mem::zeroed();
        if libc::fstat(fd, &mut st) == 0 {
            Some((st.st_dev as u64, st.st_ino as u64))
        } else {
            None
        }
    }
}

struct Pool {
    paths: Vec<String>,
    ids: HashMap<(u64, u64), usize>,
}

impl Pool {
    fn new(dir: &str) -> Pool {
        let d = format!("{}/files", dir);
        std::fs::create_dir_all(&d).unwrap();
        let mut paths = Vec::new();
        let mut ids = HashMap::new();
        for i in 0..NFILES {
            let p = format!("{}/f{}", d, i);
            std::fs::write(&p, format!("file {}\n", i)).unwrap();
            let f = std::fs::File::open(&p).unwrap();
            ids.insert(ident(f.as_raw_fd()).unwrap(), i);
            paths.push(p);
        }
        Pool { paths, ids }
    }
    fn open(&self, f: usize) -> RawFd {
        std::fs::File::open(&self.paths[f]).unwrap().into_raw_fd()
    }
    /// file id behind a descriptor; 99 = not one of ours, 98 = not open
    fn file_of(&self, fd: RawFd) -> usize {
        match ident(fd) {
            Some(k) => *self.ids.get(&k).unwrap_or(&99),
            None => 98,
        }
    }
}

// ---------------------------------------------------------------------------------------------
// operations

#[derive(Clone, Copy, Debug, PartialEq)]
enum Shape {
    Plain,
    Raw,
    Struct,
    Pair,
    Vec(usize),
    Variant,
    Dict,
    Multi(usize),
    Mixed,
    MultiBad,
    StructBad,
    /// like MultiBad / StructBad, but the failing element is a descriptor whose `dup` fails: the process has run out of
    /// descriptors (EMFILE) by the time it is marshalled
    MultiFull,
    StructFull,
}

impl Shape {
    fn name(&self) -> String {
        match self {
            Shape::Plain => "plain".into(),
            Shape::Raw => "raw".into(),
            Shape::Struct => "struct".into(),
            Shape::Pair => "pair".into(),
            Shape::Vec(n) => format!("vec{}", n),
            Shape::Variant => "variant".into(),
            Shape::Dict => "dict".into(),
            Shape::Multi(n) => format!("multi{}", n),
            Shape::Mixed => "mixed".into(),
            Shape::MultiBad => "multibad".into(),
            Shape::StructBad => "structbad".into(),
            Shape::MultiFull => "multifull".into(),
            Shape::StructFull => "structfull".into(),
        }
    }
    fn parse(s: &str) -> Option<Shape> {
        Some(match s {
            "plain" => Shape::Plain,
            "raw" => Shape::Raw,
            "struct" => Shape::Struct,
            "pair" => Shape::Pair,
            "variant" => Shape::Variant,
            "dict" => Shape::Dict,
            "mixed" => Shape::Mixed,
            "multibad" => Shape::MultiBad,
            "structbad" => Shape::StructBad,
            "multifull" => Shape::MultiFull,
            "structfull" => Shape::StructFull,
            _ => {
                if let Some(n) = s.strip_prefix("vec") {
                    Shape::Vec(n.parse().ok()?)
                } else if let Some(n) = s.strip_prefix("multi") {
                    Shape::Multi(n.parse().ok()?)
                } else {
                    return None;
                }
            }
        })
    }
    /// number of handle items the shape consumes
    fn nhandles(&self) -> usize {
        match self {
            Shape::Plain | Shape::Struct | Shape::Variant | Shape::Dict | Shape::MultiBad | Shape::StructBad | Shape::MultiFull | Shape::StructFull => 1,
            Shape::Raw => 0,
            Shape::Pair => 2,
            Shape::Vec(n) | Shape::Multi(n) => *n,
            Shape::Mixed => 3,
        }
    }
    /// the top-level params a successful push of this shape appends
    fn params(&self) -> Vec<PShape> {
        match self {
            Shape::Plain | Shape::Raw => vec![PShape::H],
            Shape::Struct => vec![PShape::Struct],
            Shape::Pair => vec![PShape::Pair],
            Shape::Vec(n) => vec![PShape::Vec(*n)],
            Shape::Variant => vec![PShape::Variant],
            Shape::Dict => vec![PShape::Dict],
            Shape::Multi(n) => vec![PShape::H; *n],
            Shape::Mixed => vec![PShape::H, PShape::Struct, PShape::Vec(1)],
            Shape::MultiBad | Shape::StructBad | Shape::MultiFull | Shape::StructFull => vec![],
        }
    }
}

/// how a top-level param that carries descriptors is read back
#[derive(Clone, Copy, Debug, PartialEq)]
enum PShape {
    H,
    Struct,
    Pair,
    Vec(usize),
    Variant,
    Dict,
}

impl PShape {
    fn nfds(&self) -> usize {
        match self {
            PShape::Pair => 2,
            PShape::Vec(n) => *n,
            _ => 1,
        }
    }
}

#[derive(Clone, Debug, PartialEq)]
enum ItemE {
    H(usize),
    R(usize),
    Bad,
}

#[derive(Clone, Debug)]
enum OpE {
    Open(usize),
    Close(usize),
    Wrap(usize),
    NewBody,
    Push { b: usize, items: Vec<ItemE>, shape: Shape },
    Reset(usize),
    DropBody(usize),
    Send(usize),
    PeerSend { files: Vec<usize>, idx: Vec<u32>, valid: bool },
    Recv,
    Unm(usize, usize),
    Take(usize),
    Get(usize),
    Dup(usize),
    /// `dup()` while the process has no descriptor left (EMFILE)
    DupFail(usize),
    CloneH(usize),
    DropH(usize),
}

fn commas<T: ToString>(xs: &[T]) -> String {
    if xs.is_empty() {
        "-".into()
    } else {
        xs.iter().map(|x| x.to_string()).collect::<Vec<_>>().join(",")
    }
}
fn dots<T: ToString>(xs: &[T]) -> String {
    if xs.is_empty() {
        "-".into()
    } else {
        xs.iter().map(|x| x.to_string()).collect::<Vec<_>>().join(".")
    }
}

fn tok(op: &OpE) -> String {
    match op {
        OpE::Open(f) => format!("o{}", f),
        OpE::Close(r) => format!("x{}", r),
        OpE::Wrap(r) => format!("w{}", r),
        OpE::NewBody => "nb".into(),
        OpE::Push { b, items, shape } => {
            let its: Vec<String> = items
                .iter()
                .map(|i| match i {
                    ItemE::H(h) => format!("h{}", h),
                    ItemE::R(r) => format!("r{}", r),
                    ItemE::Bad => "bad".into(),
                })
                .collect();
            format!("p{}:{}:{}", b, commas(&its), shape.name())
        }
        OpE::Reset(b) => format!("rs{}", b),
        OpE::DropBody(b) => format!("db{}", b),
        OpE::Send(b) => format!("s{}", b),
        OpE::PeerSend { files, idx, valid } => format!("ps{}:{}:{}", commas(files), commas(idx), if *valid { 1 } else { 0 }),
        OpE::Recv => "rc".into(),
        OpE::Unm(b, j) => format!("u{}:{}", b, j),
        OpE::Take(h) => format!("t{}", h),
        OpE::Get(h) => format!("g{}", h),
        OpE::Dup(h) => format!("d{}", h),
        OpE::DupFail(h) => format!("D{}", h),
        OpE::CloneH(h) => format!("c{}", h),
        OpE::DropH(h) => format!("dh{}", h),
    }
}

fn parse_list<T: std::str::FromStr>(s: &str) -> Option<Vec<T>> {
    if s == "-" {
        return Some(vec![]);
    }
    s.split(',').map(|x| x.parse().ok()).collect()
}

fn parse_tok(t: &str) -> Option<OpE> {
    let num = |s: &str| s.parse::<usize>().ok();
    if t == "nb" {
        return Some(OpE::NewBody);
    }
    if t == "rc" {
        return Some(OpE::Recv);
    }
    if let Some(r) = t.strip_prefix("ps") {
        let p: Vec<&str> = r.split(':').collect();
        if p.len() != 3 {
            return None;
        }
        return Some(OpE::PeerSend { files: parse_list(p[0])?, idx: parse_list(p[1])?, valid: p[2] == "1" });
    }
    if let Some(r) = t.strip_prefix("p") {
        let p: Vec<&str> = r.split(':').collect();
        if p.len() != 3 {
            return None;
        }
        let mut items = Vec::new();
        if p[1] != "-" {
            for i in p[1].split(',') {
                items.push(if i == "bad" {
                    ItemE::Bad
                } else if let Some(h) = i.strip_prefix("h") {
                    ItemE::H(num(h)?)
                } else if let Some(r) = i.strip_prefix("r") {
                    ItemE::R(num(r)?)
                } else {
                    return None;
                });
            }
        }
        return Some(OpE::Push { b: num(p[0])?, items, shape: Shape::parse(p[2])? });
    }
    if let Some(r) = t.strip_prefix("rs") {
        return Some(OpE::Reset(num(r)?));
    }
    if let Some(r) = t.strip_prefix("db") {
        return Some(OpE::DropBody(num(r)?));
    }
    if let Some(r) = t.strip_prefix("dh") {
        return Some(OpE::DropH(num(r)?));
    }
    if let Some(r) = t.strip_prefix("s") {
        return Some(OpE::Send(num(r)?));
    }
    if let Some(r) = t.strip_prefix("u") {
        let p: Vec<&str> = r.split(':').collect();
        if p.len() != 2 {
            return None;
        }
        return Some(OpE::Unm(num(p[0])?, num(p[1])?));
    }
    let (c, r) = t.split_at(1);
    let n = num(r)?;
    Some(match c {
        "o" => OpE::Open(n),
        "x" => OpE::Close(n),
        "w" => OpE::Wrap(n),
        "t" => OpE::Take(n),
        "g" => OpE::Get(n),
        "d" => OpE::Dup(n),
        "D" => OpE::DupFail(n),
        "c" => OpE::CloneH(n),
        _ => return None,
    })
}

// ---------------------------------------------------------------------------------------------
// independent reader for the u32 index values of the `h` elements of a body

fn align(pos: &mut usize, a: usize) {
    *pos = (*pos + a - 1) / a * a;
}
fn rd_u32(buf: &[u8], pos: &mut usize) -> Result<u32, String> {
    align(pos, 4);
    if *pos + 4 > buf.len() {
        return Err("short".into());
    }
    let v = u32::from_le_bytes([buf[*pos], buf[*pos + 1], buf[*pos + 2], buf[*pos + 3]]);
    *pos += 4;
    Ok(v)
}
fn sig_align(c: u8) -> usize {
    match c {
        b'(' | b'{' => 8,
        b'v' => 1,
        _ => 4,
    }
}
/// skip one complete type in a signature
fn skip_sig(sig: &[u8], si: &mut usize) -> Result<(), String> {
    if *si >= sig.len() {
        return Err("sig end".into());
    }
    let c = sig[*si];
    *si += 1;
    match c {
        b'a' => skip_sig(sig, si),
        b'(' => {
            while *si < sig.len() && sig[*si] != b')' {
                skip_sig(sig, si)?;
            }
            *si += 1;
            Ok(())
        }
        b'{' => {
            skip_sig(sig, si)?;
            skip_sig(sig, si)?;
            *si += 1;
            Ok(())
        }
        _ => Ok(()),
    }
}
fn walk(sig: &[u8], si: &mut usize, buf: &[u8], pos: &mut usize, out: &mut Vec<u32>) -> Result<(), String> {
    if *si >= sig.len() {
        return Err("sig end".into());
    }
    let c = sig[*si];
    *si += 1;
    match c {
        b'h' => {
            out.push(rd_u32(buf, pos)?);
            Ok(())
        }
        b'u' => rd_u32(buf, pos).map(|_| ()),
        b's' => {
            let l = rd_u32(buf, pos)? as usize;
            *pos += l + 1;
            Ok(())
        }
        b'(' => {
            align(pos, 8);
            while *si < sig.len() && sig[*si] != b')' {
                walk(sig, si, buf, pos, out)?;
            }
            *si += 1;
            Ok(())
        }
        b'{' => {
            align(pos, 8);
            walk(sig, si, buf, pos, out)?;
            walk(sig, si, buf, pos, out)?;
            *si += 1;
            Ok(())
        }
        b'a' => {
            let l = rd_u32(buf, pos)? as usize;
            if *si >= sig.len() {
                return Err("sig end".into());
            }
            align(pos, sig_align(sig[*si]));
            let end = *pos + l;
            let start = *si;
            let mut after = start;
            skip_sig(sig, &mut after)?;
            while *pos < end {
                let mut s2 = start;
                walk(sig, &mut s2, buf, pos, out)?;
            }
            *si = after;
            Ok(())
        }
        b'v' => {
            if *pos >= buf.len() {
                return Err("short".into());
            }
            let l = buf[*pos] as usize;
            let inner = buf.get(*pos + 1..*pos + 1 + l).ok_or("short")?.to_vec();
            *pos += l + 2;
            let mut s2 = 0;
            while s2 < inner.len() {
                walk(&inner, &mut s2, buf, pos, out)?;
            }
            Ok(())
        }
        other => Err(format!("type {} not handled by the harness reader", other as char)),
    }
}
fn body_indices(msg: &MarshalledMessage) -> Result<Vec<u32>, String> {
    let sig = msg.get_sig().as_bytes().to_vec();
    let buf = msg.get_buf();
    let mut si = 0;
    let mut pos = 0;
    let mut out = Vec::new();
    while si < sig.len() {
        walk(&sig, &mut si, buf, &mut pos, &mut out)?;
    }
    Ok(out)
}

/// RLIMIT_NOFILE soft limit: with 0 every system call that would create a descriptor fails with EMFILE; the open
/// descriptors are not affected
fn nofile_soft() -> libc::rlimit {
    let mut r = libc::rlimit { rlim_cur: 0, rlim_max: 0 };
    unsafe { libc::getrlimit(libc::RLIMIT_NOFILE, &mut r) };
    r
}
fn set_nofile_soft(cur: libc::rlim_t) {
    let mut r = nofile_soft();
    r.rlim_cur = cur;
    unsafe { libc::setrlimit(libc::RLIMIT_NOFILE, &r) };
}
/// runs `f` while no descriptor can be created
fn without_free_descriptors<R>(f: impl FnOnce() -> R) -> R {
    let old = nofile_soft().rlim_cur;
    set_nofile_soft(0);
    let r = f();
    set_nofile_soft(old);
    r
}

/// A value (one byte on the wire) whose marshalling uses up the process's descriptors: whatever is marshalled after
/// it cannot `dup`. The caller restores the limit after the push.
struct TripWire;
impl rustbus::Signature for TripWire {
    fn signature() -> rustbus::signature::Type {
        <u8 as rustbus::Signature>::signature()
    }
    fn alignment() -> usize {
        1
    }
}
impl rustbus::Marshal for TripWire {
    fn marshal(&self, ctx: &mut rustbus::wire::marshal::MarshalContext) -> Result<(), rustbus::wire::errors::MarshalError> {
        set_nofile_soft(0);
        0u8.marshal(ctx)
    }
}

struct RawW(RawFd);
impl AsRawFd for RawW {
    fn as_raw_fd(&self) -> RawFd {
        self.0
    }
}

// ---------------------------------------------------------------------------------------------
// one history

struct BodyE {
    msg: MarshalledMessage,
    params: Vec<PShape>,
}

struct FlightE {
    files: Vec<usize>,
    params: Vec<PShape>,
    valid: bool,
}

#[derive(Clone, Copy)]
struct Tracked {
    num: RawFd,
    file: usize,
    serial: u64,
}

/// what has to be appended to the result once the table has been audited
enum After {
    Nothing,
    /// `/<rank>` of this number; the number becomes known to the caller (`raws`)
    RankRaw(RawFd),
    /// `/r<rank>` or `/rt`
    RankHandle(Option<RawFd>),
    /// a new raw number for the caller without a rank in the result
    NewRaw,
}

struct Hist<'a> {
    pool: &'a Pool,
    conn: DuplexConn,
    server: UnixStream,
    baseline: BTreeSet<RawFd>,
    order: Vec<Tracked>,
    next_serial: u64,
    raws: Vec<(RawFd, u64)>,
    owned: BTreeSet<RawFd>,
    handles: Vec<Option<UnixFd>>,
    bodies: Vec<Option<BodyE>>,
    inflight: VecDeque<FlightE>,
    closes: Rc<RefCell<Vec<RawFd>>>,
    toks: Vec<String>,
    obs: Vec<String>,
    bad: Vec<String>,
    hits: Vec<String>,
    serial_ctr: u32,
    /// the peer has written only the first part (with the descriptors) of its last frame; the rest is written when the
    /// client has polled once (inside the `recv` step) or before the peer writes anything else
    pending_rest: Option<(Vec<u8>, Vec<RawFd>)>,
    split_ctr: usize,
}

fn unmarshal_jth(body: &BodyE, j: usize) -> Result<UnixFd, String> {
    let mut parser = body.msg.body.parser();
    let mut seen = 0usize;
    for p in &body.params {
        let got: Result<Vec<UnixFd>, rustbus::wire::errors::UnmarshalError> = match p {
            PShape::H => parser.get::<UnixFd>().map(|f| vec![f]),
            PShape::Struct => parser.get::<(u32, UnixFd)>().map(|(_, f)| vec![f]),
            PShape::Pair => parser.get::<(UnixFd, UnixFd)>().map(|(a, b)| vec![a, b]),
            PShape::Vec(_) => parser.get::<Vec<UnixFd>>(),
            PShape::Variant => parser.get::<Variant>().and_then(|v| v.get::<UnixFd>()).map(|f| vec![f]),
            PShape::Dict => parser.get::<HashMap<String, UnixFd>>().map(|m| m.into_values().collect()),
        };
        match got {
            Ok(fds) => {
                if j < seen + fds.len() {
                    return Ok(fds.into_iter().nth(j - seen).unwrap());
                }
                seen += fds.len();
            }
            Err(e) => {
                // only the param that holds the j-th value may fail (the generator guarantees it)
                return Err(format!("{:?}", e));
            }
        }
    }
    Err("no such value".into())
}

impl<'a> Hist<'a> {
    fn new(pool: &'a Pool) -> Hist<'a> {
        let (conn, server) = peer::connect_pair(true);
        let closes: Rc<RefCell<Vec<RawFd>>> = Rc::new(RefCell::new(Vec::new()));
        let c2 = closes.clone();
        rustbus::verif_hooks::set_callback(Some(Box::new(move |p| {
            if let rustbus::verif_hooks::Point::FdClose(fd) = p {
                c2.borrow_mut().push(fd);
            }
        })));
        let baseline: BTreeSet<RawFd> = list_fds().into_iter().collect();
        Hist {
            pool,
            conn,
            server,
            baseline,
            order: Vec::new(),
            next_serial: 0,
            raws: Vec::new(),
            owned: BTreeSet::new(),
            handles: Vec::new(),
            bodies: Vec::new(),
            inflight: VecDeque::new(),
            closes,
            toks: Vec::new(),
            obs: Vec::new(),
            bad: Vec::new(),
            hits: Vec::new(),
            serial_ctr: 1000,
            pending_rest: None,
            split_ctr: 0,
        }
    }

    /// the peer writes what it still holds back of its last frame
    fn flush_rest(&mut self) {
        if let Some((rest, fds)) = self.pending_rest.take() {
            peer::send_with_fds(&self.server, &rest, &fds);
            for n in fds {
                let _ = nix::unistd::close(n);
                self.baseline.remove(&n);
            }
        }
    }

    /// The peer writes one frame with its descriptors - every second time in TWO pieces: the first piece (cut anywhere,
    /// also inside the fixed header) carries the descriptors, the rest is held back until the client has polled once
    /// with `Timeout::Nonblock` (see `exec_recv`). For the descriptor table this is the same as a whole frame: the model
    /// does not see the cut. A receive path that drops or mixes up descriptors across a timed-out call shows here.
    fn peer_write_frame(&mut self, frame: &[u8], fds: &[RawFd]) {
        self.flush_rest();
        self.split_ctr += 1;
        if self.split_ctr % 2 == 0 && frame.len() > 2 {
            // every third cut lies inside the 16-byte fixed header, the others anywhere
            let cut = if self.split_ctr % 6 == 0 { 1 + (self.split_ctr / 6) % 15.min(frame.len() - 1) } else { 1 + (self.split_ctr * 7 + frame.len() * 3) % (frame.len() - 1) };
            // the descriptors ride on the first piece - or (every fourth split) on the SECOND piece: a peer may attach them
            // to any byte of the frame. The peer then keeps its own duplicates open until that piece is written (they are
            // part of the audit's baseline for that time).
            if self.split_ctr % 8 == 2 && !fds.is_empty() {
                let held: Vec<RawFd> = fds.iter().map(|f| nix::unistd::dup(*f).unwrap()).collect();
                for h in &held {
                    self.baseline.insert(*h);
                }
                peer::send_with_fds(&self.server, &frame[..cut], &[]);
                self.pending_rest = Some((frame[cut..].to_vec(), held));
                self.hits.push("peer_frame_split_fds_on_second_piece".into());
            } else {
                peer::send_with_fds(&self.server, &frame[..cut], fds);
                self.pending_rest = Some((frame[cut..].to_vec(), Vec::new()));
            }
            self.hits.push(format!("peer_frame_split_{}", if cut < 16 { "in_fixed_header" } else { "later" }));
        } else {
            peer::send_with_fds(&self.server, frame, fds);
        }
    }

    fn violation(&mut self, what: String) {
        let at = self.toks.len();
        self.bad.push(format!("step {}: {}", at, what));
    }

    /// bring `order` up to date with the process table
    fn audit(&mut self) {
        let now: Vec<RawFd> = list_fds().into_iter().filter(|n| !self.baseline.contains(n)).collect();
        let nowset: BTreeSet<RawFd> = now.iter().cloned().collect();
        let pool = self.pool;
        // a tracked descriptor is gone if its number is closed or now names another file
        self.order.retain(|t| nowset.contains(&t.num) && pool.file_of(t.num) == t.file);
        let known: BTreeSet<RawFd> = self.order.iter().map(|t| t.num).collect();
        for n in now {
            if !known.contains(&n) {
                // within one step descriptors are created lowest-free-number first: ascending = creation order
                self.order.push(Tracked { num: n, file: pool.file_of(n), serial: self.next_serial });
                self.next_serial += 1;
            }
        }
    }

    fn rank(&self, n: RawFd) -> String {
        match self.order.iter().position(|t| t.num == n) {
            Some(i) => i.to_string(),
            None => "closed".into(),
        }
    }
    fn serial_of(&self, n: RawFd) -> u64 {
        self.order.iter().find(|t| t.num == n).map(|t| t.serial).unwrap_or(u64::MAX)
    }
    fn raw_valid(&self, r: usize) -> bool {
        let (n, s) = self.raws[r];
        self.order.iter().any(|t| t.num == n && t.serial == s)
    }

    fn step(&mut self, op: OpE) {
        self.closes.borrow_mut().clear();
        let before: Vec<Tracked> = self.order.clone();
        let creates = matches!(op, OpE::Push { .. } | OpE::Recv | OpE::Dup(_) | OpE::Open(_));
        let t = tok(&op);
        let (mut res, after) = self.exec(&op);
        self.toks.push(t);
        self.audit();
        match after {
            After::Nothing => {}
            After::RankRaw(n) => {
                res.push_str(&format!("/{}", self.rank(n)));
                self.raws.push((n, self.serial_of(n)));
            }
            After::RankHandle(Some(n)) => res.push_str(&format!("/r{}", self.rank(n))),
            After::RankHandle(None) => res.push_str("/rt"),
            After::NewRaw => {
                // the descriptor the caller just opened is the newest one
                if let Some(t) = self.order.last().cloned() {
                    self.raws.push((t.num, t.serial));
                    self.owned.insert(t.num);
                }
            }
        }
        // the close calls of the library in this step
        let closes: Vec<RawFd> = self.closes.borrow().clone();
        let mut seen = BTreeSet::new();
        for c in &closes {
            if self.baseline.contains(c) {
                self.violation(format!("the library closed descriptor {} which belongs to the harness/connection", c));
            }
            if self.owned.contains(c) {
                self.violation(format!("the library closed descriptor {} which is owned by the caller (file {})", c, self.pool.file_of(*c)));
            }
            if !seen.insert(*c) {
                self.violation(format!("descriptor {} closed twice in one operation", c));
            }
            let was_open = before.iter().any(|t| t.num == *c);
            if !was_open && !creates {
                self.violation(format!("close({}) on a descriptor that was not open (double close)", c));
            }
            if was_open && self.order.iter().any(|t| t.num == *c && before.iter().any(|b| b.serial == t.serial)) {
                self.violation(format!("close({}) was called but the descriptor is still open", c));
            }
        }
        // the caller's descriptors stay open and keep their file
        let owned: Vec<RawFd> = self.owned.iter().cloned().collect();
        for n in owned {
            if !self.order.iter().any(|t| t.num == n && before.iter().chain(self.order.iter()).any(|b| b.serial == t.serial)) {
                self.violation(format!("descriptor {} owned by the caller is not open any more", n));
            }
        }
        // a handle that still has its descriptor: the descriptor is open
        let mut dead = Vec::new();
        for (i, h) in self.handles.iter().enumerate() {
            if let Some(h) = h {
                if let Some(n) = h.get_raw_fd() {
                    if ident(n).is_none() {
                        dead.push((i, n));
                    }
                }
            }
        }
        for (i, n) in dead {
            self.violation(format!("handle {} is alive and not taken but its descriptor {} is closed", i, n));
        }
        let table = dots(&self.order.iter().map(|t| t.file).collect::<Vec<_>>());
        self.obs.push(format!("{};{};{}", res, table, closes.len()));
    }

    fn files_of_fds(&self, fds: &[UnixFd]) -> Vec<String> {
        fds.iter()
            .map(|f| match f.get_raw_fd() {
                Some(n) => match self.pool.file_of(n) {
                    98 => "x".to_string(),
                    k => k.to_string(),
                },
                None => "t".to_string(),
            })
            .collect()
    }

    fn exec(&mut self, op: &OpE) -> (String, After) {
        match op {
            OpE::Open(f) => {
                let _n = self.pool.open(*f);
                ("ok".into(), After::NewRaw)
            }
            OpE::Close(r) => {
                let (n, _) = self.raws[*r];
                if !self.owned.contains(&n) || !self.raw_valid(*r) {
                    return ("ill".into(), After::Nothing);
                }
                self.owned.remove(&n);
                if nix::unistd::close(n).is_err() {
                    self.violation(format!("closing the caller's own descriptor {} failed: somebody closed it already", n));
                }
                ("ok".into(), After::Nothing)
            }
            OpE::Wrap(r) => {
                let (n, _) = self.raws[*r];
                if !self.owned.contains(&n) || !self.raw_valid(*r) {
                    return ("ill".into(), After::Nothing);
                }
                self.owned.remove(&n);
                self.handles.push(Some(UnixFd::new(n)));
                ("ok".into(), After::Nothing)
            }
            OpE::NewBody => {
                let msg = MessageBuilder::new().signal("a.b", "M", "/o").build();
                self.bodies.push(Some(BodyE { msg, params: Vec::new() }));
                ("ok".into(), After::Nothing)
            }
            OpE::Push { b, items, shape } => self.exec_push(*b, items, *shape),
            OpE::Reset(b) => match self.bodies.get_mut(*b) {
                Some(Some(body)) => {
                    body.msg.body.reset();
                    body.params.clear();
                    if !body.msg.body.get_fds().is_empty() {
                        self.violation("reset() left descriptors in the body".into());
                    }
                    ("ok".into(), After::Nothing)
                }
                _ => ("ill".into(), After::Nothing),
            },
            OpE::DropBody(b) => match self.bodies.get_mut(*b) {
                Some(x @ Some(_)) => {
                    *x = None;
                    ("ok".into(), After::Nothing)
                }
                _ => ("ill".into(), After::Nothing),
            },
            OpE::Send(b) => self.exec_send(*b),
            OpE::PeerSend { files, idx, valid } => self.exec_peer_send(files, idx, *valid),
            OpE::Recv => self.exec_recv(),
            OpE::Unm(b, j) => self.exec_unm(*b, *j),
            OpE::Take(h) => match self.handles.get_mut(*h) {
                Some(x @ Some(_)) => {
                    let hd = x.take().unwrap();
                    let seen = hd.get_raw_fd();
                    match hd.take_raw_fd() {
                        Some(n) => {
                            if seen != Some(n) {
                                self.violation(format!("take_raw_fd returned {} but the handle held {:?}", n, seen));
                            }
                            self.owned.insert(n);
                            ("fd".into(), After::RankRaw(n))
                        }
                        None => ("none".into(), After::Nothing),
                    }
                }
                _ => ("ill".into(), After::Nothing),
            },
            OpE::Get(h) => match self.handles.get(*h) {
                Some(Some(hd)) => match hd.get_raw_fd() {
                    Some(n) => ("fd".into(), After::RankRaw(n)),
                    None => ("none".into(), After::Nothing),
                },
                _ => ("ill".into(), After::Nothing),
            },
            OpE::Dup(h) => match self.handles.get(*h) {
                Some(Some(hd)) => match hd.dup() {
                    Ok(n) => {
                        let (a, b) = (hd.get_raw_fd(), n.get_raw_fd());
                        if a == b || b.is_none() {
                            self.violation(format!("dup() returned a handle on {:?}, the original is {:?}", b, a));
                        } else if self.pool.file_of(a.unwrap()) != self.pool.file_of(b.unwrap()) {
                            self.violation("dup() returned a descriptor for another file".into());
                        }
                        self.handles.push(Some(n));
                        ("ok".into(), After::Nothing)
                    }
                    Err(_) => ("err".into(), After::Nothing),
                },
                _ => ("ill".into(), After::Nothing),
            },
            OpE::DupFail(h) => match self.handles.get(*h) {
                Some(Some(hd)) => {
                    let r = without_free_descriptors(|| hd.dup());
                    self.hits.push("dup_emfile".into());
                    match r {
                        Ok(n) => {
                            // cannot happen while the limit is 0; keep the books right anyway
                            self.violation("dup() succeeded although the process could not get a descriptor".into());
                            self.handles.push(Some(n));
                            ("ok".into(), After::Nothing)
                        }
                        Err(_) => ("err".into(), After::Nothing),
                    }
                }
                _ => ("ill".into(), After::Nothing),
            },
            OpE::CloneH(h) => match self.handles.get(*h) {
                Some(Some(hd)) => {
                    let c = hd.clone();
                    self.handles.push(Some(c));
                    ("ok".into(), After::Nothing)
                }
                _ => ("ill".into(), After::Nothing),
            },
            OpE::DropH(h) => match self.handles.get_mut(*h) {
                Some(x @ Some(_)) => {
                    *x = None;
                    ("ok".into(), After::Nothing)
                }
                _ => ("ill".into(), After::Nothing),
            },
        }
    }

    fn exec_push(&mut self, b: usize, items: &[ItemE], shape: Shape) -> (String, After) {
        // legality as in the model
        let body_ok = matches!(self.bodies.get(b), Some(Some(_)));
        let items_ok = items.iter().all(|i| match i {
            ItemE::H(h) => matches!(self.handles.get(*h), Some(Some(_))),
            ItemE::R(r) => *r < self.raws.len(),
            ItemE::Bad => true,
        });
        if !body_ok || !items_ok {
            return ("ill".into(), After::Nothing);
        }
        let hs: Vec<UnixFd> = items
            .iter()
            .filter_map(|i| if let ItemE::H(h) = i { Some(self.handles[*h].as_ref().unwrap()) } else { None })
            // NOTE: these are references re-borrowed below, the clone here would change the Arc count only
            // transiently; we avoid even that by indexing `self.handles` directly where the API allows it
            .cloned()
            .collect();
        let raw_n: Option<RawFd> = items.iter().find_map(|i| if let ItemE::R(r) = i { Some(self.raws[*r].0) } else { None });
        // the descriptors behind the sources, in marshalling order (None = taken handle / failing element)
        let sources: Vec<Option<RawFd>> = items
            .iter()
            .map(|i| match i {
                ItemE::H(h) => self.handles[*h].as_ref().unwrap().get_raw_fd(),
                ItemE::R(r) => Some(self.raws[*r].0),
                ItemE::Bad => None,
            })
            .collect();
        let open_before: Vec<RawFd> = list_fds();
        let pool = self.pool;
        let body = self.bodies[b].as_mut().unwrap();
        let old_len = body.msg.body.get_fds().len();
        let old_idx = body_indices(&body.msg).unwrap_or_default();
        let old_buf = body.msg.get_buf().to_vec();
        let old_sig = body.msg.get_sig().to_string();
        let mb: &mut MarshalledMessageBody = &mut body.msg.body;
        let nofile_before = nofile_soft().rlim_cur;
        let r = guard(|| match shape {
            Shape::Plain => mb.push_param(&hs[0]),
            Shape::Raw => {
                let w = RawW(raw_n.unwrap());
                mb.push_param(&w as &dyn AsRawFd)
            }
            Shape::Struct => mb.push_param((7u32, &hs[0])),
            Shape::Pair => mb.push_param((&hs[0], &hs[1])),
            Shape::Vec(_) => mb.push_param(&hs[..]),
            Shape::Variant => mb.push_variant(&hs[0]),
            Shape::Dict => {
                let mut m: HashMap<String, &UnixFd> = HashMap::new();
                m.insert("k".to_string(), &hs[0]);
                mb.push_param(&m)
            }
            Shape::Multi(2) => mb.push_param2(&hs[0], &hs[1]),
            Shape::Multi(3) => mb.push_param3(&hs[0], &hs[1], &hs[2]),
            Shape::Multi(_) => mb.push_params(&hs[..]),
            Shape::Mixed => mb.push_param3(&hs[0], (9u32, &hs[1]), &hs[2..3]),
            Shape::MultiBad => mb.push_param2(&hs[0], "a\0b"),
            Shape::StructBad => mb.push_param((&hs[0], "a\0b")),
            Shape::MultiFull => mb.push_param3(&hs[0], TripWire, &hs[0]),
            Shape::StructFull => mb.push_param((&hs[0], TripWire, &hs[0])),
        });
        set_nofile_soft(nofile_before);
        if matches!(shape, Shape::MultiFull | Shape::StructFull) {
            self.hits.push("push_dup_emfile".into());
        }
        drop(hs);
        let ok = match r {
            Ok(Ok(())) => true,
            Ok(Err(_)) => false,
            Err(p) => {
                self.violation(format!("push panicked: {}", p));
                false
            }
        };
        let body = self.bodies[b].as_mut().unwrap();
        let new_len = body.msg.body.get_fds().len();
        let idx = body_indices(&body.msg);
        let mut viol: Vec<String> = Vec::new();
        let idx = match idx {
            Ok(i) => i,
            Err(e) => {
                viol.push(format!("the body cannot be read back: {}", e));
                vec![]
            }
        };
        if ok {
            body.params.extend(shape.params());
            let k = sources.len();
            if new_len != old_len + k {
                viol.push(format!("pushed {} descriptors, the list grew from {} to {}", k, old_len, new_len));
            }
            let want: Vec<u32> = old_idx.iter().cloned().chain((old_len..old_len + k).map(|x| x as u32)).collect();
            if idx != want {
                viol.push(format!("indices in the body are {:?}, the positions are {:?}", idx, want));
            }
            let fds = body.msg.body.get_fds();
            for (i, src) in sources.iter().enumerate() {
                let src = src.unwrap_or(-1);
                if let Some(nf) = fds.get(old_len + i) {
                    match nf.get_raw_fd() {
                        Some(n) => {
                            if n == src {
                                viol.push(format!("the body holds the caller's descriptor {} itself, not a duplicate", n));
                            }
                            if pool.file_of(n) != pool.file_of(src) {
                                viol.push(format!(
                                    "descriptor {} of the list refers to file {}, the pushed one to file {}",
                                    old_len + i,
                                    pool.file_of(n),
                                    pool.file_of(src)
                                ));
                            }
                        }
                        None => viol.push("a freshly pushed descriptor is already taken".into()),
                    }
                }
                if ident(src).is_none() {
                    viol.push(format!("the caller's descriptor {} is closed after the push", src));
                }
            }
        } else {
            if new_len != old_len {
                viol.push(format!("failed push: the descriptor list has {} entries, before {}", new_len, old_len));
            }
            if body.msg.get_buf() != &old_buf[..] || body.msg.get_sig() != old_sig {
                viol.push("failed push: body bytes or signature changed".into());
            }
            let open_after = list_fds();
            if open_after != open_before {
                viol.push(format!("failed push: open descriptors before {:?}, after {:?}", open_before, open_after));
            }
            for src in sources.iter().flatten() {
                if ident(*src).is_none() {
                    viol.push(format!("the caller's descriptor {} is closed after the failed push", src));
                }
            }
        }
        // UNIX_FDS of the header that would be sent now
        if let Some(e) = header_fds_mismatch(&body.msg) {
            viol.push(e);
        }
        let res = format!("{}/n{},i{}", if ok { "ok" } else { "err" }, new_len, dots(&idx));
        for v in viol {
            self.violation(v);
        }
        self.hits.push(format!("push_{}_{}", shape.name(), if ok { "ok" } else { "err" }));
        (res, After::Nothing)
    }

    fn exec_send(&mut self, b: usize) -> (String, After) {
        let body = match self.bodies.get(b) {
            Some(Some(x)) => x,
            _ => return ("ill".into(), After::Nothing),
        };
        let want_files: Vec<usize> = body.msg.body.get_raw_fds().iter().map(|n| self.pool.file_of(*n)).collect();
        let listed = body.msg.body.get_fds().len();
        let none_taken = body.msg.body.get_fds().iter().all(|f| f.get_raw_fd().is_some());
        let params = body.params.clone();
        let mut viol: Vec<String> = Vec::new();
        let sent = self.conn.send.send_message(&body.msg).map(|c| c.write_all().map_err(|e| rustbus::connection::ll_conn::force_finish_on_error(e)));
        match sent {
            Ok(Ok(_)) => {}
            _ => return ("err".into(), After::Nothing),
        }
        // the peer: one message with its descriptors
        let (bytes, fds) = peer::recv_with_fds(&self.server, 1 << 20);
        let got_files: Vec<usize> = fds.iter().map(|n| self.pool.file_of(*n)).collect();
        let frames = peer::split_frames(&bytes).unwrap_or_default();
        let mut nfds = 0usize;
        if frames.len() != 1 {
            viol.push(format!("{} frames at the peer for one send", frames.len()));
        } else {
            match peer::decode_frame(&frames[0]) {
                Ok(m) => nfds = m.dynheader.num_fds.unwrap_or(0) as usize,
                Err(e) => viol.push(format!("the peer cannot decode the frame: {}", e)),
            }
        }
        if nfds != listed {
            viol.push(format!("UNIX_FDS = {} but the message's descriptor list has {} entries", nfds, listed));
        }
        if got_files != want_files {
            viol.push(format!("the peer received descriptors for files {:?}, the message carries {:?}", got_files, want_files));
        }
        if none_taken && fds.len() != nfds {
            viol.push(format!("UNIX_FDS = {} but {} descriptors arrived", nfds, fds.len()));
        }
        if !none_taken {
            self.hits.push("send_with_taken_descriptor(documented_limit)".into());
        }
        // echo it back: the kernel queues it (with the same open files) for the client
        self.peer_write_frame(&bytes, &fds);
        for n in &fds {
            let _ = nix::unistd::close(*n);
        }
        self.inflight.push_back(FlightE { files: got_files.clone(), params, valid: true });
        for v in viol {
            self.violation(v);
        }
        self.hits.push(format!("send_nfds_{}", listed));
        (format!("ok/n{},f{}", nfds, dots(&got_files)), After::Nothing)
    }

    fn exec_peer_send(&mut self, files: &[usize], idx: &[u32], valid: bool) -> (String, After) {
        // header made by the library's marshaller; `UnixFd::new(-1)` entries give UNIX_FDS without any descriptor
        let mut buf = Vec::new();
        for i in idx {
            buf.extend_from_slice(&i.to_le_bytes());
        }
        let sig: String = "h".repeat(idx.len());
        let dummies: Vec<UnixFd> = files.iter().map(|_| UnixFd::new(-1)).collect();
        let frame = {
            let mut msg = MessageBuilder::new().signal("a.b", "M", "/o").build();
            msg.body = MarshalledMessageBody::from_parts(buf.clone(), 0, dummies.clone(), sig.clone(), rustbus::ByteOrder::LittleEndian);
            self.serial_ctr += 1;
            let mut hdr = Vec::new();
            rustbus::wire::marshal::marshal(&msg, NonZeroU32::new(self.serial_ctr).unwrap(), &mut hdr).expect("peer header");
            // append a SENDER field by hand, so that the field array does not end on an 8-byte boundary
            // and there is padding in front of the body (an invalid message has data in it)
            let fields_len = u32::from_le_bytes([hdr[12], hdr[13], hdr[14], hdr[15]]) as usize;
            hdr.truncate(16 + fields_len);
            while hdr.len() % 8 != 0 {
                hdr.push(0);
            }
            hdr.extend_from_slice(&[7, 1, b's', 0, 4, 0, 0, 0, b':', b'1', b'.', b'5', 0]);
            let new_len = (hdr.len() - 16) as u32;
            hdr[12..16].copy_from_slice(&new_len.to_le_bytes());
            let pad_at = hdr.len();
            while hdr.len() % 8 != 0 {
                hdr.push(0);
            }
            if !valid {
                hdr[pad_at] = 1;
            }
            hdr.extend_from_slice(&buf);
            hdr
        };
        drop(dummies);
        let raw: Vec<RawFd> = files.iter().map(|f| self.pool.open(*f)).collect();
        self.peer_write_frame(&frame, &raw);
        for n in raw {
            let _ = nix::unistd::close(n);
        }
        self.inflight.push_back(FlightE { files: files.to_vec(), params: vec![PShape::H; idx.len()], valid });
        self.hits.push(format!("peer_send_{}", if valid { "valid" } else { "invalid" }));
        ("ok".into(), After::Nothing)
    }

    fn exec_recv(&mut self) -> (String, After) {
        let mut r = self.conn.recv.get_next_message(Timeout::Nonblock);
        if self.pending_rest.is_some() && matches!(r, Err(rustbus::connection::Error::TimedOut)) {
            // the frame at the front is the one the peer has written only partly: the poll above has pulled the first piece
            // (and the descriptors) into the connection and timed out; now the rest arrives
            self.hits.push("recv_poll_timed_out_on_partial_frame".into());
            self.flush_rest();
            r = self.conn.recv.get_next_message(Timeout::Nonblock);
        }
        let fl = self.inflight.front();
        match r {
            Ok(msg) => {
                let fl = match fl {
                    Some(_) => self.inflight.pop_front().unwrap(),
                    None => {
                        self.violation("a message arrived although nothing was sent".into());
                        return ("ok/f?".into(), After::Nothing);
                    }
                };
                let got = self.files_of_fds(msg.body.get_fds());
                let want: Vec<String> = fl.files.iter().take(MAX_RECV_FDS).map(|f| f.to_string()).collect();
                if !fl.valid {
                    self.violation("a message with data in the header padding was accepted".into());
                }
                if got != want {
                    self.violation(format!(
                        "the received message carries descriptors for files {:?}, the message that was sent carried {:?}",
                        got, want
                    ));
                }
                self.hits.push(format!("recv_nfds_{}", got.len()));
                if fl.files.len() > MAX_RECV_FDS {
                    self.hits.push("recv_over_limit(documented_limit)".into());
                }
                let res = format!("ok/f{}", dots(&got));
                self.bodies.push(Some(BodyE { msg, params: fl.params }));
                (res, After::Nothing)
            }
            Err(rustbus::connection::Error::TimedOut) => {
                if fl.is_some() {
                    self.violation("nothing received although a message is in flight".into());
                }
                ("empty".into(), After::Nothing)
            }
            Err(_) => {
                match fl {
                    Some(f) if !f.valid => {
                        self.inflight.pop_front();
                        self.hits.push("recv_invalid".into());
                    }
                    _ => self.violation("get_next_message failed on a valid message".into()),
                }
                ("err".into(), After::Nothing)
            }
        }
    }

    fn exec_unm(&mut self, b: usize, j: usize) -> (String, After) {
        let body = match self.bodies.get(b) {
            Some(Some(x)) => x,
            _ => return ("ill".into(), After::Nothing),
        };
        let idx = body_indices(&body.msg).unwrap_or_default();
        if j >= idx.len() {
            return ("ill".into(), After::Nothing);
        }
        let i = idx[j] as usize;
        let nfds = body.msg.body.get_fds().len();
        let r = guard(|| unmarshal_jth(body, j));
        let mut viol = Vec::new();
        let out = match r {
            Ok(Ok(h)) => {
                if i >= nfds {
                    viol.push(format!("index {} with {} descriptors in the message was not refused", i, nfds));
                } else {
                    let want = body.msg.body.get_fds()[i].get_raw_fd();
                    if h.get_raw_fd() != want {
                        viol.push(format!("value with index {} gave descriptor {:?}, entry {} of the list is {:?}", i, h.get_raw_fd(), i, want));
                    }
                }
                let n = h.get_raw_fd();
                self.handles.push(Some(h));
                self.hits.push("unmarshal_ok".into());
                ("ok".to_string(), After::RankHandle(n))
            }
            Ok(Err(e)) => {
                if i < nfds {
                    viol.push(format!("index {} with {} descriptors in the message was refused: {}", i, nfds, e));
                }
                self.hits.push("unmarshal_bad_index".into());
                ("err".to_string(), After::Nothing)
            }
            Err(p) => {
                viol.push(format!("unmarshal panicked: {}", p));
                ("err".to_string(), After::Nothing)
            }
        };
        for v in viol {
            self.violation(v);
        }
        out
    }

    // ---- generation -------------------------------------------------------------------------

    fn live_handles(&self) -> Vec<usize> {
        (0..self.handles.len()).filter(|i| self.handles[*i].is_some()).collect()
    }
    fn live_bodies(&self) -> Vec<usize> {
        (0..self.bodies.len()).filter(|i| self.bodies[*i].is_some()).collect()
    }
    fn owned_raws(&self) -> Vec<usize> {
        (0..self.raws.len()).filter(|r| self.raw_valid(*r) && self.owned.contains(&self.raws[*r].0)).collect()
    }
    fn valid_raws(&self) -> Vec<usize> {
        (0..self.raws.len()).filter(|r| self.raw_valid(*r)).collect()
    }

    fn gen_op(&mut self, rng: &mut Prng, max_fds: usize) -> Option<OpE> {
        let lh = self.live_handles();
        let lb = self.live_bodies();
        let or = self.owned_raws();
        let vr = self.valid_raws();
        for _ in 0..40 {
            let k = rng.below(100);
            let op = if k < 9 {
                if self.order.len() >= 28 {
                    continue;
                }
                OpE::Open(rng.below(NFILES as u64) as usize)
            } else if k < 17 {
                if or.is_empty() {
                    continue;
                }
                OpE::Wrap(*rng.pick(&or))
            } else if k < 22 {
                if lb.len() >= 3 {
                    continue;
                }
                OpE::NewBody
            } else if k < 44 {
                if lb.is_empty() || (lh.is_empty() && vr.is_empty()) {
                    continue;
                }
                let b = *rng.pick(&lb);
                let have = self.bodies[b].as_ref().unwrap().msg.body.get_fds().len();
                if have >= max_fds {
                    continue;
                }
                let room = max_fds - have;
                let shape = match rng.below(16) {
                    14 => Shape::MultiFull,
                    15 => Shape::StructFull,
                    0 | 1 => Shape::Plain,
                    2 => Shape::Raw,
                    3 => Shape::Struct,
                    4 => Shape::Pair,
                    5 | 6 => Shape::Vec(rng.below(4) as usize),
                    7 => Shape::Variant,
                    8 => Shape::Dict,
                    9 => Shape::Multi(2 + rng.below(3) as usize),
                    10 => Shape::Mixed,
                    11 => Shape::MultiBad,
                    12 => Shape::StructBad,
                    _ => Shape::Multi(3),
                };
                if shape == Shape::Raw {
                    if vr.is_empty() {
                        continue;
                    }
                    OpE::Push { b, items: vec![ItemE::R(*rng.pick(&vr))], shape }
                } else {
                    let n = shape.nhandles();
                    if (n > 0 && lh.is_empty()) || n > room {
                        continue;
                    }
                    let mut items: Vec<ItemE> = (0..n).map(|_| ItemE::H(*rng.pick(&lh))).collect();
                    if matches!(shape, Shape::MultiBad | Shape::StructBad | Shape::MultiFull | Shape::StructFull) {
                        items.push(ItemE::Bad);
                    }
                    OpE::Push { b, items, shape }
                }
            } else if k < 47 {
                if lb.is_empty() {
                    continue;
                }
                OpE::Reset(*rng.pick(&lb))
            } else if k < 51 {
                if lb.is_empty() {
                    continue;
                }
                OpE::DropBody(*rng.pick(&lb))
            } else if k < 59 {
                if lb.is_empty() || self.inflight.len() >= 4 {
                    continue;
                }
                OpE::Send(*rng.pick(&lb))
            } else if k < 62 {
                if self.inflight.len() >= 4 {
                    continue;
                }
                let nf = rng.below(max_fds as u64 + 1) as usize;
                let files: Vec<usize> = (0..nf).map(|_| rng.below(NFILES as u64) as usize).collect();
                let ni = rng.below(4) as usize;
                let idx: Vec<u32> = (0..ni)
                    .map(|_| if rng.chance(1, 4) { nf as u32 + rng.below(3) as u32 } else { rng.below(nf.max(1) as u64) as u32 })
                    .collect();
                OpE::PeerSend { files, idx, valid: !rng.chance(1, 5) }
            } else if k < 70 {
                if self.inflight.is_empty() && !rng.chance(1, 10) {
                    continue;
                }
                OpE::Recv
            } else if k < 78 {
                // a value of a body. The parser reads whole top-level params: a value can be read if every index
                // of its param and of the params before it is in range, or if it is itself the first index out of range
                let mut cands = Vec::new();
                for b in &lb {
                    let body = self.bodies[*b].as_ref().unwrap();
                    let idx = body_indices(&body.msg).unwrap_or_default();
                    let n = body.msg.body.get_fds().len();
                    let mut j = 0usize;
                    'params: for p in &body.params {
                        let k = p.nfds();
                        if j + k > idx.len() {
                            break;
                        }
                        match (j..j + k).find(|q| idx[*q] as usize >= n) {
                            None => {
                                for q in j..j + k {
                                    cands.push((*b, q));
                                }
                            }
                            Some(q) => {
                                cands.push((*b, q));
                                break 'params;
                            }
                        }
                        j += k;
                    }
                }
                if cands.is_empty() {
                    continue;
                }
                let (b, j) = *rng.pick(&cands);
                OpE::Unm(b, j)
            } else if k < 83 {
                if lh.is_empty() {
                    continue;
                }
                OpE::Take(*rng.pick(&lh))
            } else if k < 85 {
                if lh.is_empty() {
                    continue;
                }
                OpE::Get(*rng.pick(&lh))
            } else if k < 88 {
                if lh.is_empty() || self.order.len() >= 28 {
                    continue;
                }
                if rng.chance(1, 3) {
                    OpE::DupFail(*rng.pick(&lh))
                } else {
                    OpE::Dup(*rng.pick(&lh))
                }
            } else if k < 93 {
                if lh.is_empty() || lh.len() >= 12 {
                    continue;
                }
                OpE::CloneH(*rng.pick(&lh))
            } else if k < 97 {
                if lh.is_empty() {
                    continue;
                }
                OpE::DropH(*rng.pick(&lh))
            } else {
                if or.is_empty() {
                    continue;
                }
                OpE::Close(*rng.pick(&or))
            };
            return Some(op);
        }
        None
    }

    /// drop everything in random order, check for leaks, close what the caller owns
    fn finish(&mut self, rng: &mut Prng) {
        while !self.inflight.is_empty() {
            let before = self.inflight.len();
            self.step(OpE::Recv);
            if self.inflight.len() == before {
                break;
            }
        }
        let mut rest: Vec<OpE> = self.live_handles().into_iter().map(OpE::DropH).chain(self.live_bodies().into_iter().map(OpE::DropBody)).collect();
        while !rest.is_empty() {
            let i = rng.below(rest.len() as u64) as usize;
            let op = rest.swap_remove(i);
            self.step(op);
        }
        // leak check: what is open now is exactly what the caller owns
        let open: BTreeSet<RawFd> = self.order.iter().map(|t| t.num).collect();
        if open != self.owned {
            let leaked: Vec<String> = open.difference(&self.owned).map(|n| format!("{}(file {})", n, self.pool.file_of(*n))).collect();
            let lost: Vec<RawFd> = self.owned.difference(&open).cloned().collect();
            self.violation(format!(
                "after dropping every handle, body and message: leaked descriptors {:?}, caller-owned descriptors that are closed {:?}",
                leaked, lost
            ));
        }
        loop {
            let or = self.owned_raws();
            match or.first() {
                Some(r) => self.step(OpE::Close(*r)),
                None => break,
            }
        }
        if !self.order.is_empty() {
            let left: Vec<RawFd> = self.order.iter().map(|t| t.num).collect();
            self.violation(format!("descriptors left open at the end: {:?}", left));
            for n in left {
                let _ = nix::unistd::close(n);
            }
            self.audit();
        }
    }

    fn close(self, out: &mut Out, nontrivial: bool) {
        rustbus::verif_hooks::set_callback(None);
        let req = format!("c11.run {}", self.toks.join(" "));
        for b in &self.bad {
            out.violation(&req, b);
        }
        for h in &self.hits {
            out.hit(h);
        }
        out.hit("history");
        out.hit_n("history_ops", self.toks.len() as u64);
        let obs = if self.obs.is_empty() { "-".to_string() } else { self.obs.join(" ") };
        out.case(&req, &obs, nontrivial);
    }
}

/// UNIX_FDS in the header the library marshals for this message vs. the length of its descriptor list
fn header_fds_mismatch(msg: &MarshalledMessage) -> Option<String> {
    let mut hdr = Vec::new();
    if rustbus::wire::marshal::marshal(msg, NonZeroU32::new(77).unwrap(), &mut hdr).is_err() {
        return Some("marshal of the header failed".into());
    }
    hdr.extend_from_slice(msg.get_buf());
    match peer::decode_frame(&hdr) {
        Ok(m) => {
            let n = m.dynheader.num_fds.unwrap_or(0) as usize;
            let l = msg.body.get_fds().len();
            if n != l {
                Some(format!("UNIX_FDS in the header is {}, the descriptor list has {} entries", n, l))
            } else {
                None
            }
        }
        Err(e) => Some(format!("own header does not decode: {}", e)),
    }
}

fn random_history(out: &mut Out, pool: &Pool, rng: &mut Prng, len: usize, max_fds: usize) {
    let mut h = Hist::new(pool);
    // short preludes so that short histories reach the interesting states: a live handle whose descriptor
    // has been taken (through a clone), a body ready to be pushed into
    let f = rng.below(NFILES as u64) as usize;
    let g = rng.below(NFILES as u64) as usize;
    let prelude: Vec<OpE> = match rng.below(4) {
        0 => vec![OpE::Open(f), OpE::Wrap(0), OpE::CloneH(0), OpE::Take(1), OpE::Open(g), OpE::Wrap(2), OpE::NewBody],
        1 => vec![OpE::Open(f), OpE::Wrap(0), OpE::Open(g), OpE::NewBody],
        _ => vec![],
    };
    for op in prelude {
        h.step(op);
    }
    for _ in 0..len {
        match h.gen_op(rng, max_fds) {
            Some(op) => h.step(op),
            None => break,
        }
    }
    h.finish(rng);
    let nt = h.toks.iter().any(|t| t.starts_with('p')) && h.toks.len() >= 4;
    h.close(out, nt);
}

fn scripted_history(out: &mut Out, pool: &Pool, rng: &mut Prng, script: &str) {
    let mut h = Hist::new(pool);
    for t in script.split_whitespace() {
        match parse_tok(t) {
            Some(op) => h.step(op),
            None => {
                out.violation(script, &format!("harness: token {} not understood", t));
                break;
            }
        }
    }
    h.finish(rng);
    h.close(out, true);
}

/// A complete frame whose header FIELDS are refused (a signal without INTERFACE) and that carries a descriptor, followed by
/// a good frame without descriptors. Whether the connection can go on after the refused frame is not specified (the
/// unchanged library keeps failing on it); but if a message is delivered afterwards it must be the good one with NO
/// descriptors, and when everything is dropped nothing is left open. Evaluated directly (outside the model).
fn refused_fields_then_good(out: &mut Out, pool: &Pool) {
    use rustbus::connection::Timeout;
    use std::time::Duration;
    for nfds in [1usize, 2] {
        let before = list_fds();
        {
            let (mut conn, server) = peer::connect_pair(true);
            // frame A: type signal, PATH and MEMBER but no INTERFACE; body = nfds `h` values
            let mut a = rustbus::message_builder::MessageBuilder::new().signal("a.b", "M", "/o").build();
            let raws: Vec<RawFd> = (0..nfds).map(|i| pool.open(i)).collect();
            for r in &raws {
                a.body.push_param(&RawW(*r) as &dyn AsRawFd).unwrap();
            }
            let mut fa = Vec::new();
            rustbus::wire::marshal::marshal(&a, NonZeroU32::new(5).unwrap(), &mut fa).unwrap();
            fa.extend_from_slice(a.get_buf());
            // turn the INTERFACE field (code 2) into an unknown field (code 0x2a): the required field is now missing
            let flen = u32::from_le_bytes([fa[12], fa[13], fa[14], fa[15]]) as usize;
            let mut o = 16;
            while o < 16 + flen {
                if fa[o] == 2 && fa[o + 1] == 1 && fa[o + 2] == b's' {
                    fa[o] = 0x2a;
                    break;
                }
                o += 8;
            }
            peer::send_with_fds(&server, &fa, &raws);
            for r in raws {
                let _ = nix::unistd::close(r);
            }
            drop(a);
            let r1 = conn.recv.get_next_message(Timeout::Duration(Duration::from_millis(200)));
            if r1.is_ok() {
                out.violation("c11.refused_fields", "a signal without INTERFACE was delivered");
            }
            // frame B: good, no descriptors
            let mut b = rustbus::message_builder::MessageBuilder::new().signal("a.b", "Good", "/o").build();
            b.body.push_param(7u32).unwrap();
            let mut fb = Vec::new();
            rustbus::wire::marshal::marshal(&b, NonZeroU32::new(6).unwrap(), &mut fb).unwrap();
            fb.extend_from_slice(b.get_buf());
            peer::send_with_fds(&server, &fb, &[]);
            for _ in 0..2 {
                if let Ok(m) = conn.recv.get_next_message(Timeout::Duration(Duration::from_millis(200))) {
                    let n = m.body.get_fds().len();
                    if m.dynheader.member.as_deref() != Some("Good") || n != 0 {
                        out.violation(
                            "c11.refused_fields",
                            &format!("after a refused frame that carried {} descriptor(s), message {:?} was delivered with {} descriptor(s) attached (it was sent with none)", nfds, m.dynheader.member, n),
                        );
                    }
                    break;
                }
            }
            drop(conn);
            drop(server);
        }
        let after = list_fds();
        if after != before {
            out.violation("c11.refused_fields", &format!("open descriptors before {:?}, after everything was dropped {:?}", before, after));
        }
        out.hit("refused_fields_then_good");
    }
}

pub fn run(cfg: &Cfg) {
    std::panic::set_hook(Box::new(|_| {}));
    let mut out = Out::new(&cfg.outdir);
    let pool = Pool::new(&cfg.outdir);
    let mut rng = Prng::new(cfg.seed);
    if let Some(line) = &cfg.replay {
        let script = line.strip_prefix("c11.run ").unwrap_or(line).to_string();
        scripted_history(&mut out, &pool, &mut rng, &script);
        out.finish("replay of one request line", false);
        return;
    }
    // fixed scenarios: the example of Props/C11.lean; two messages in flight in both directions; a crafted index
    // beyond the list; the documented limit of 10 descriptors per received message
    let scripts = [
        "o0 o1 w0 w1 nb p0:h0:plain p0:h1:struct c1 t2 p0:h0,h1:multi2 s0 rc u1:0 t3 dh0 dh1 db0 db1",
        "o0 o1 o2 w0 w1 w2 nb nb p0:h0,h1:pair p1:h2:variant p1:h0:dict s0 s1 ps3,4:1,0:1 rc rc rc u2:0 u3:1 u4:0 u4:1",
        "ps0,1:0,1,2,7:1 rc u0:0 u0:1 u0:2 ps2:0:0 rc ps-:0:1 rc u1:0",
        "ps0,1,2,3,4,0,1,2,3,4,0,1:0,9,10,11:1 rc u0:0 u0:1 u0:2",
        "o0 w0 nb p0:h0,h0,h0:multi3 u0:1 t1 s0 rc u1:0 u1:1 u1:2",
    ];
    for s in scripts {
        scripted_history(&mut out, &pool, &mut rng, s);
    }
    // one body collecting 24 and 45 descriptors (beyond any plausible per-message limit), with failing pushes on the way
    for groups in [8usize, 15] {
        let mut sc = String::from("o0 o1 w0 w1 nb");
        for g in 0..groups {
            sc.push_str(" p0:h0,h1,h0:multi3");
            if g % 3 == 2 {
                sc.push_str(" p0:h1,bad:multibad p0:h0,bad:structfull");
            }
        }
        sc.push_str(" u0:0 t2 rs0 p0:h1:plain db0 dh0 dh1");
        out.hit("scripted_many_descriptors");
        scripted_history(&mut out, &pool, &mut rng, &sc);
    }
    refused_fields_then_good(&mut out, &pool);
    let (n, maxlen) = if cfg.thorough { (4000, 40) } else { (300, 12) };
    for _ in 0..n {
        if rng.chance(1, 8) {
            // bodies that collect many descriptors (beyond any plausible internal per-message limit)
            let len = rng.range(20, 50) as usize;
            out.hit("history_many_descriptors");
            random_history(&mut out, &pool, &mut rng, len, 40);
            continue;
        }
        let len = rng.range(3, maxlen) as usize;
        random_history(&mut out, &pool, &mut rng, len, 4);
    }
    out.finish(
        "seeded random histories over real descriptors (temp files with distinct inodes): userOpen / wrap / userClose, bodies with pushes at top level and nested (struct, pair, array, variant, dict value, &dyn AsRawFd, push_param2/3/params), failing multi-pushes (taken handle at any position, element with a NUL string), reset, drop, send through a real DuplexConn to a scripted peer that echoes the message with its descriptors, peer-made messages (also with indices beyond the list and with a header the decoder refuses), get_next_message, unmarshal of any value, take / get / dup / clone / drop in random order; every history ends by dropping everything in random order and closing the caller's descriptors; /proc/self/fd + fstat audited after every step; plus 5 fixed scenarios; quick 300 histories of <= 12 ops, thorough 4000 of <= 40 ops, up to 4 descriptors per message (12 in the over-limit scenario; one history in eight has 20-50 operations and lets a body collect up to 40); distinct by request line; non-trivial = at least one push and 4 steps",
        false,
    );
}
