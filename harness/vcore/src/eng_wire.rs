//! The wire engine: typed catalogue stream, dynamic Param stream, corruption stream.
//! Serves C01 (round trip), C02 (bytes = encoding; refusal), C03 (decoders accept exactly the valid
//! encodings), C16 (API equivalence).
use crate::common::*;
use crate::typed::Cat;
use crate::val::*;
use rustbus::message_builder::MarshalledMessage;
use rustbus::wire::marshal::MarshalContext;
use rustbus::wire::unmarshal_context::UnmarshalContext;
use rustbus::wire::validate_raw::validate_marshalled;
use rustbus::ByteOrder;
use rustbus::Marshal;

pub fn bo_name(bo: ByteOrder) -> &'static str {
    match bo {
        ByteOrder::LittleEndian => "le",
        ByteOrder::BigEndian => "be",
    }
}
pub const ORDERS: [ByteOrder; 2] = [ByteOrder::LittleEndian, ByteOrder::BigEndian];

#[derive(Clone, Copy, PartialEq)]
pub enum Mode {
    C01,
    C02,
    C03,
}

pub struct Wire<'a> {
    pub out: &'a mut Out,
    pub rng: Prng,
    pub mode: Mode,
    pub values_per_type: usize,
    pub phases: Vec<usize>,
    /// valid encodings collected for the corruption stream: (bo, offset, ty, full buffer, typed decoder)
    /// (byte order, offset, type, encoding, the typed decoder of the catalogue type the encoding came from)
    pub pool: Vec<(ByteOrder, usize, Ty, Vec<u8>, Option<fn(ByteOrder, usize, &[u8]) -> DecRes>)>,
    pub pool_cap: usize,
    pub pool_rate: u64,
}

/// result of one decoder: Ok((consumed, canonical value rendering)) or Err(())
pub type DecRes = Result<(usize, String), ()>;

pub fn dec_validate(bo: ByteOrder, off: usize, buf: &[u8], ty: &Ty) -> Result<usize, ()> {
    let st = ty.to_sig_type();
    guard(|| validate_marshalled(bo, off, buf, &st).map_err(|_| ())).unwrap_or(Err(()))
}

pub fn dec_param(bo: ByteOrder, off: usize, buf: &[u8], ty: &Ty) -> DecRes {
    let st = ty.to_sig_type();
    guard(|| {
        let mut ctx = UnmarshalContext::new(&[], bo, buf, off);
        match rustbus::wire::unmarshal::container::unmarshal_with_sig(&st, &mut ctx) {
            Ok(p) => {
                let used = buf.len() - ctx.remainder().len() - off;
                let v = from_param(&p, &|_| 0).canon(ty);
                Ok((used, v.show()))
            }
            Err(_) => Err(()),
        }
    })
    .unwrap_or(Err(()))
}

/// the typed decoder of catalogue type `T` as a plain function: (consumed, canonical rendering of the value) or reject
pub fn typed_dec_fn<T: Cat>(bo: ByteOrder, off: usize, buf: &[u8]) -> DecRes {
    let ty = T::ty();
    dec_typed::<T>(bo, off, buf).map(|(n, b)| (n, b.to_val().canon(&ty).show()))
}

pub fn dec_typed<T: Cat>(bo: ByteOrder, off: usize, buf: &[u8]) -> Result<(usize, T), ()> {
    guard(|| {
        let mut ctx = UnmarshalContext::new(&[], bo, buf, off);
        match T::unmarshal(&mut ctx) {
            Ok(v) => Ok((buf.len() - ctx.remainder().len() - off, v)),
            Err(_) => Err(()),
        }
    })
    .unwrap_or(Err(()))
}

/// runs a closure that calls into rustbus; a panic is reported as Err(message)
pub fn guard<R>(f: impl FnOnce() -> R) -> Result<R, String> {
    match std::panic::catch_unwind(std::panic::AssertUnwindSafe(f)) {
        Ok(r) => Ok(r),
        Err(e) => Err(e
            .downcast_ref::<String>()
            .cloned()
            .or_else(|| e.downcast_ref::<&str>().map(|s| s.to_string()))
            .unwrap_or_else(|| "panic".into())),
    }
}

fn show_dec(r: &DecRes) -> String {
    match r {
        Ok((n, v)) => format!("ok {} {}", n, v),
        Err(()) => "reject".into(),
    }
}

impl<'a> Wire<'a> {
    /// compare the decoders on one input; emits one `w.dec` case. `typed` is the typed decoder's
    /// result if the type is in the catalogue.
    pub fn dec_case(&mut self, bo: ByteOrder, off: usize, ty: &Ty, buf: &[u8], typed: Option<DecRes>, nontrivial: bool) {
        let req = format!("w.dec {} {} 0 {} {}", bo_name(bo), off, ty.sig(), hex(buf));
        let v = dec_validate(bo, off, buf, ty);
        let p = dec_param(bo, off, buf, ty);
        // agreement of the decoders among themselves is part of C03 and needs no oracle
        let mut agree = match (&v, &p) {
            (Ok(n), Ok((m, _))) => n == m,
            (Err(()), Err(())) => true,
            _ => false,
        };
        if let Some(t) = &typed {
            agree &= *t == p;
        }
        // Raw validation does not look at descriptor indices, unmarshalling (0 descriptors attached here) refuses every
        // one: "validate accepts, the unmarshallers reject" is the specified behaviour when a descriptor is decoded
        // (type `h` in the signature, or - after a corruption - in a variant's signature bytes). The unmarshallers'
        // verdict is compared with the model under `w.dec` (nfds = 0), the validator's under `w.val`.
        let fd_dependent = v.is_ok() && p.is_err() && typed.as_ref().map(|t| t.is_err()).unwrap_or(true)
            && (ty.sig().contains('h') || (ty.sig().contains('v') && buf.contains(&0x68)));
        if fd_dependent {
            agree = true;
            self.out.hit("dec_fd_dependent");
            let vreq = format!("w.val {} {} {} {}", bo_name(bo), off, ty.sig(), hex(buf));
            self.out.case(&vreq, &format!("ok {}", v.unwrap()), nontrivial);
        }
        let obs = if agree {
            show_dec(&p)
        } else {
            format!(
                "DISAGREE validate={} param={} typed={}",
                v.map(|n| n.to_string()).unwrap_or("reject".into()),
                show_dec(&p),
                typed.as_ref().map(show_dec).unwrap_or("n/a".into())
            )
        };
        if !agree && self.mode == Mode::C03 {
            self.out.violation(&req, &format!("decoders disagree on the same bytes: {}", obs));
        }
        self.out.hit(if p.is_ok() { "dec_accept" } else { "dec_reject" });
        self.out.case(&req, &obs, nontrivial);
    }

    pub fn run_typed<T: Cat>(&mut self) {
        let ty = T::ty();
        let sig = ty.sig();
        self.out.hit(&format!("type_depth_{}", ty.depth()));
        let is_container = matches!(ty, Ty::Array(_) | Ty::Dict(_, _));
        for round in 0..self.values_per_type + 1 {
            // last round: a LONG outermost container (65..80 elements), one byte order, one phase
            let long = round == self.values_per_type;
            if long && !is_container {
                break;
            }
            let v = T::gen(&mut self.rng, if long { crate::typed::LONG + 1 } else { 2 });
            let val = v.to_val();
            let vs = val.show();
            let orders: Vec<ByteOrder> = if long { vec![*self.rng.pick(&ORDERS)] } else { ORDERS.to_vec() };
            let phases: Vec<usize> = if long { vec![*self.rng.pick(&self.phases)] } else { self.phases.clone() };
            if long {
                self.out.hit("long_container");
            }
            for bo in orders {
                for &phase in &phases {
                    // ---- marshal at absolute offset `phase` (pre-filled context) -----------------
                    let mut buf = vec![0u8; phase];
                    let mut fds = Vec::new();
                    let r = guard(|| {
                        let mut ctx = MarshalContext { buf: &mut buf, fds: &mut fds, byteorder: bo };
                        v.marshal(&mut ctx)
                    });
                    let ok = matches!(r, Ok(Ok(())));
                    let nontrivial = !matches!(ty, Ty::Base(_)) || buf.len() > phase + 8 || (phase % 8 != 0);
                    if self.mode != Mode::C03 {
                        let req = format!("w.enc {} {} {} {}", bo_name(bo), phase, sig, vs);
                        let obs = if ok { hex(&buf[phase..]) } else { "refuse".to_string() };
                        if !ok {
                            self.out.violation(&req, &format!("marshalling a valid value failed: {:?}", r));
                        }
                        self.out.hit(&format!("phase_{}", phase % 8));
                        self.out.case(&req, &obs, nontrivial);
                    }
                    if !ok {
                        continue;
                    }
                    // ---- decode it again, a sentinel byte follows ------------------------------
                    let mut full = buf.clone();
                    full.push(0x5A);
                    let t = dec_typed::<T>(bo, phase, &full);
                    if self.mode == Mode::C01 {
                        let req = format!("w.dec {} {} 0 {} {}", bo_name(bo), phase, sig, hex(&full));
                        match &t {
                            Ok((n, back)) => {
                                if !back.same(&v) {
                                    self.out.violation(&req, &format!("typed round trip changed the value: wrote {} read {}", vs, back.to_val().show()));
                                }
                                if *n != buf.len() - phase {
                                    self.out.violation(&req, &format!("reading consumed {} bytes, writing produced {}", n, buf.len() - phase));
                                }
                            }
                            Err(()) => self.out.violation(&req, &format!("typed unmarshal rejects what typed marshal wrote for {}", vs)),
                        }
                    }
                    let typed_res: DecRes = t.map(|(n, b)| (n, b.to_val().canon(&ty).show()));
                    if self.mode != Mode::C02 {
                        self.dec_case(bo, phase, &ty, &full, Some(typed_res), nontrivial);
                    }
                    // a few encodings of EVERY catalogue type go into the corruption pool (not just the first types)
                    if self.pool.len() < self.pool_cap && full.len() <= 96 && self.rng.chance(1, self.pool_rate) {
                        self.pool.push((bo, phase, ty.clone(), full.clone(), Some(typed_dec_fn::<T> as fn(ByteOrder, usize, &[u8]) -> DecRes)));
                    }
                }
                // ---- whole body: `phase` byte parameters, the value, a sentinel -----------------
                if self.mode == Mode::C01 {
                    let phase = *self.rng.pick(&self.phases);
                    self.body_case::<T>(bo, phase, &v, &val);
                }
            }
        }
    }

    fn body_case<T: Cat>(&mut self, bo: ByteOrder, phase: usize, v: &T, val: &Val) {
        let mut msg = MarshalledMessage::with_byteorder(bo);
        for i in 0..phase {
            msg.body.push_param(i as u8).unwrap();
        }
        let r = guard(|| msg.body.push_param(v));
        if !matches!(r, Ok(Ok(()))) {
            self.out.violation("w.body", &format!("push_param failed for {}: {:?}", val.show(), r));
            return;
        }
        msg.body.push_param(0xDEADBEEFu32).unwrap();
        let ty = T::ty();
        let tys = format!("{}{}u", "y".repeat(phase), ty.sig());
        let req = format!("w.body {} 0 {} {}", bo_name(bo), tys, hex(msg.get_buf()));
        if msg.get_sig() != tys {
            self.out.violation(&req, &format!("body signature is {:?}, pushed values have {:?}", msg.get_sig(), tys));
        }
        let body = &msg.body;
        let res = guard(|| {
            let mut p = body.parser();
            for i in 0..phase {
                let b: u8 = p.get().map_err(|e| format!("prefix byte {}: {:?}", i, e))?;
                if b != i as u8 {
                    return Err(format!("prefix byte {} read as {}", i, b));
                }
            }
            let back: T = p.get().map_err(|e| format!("get::<T>: {:?}", e))?;
            if !back.same(v) {
                return Err(format!("value changed: wrote {} read {}", val.show(), back.to_val().show()));
            }
            let s: u32 = p.get().map_err(|e| format!("value after it: {:?}", e))?;
            if s != 0xDEADBEEF {
                return Err(format!("value after it read as {:x}", s));
            }
            if p.sigs_left() != 0 {
                return Err("signature not fully consumed".into());
            }
            Ok(back.to_val())
        });
        match &res {
            Ok(Ok(_)) => {}
            other => self.out.violation(&req, &format!("body round trip failed: {:?}", other)),
        }
        if let Ok(Err(e)) = guard(|| body.validate()) {
            self.out.violation(&req, &format!("body built by the typed API fails validate(): {:?}", e));
        }
        let mut vals: Vec<String> = (0..phase).map(|i| i.to_string()).collect();
        match res {
            Ok(Ok(back)) => vals.push(back.canon(&ty).show()),
            _ => vals.push("?".into()),
        }
        vals.push((0xDEADBEEFu32).to_string());
        self.out.hit("body_case");
        self.out.case(&req, &format!("ok {}", vals.join(" ")), true);
    }

    /// dynamic Param API with random types of arbitrary depth
    pub fn run_param_stream(&mut self, n: usize, max_depth: usize) {
        for _ in 0..n {
            let d = self.rng.range(0, max_depth as u64) as usize;
            let ty = gen_ty(&mut self.rng, d, false);
            let mut fdc = 0;
            let long = matches!(ty, Ty::Array(_) | Ty::Dict(_, _)) && self.rng.chance(1, 12);
            if long {
                self.out.hit("long_container_param");
            }
            let val = gen_val(&mut self.rng, &ty, if long { crate::typed::LONG + 2 } else { 3 }, &mut fdc);
            let Some(param) = to_param(&ty, &val, &[]) else { continue };
            // the order in which the Param's maps iterate is the order on the wire
            let val = from_param(&param, &|_| 0);
            let bo = *self.rng.pick(&ORDERS);
            let phase = *self.rng.pick(&self.phases);
            let mut buf = vec![0u8; phase];
            let mut fds = Vec::new();
            let r = guard(|| {
                let mut ctx = MarshalContext { buf: &mut buf, fds: &mut fds, byteorder: bo };
                rustbus::wire::marshal::container::marshal_param(&param, &mut ctx)
            });
            let ok = matches!(r, Ok(Ok(())));
            self.out.hit(&format!("param_depth_{}", ty.depth().min(9)));
            if self.mode != Mode::C03 {
                let req = format!("w.enc {} {} {} {}", bo_name(bo), phase, ty.sig(), val.show());
                let obs = if ok { hex(&buf[phase..]) } else { "refuse".to_string() };
                if !ok {
                    self.out.violation(&req, &format!("marshal_param of a valid value failed: {:?}", r));
                }
                self.out.case(&req, &obs, true);
            }
            if !ok {
                continue;
            }
            let mut full = buf.clone();
            full.push(0x5A);
            if self.mode != Mode::C02 {
                self.dec_case(bo, phase, &ty, &full, None, true);
            }
            if self.pool.len() < self.pool_cap && full.len() <= 96 && self.rng.chance(1, 3) {
                self.pool.push((bo, phase, ty.clone(), full, None));
            }
        }
    }

    /// SIGNATURE LIMITS INSIDE VARIANTS: a variant writes the signature of its content; that signature is limited to 255
    /// characters and 32 levels of array / struct nesting like any other. Contents at and just over both limits, through
    /// the dynamic API (a `params::Variant`), at top level and nested; compared with the model (`w.enc` is the proved
    /// specification: it refuses the ones over the limit).
    pub fn run_variant_sig_limits(&mut self) {
        let mut cases: Vec<(Ty, Val)> = Vec::new();
        for n in [252usize, 253, 254, 255, 300] {
            // "(" + n * "y" + ")" has n + 2 characters
            cases.push((Ty::Struct(vec![Ty::Base('y'); n]), Val::Struct(vec![Val::Num(1); n])));
        }
        for n in [31usize, 32, 33, 34] {
            let mut ty = Ty::Base('y');
            let mut val = Val::Num(7);
            for _ in 0..n {
                ty = Ty::Array(Box::new(ty));
                val = Val::Arr(vec![val]);
            }
            cases.push((ty, val));
        }
        for n in [31usize, 32, 33] {
            let mut ty = Ty::Base('u');
            let mut val = Val::Num(7);
            for _ in 0..n {
                ty = Ty::Struct(vec![ty]);
                val = Val::Struct(vec![val]);
            }
            cases.push((ty, val));
        }
        // a signature VALUE of 254 / 255 characters (and one of 256, which has no encoding)
        for n in [254usize, 255, 256] {
            let text = "y".repeat(n);
            let ty = Ty::Base('g');
            let val = Val::Str(text.into_bytes());
            if let Some(param) = to_param(&ty, &val, &[]) {
                for bo in ORDERS {
                    for phase in [0usize, 3] {
                        let mut buf = vec![0u8; phase];
                        let mut fds = Vec::new();
                        let r = guard(|| {
                            let mut ctx = MarshalContext { buf: &mut buf, fds: &mut fds, byteorder: bo };
                            rustbus::wire::marshal::container::marshal_param(&param, &mut ctx)
                        });
                        let ok = matches!(r, Ok(Ok(())));
                        self.out.hit(if ok { "signature_value_limit_emitted" } else { "signature_value_limit_refused" });
                        if self.mode == Mode::C02 {
                            let req = format!("w.enc {} {} {} {}", bo_name(bo), phase, ty.sig(), val.show());
                            self.out.case(&req, &if ok { hex(&buf[phase..]) } else { "refuse".to_string() }, true);
                        } else if ok {
                            let mut full = buf.clone();
                            full.push(0x5A);
                            self.dec_case(bo, phase, &ty, &full, None, true);
                        }
                    }
                }
            }
        }
        for (cty, cval) in cases {
            let inner = Val::Variant(cty.clone(), Box::new(cval));
            let shapes: Vec<(Ty, Val)> = vec![
                (Ty::Variant, inner.clone()),
                (Ty::Struct(vec![Ty::Base('y'), Ty::Variant]), Val::Struct(vec![Val::Num(9), inner.clone()])),
                (Ty::Array(Box::new(Ty::Variant)), Val::Arr(vec![inner.clone()])),
            ];
            for (ty, val) in shapes {
                let Some(param) = to_param(&ty, &val, &[]) else { continue };
                for bo in ORDERS {
                    let phase = (cty.sig().len() + ty.sig().len()) % 8;
                    let mut buf = vec![0u8; phase];
                    let mut fds = Vec::new();
                    let r = guard(|| {
                        let mut ctx = MarshalContext { buf: &mut buf, fds: &mut fds, byteorder: bo };
                        rustbus::wire::marshal::container::marshal_param(&param, &mut ctx)
                    });
                    let ok = matches!(r, Ok(Ok(())));
                    self.out.hit(if ok { "variant_sig_limit_emitted" } else { "variant_sig_limit_refused" });
                    if self.mode == Mode::C02 {
                        let req = format!("w.enc {} {} {} {}", bo_name(bo), phase, ty.sig(), val.show());
                        let obs = if ok { hex(&buf[phase..]) } else { "refuse".to_string() };
                        self.out.case(&req, &obs, true);
                    } else if ok {
                        // what was emitted is read back by the three decoders (a 255-character signature is the longest there is)
                        let mut full = buf.clone();
                        full.push(0x5A);
                        self.dec_case(bo, phase, &ty, &full, None, true);
                    }
                }
            }
        }
    }

    /// DEEP NESTING: towers of containers written by hand (independent of the library's marshallers), total depth
    /// 60..68 around the limit of 64, in six outer shapes, through raw validation, the Param unmarshaller and the typed
    /// API: all three must accept exactly up to 64 levels (one per array, struct and variant, two per dict) and agree.
    pub fn run_deep(&mut self) {
        use crate::typed::AnyVar;
        use std::collections::HashMap;
        fn u32b(bo: ByteOrder, v: u32) -> [u8; 4] {
            if bo == ByteOrder::LittleEndian { v.to_le_bytes() } else { v.to_be_bytes() }
        }
        // k variant levels around one byte: depth k
        fn vtower(k: usize) -> Vec<u8> {
            let mut b = Vec::new();
            for _ in 1..k {
                b.extend_from_slice(&[1, b'v', 0]);
            }
            b.extend_from_slice(&[1, b'y', 0, 7]);
            b
        }
        // alternating variant / one-element `av` array, `pairs` times, then a variant holding a byte, starting at absolute
        // offset `off`: depth 2 * pairs + 1
        fn mixed(bo: ByteOrder, off: usize, pairs: usize) -> Vec<u8> {
            if pairs == 0 {
                return vec![1, b'y', 0, 7];
            }
            let mut b = vec![2, b'a', b'v', 0];
            while (off + b.len()) % 4 != 0 {
                b.push(0);
            }
            let inner = mixed(bo, off + b.len() + 4, pairs - 1);
            b.extend_from_slice(&u32b(bo, inner.len() as u32));
            b.extend_from_slice(&inner);
            b
        }
        for bo in ORDERS {
            for total in 60..=68usize {
                // (signature, bytes, typed decoder)
                let mut cases: Vec<(&str, Vec<u8>, Box<dyn Fn(&[u8]) -> Result<usize, ()>>)> = Vec::new();
                macro_rules! typed {
                    ($t:ty) => {
                        Box::new(move |buf: &[u8]| {
                            guard(|| {
                                let mut ctx = UnmarshalContext::new(&[], bo, buf, 0);
                                match <$t as rustbus::Unmarshal>::unmarshal(&mut ctx) {
                                    Ok(_) => Ok(buf.len() - ctx.remainder().len()),
                                    Err(_) => Err(()),
                                }
                            })
                            .unwrap_or(Err(()))
                        })
                    };
                }
                // v: tower of `total` variants
                cases.push(("v", vtower(total), typed!(AnyVar)));
                // the Param API's own variant type read through the typed API (`get::<params::Variant>()`), alone and inside
                // typed containers
                cases.push(("v", vtower(total), typed!(rustbus::params::Variant)));
                {
                    let t = vtower(total - 1);
                    let mut b = u32b(bo, t.len() as u32).to_vec();
                    b.extend_from_slice(&t);
                    cases.push(("av", b, typed!(Vec<rustbus::params::Variant>)));
                    let mut b = vec![9u8];
                    b.extend_from_slice(&vtower(total - 1));
                    cases.push(("(yv)", b, typed!((u8, rustbus::params::Variant))));
                }
                // av: one element
                let t = vtower(total - 1);
                let mut b = u32b(bo, t.len() as u32).to_vec();
                b.extend_from_slice(&t);
                cases.push(("av", b, typed!(Vec<AnyVar>)));
                // (yv)
                let mut b = vec![9u8];
                b.extend_from_slice(&vtower(total - 1));
                cases.push(("(yv)", b, typed!((u8, AnyVar))));
                // a{sv}: dict = 2 levels
                let t = vtower(total - 2);
                let mut e = vec![1, 0, 0, 0, b'k', 0];
                if bo == ByteOrder::BigEndian {
                    e[0] = 0;
                    e[3] = 1;
                }
                e.extend_from_slice(&t);
                let mut b = u32b(bo, e.len() as u32).to_vec();
                b.extend_from_slice(&[0, 0, 0, 0]);
                b.extend_from_slice(&e);
                cases.push(("a{sv}", b, typed!(HashMap<String, AnyVar>)));
                // a(yv): array + struct
                let t = vtower(total - 2);
                let mut b = u32b(bo, (t.len() + 1) as u32).to_vec();
                b.extend_from_slice(&[0, 0, 0, 0, 9]);
                b.extend_from_slice(&t);
                cases.push(("a(yv)", b, typed!(Vec<(u8, AnyVar)>)));
                // aav
                let t = vtower(total - 2);
                let mut b = u32b(bo, (t.len() + 4) as u32).to_vec();
                b.extend_from_slice(&u32b(bo, t.len() as u32));
                b.extend_from_slice(&t);
                cases.push(("aav", b, typed!(Vec<Vec<AnyVar>>)));
                // v holding av holding v ... (odd totals only)
                if total % 2 == 1 {
                    cases.push(("v", mixed(bo, 0, (total - 1) / 2), typed!(AnyVar)));
                }
                for (sig, mut buf, typed) in cases {
                    buf.push(0x5A);
                    let ty = Ty::from_sig_type(&rustbus::signature::Type::parse_description(sig).unwrap()[0]);
                    let req = format!("w.dec {} 0 0 {} {}", bo_name(bo), sig, hex(&buf));
                    let v = dec_validate(bo, 0, &buf, &ty);
                    let p = dec_param(bo, 0, &buf, &ty);
                    let t = typed(&buf);
                    let agree = match (&v, &p, &t) {
                        (Ok(a), Ok((b, _)), Ok(c)) => a == b && b == c,
                        (Err(()), Err(()), Err(())) => true,
                        _ => false,
                    };
                    let show = |r: &Result<usize, ()>| r.map(|n| n.to_string()).unwrap_or("reject".into());
                    let obs = if agree {
                        show_dec(&p)
                    } else {
                        format!("DISAGREE validate={} param={} typed={}", show(&v), show(&p.as_ref().map(|x| x.0).map_err(|_| ())), show(&t))
                    };
                    if !agree {
                        self.out.violation(&req, &format!("decoders disagree on a value nested {} levels deep ({}): {}", total, sig, obs));
                    }
                    // directly: 64 levels are legal, 65 are not
                    if total <= 64 && v.is_err() {
                        self.out.violation(&req, &format!("a value nested {} levels deep ({}) is refused", total, sig));
                    }
                    if total > 64 && (v.is_ok() || p.is_ok() || t.is_ok()) && agree {
                        self.out.violation(&req, &format!("a value nested {} levels deep ({}) is accepted", total, sig));
                    }
                    self.out.hit(&format!("deep_{}", if total <= 64 { "le64" } else { "gt64" }));
                    self.out.case(&req, &obs, true);
                }
            }
        }
    }

    /// INVALID STRING-LIKES in place: a valid encoding (built through the Param marshaller with a placeholder of the same
    /// length) gets its string / object path / signature bytes replaced by an invalid text of every class - bad UTF-8,
    /// embedded NUL, every class of invalid object path, every class of invalid signature (incl. a variant as dict key,
    /// nesting 33 deep) - at top level, in a struct, an array, a variant and a dict value: all decoders must reject.
    pub fn run_bad_strings(&mut self) {
        let a33 = format!("{}y", "a".repeat(33));
        let s33 = format!("{}y{}", "(".repeat(33), ")".repeat(33));
        let d33 = format!("{}y{}", "a{s".repeat(33), "}".repeat(33));
        let bad_sigs: Vec<Vec<u8>> = ["a{vs}", "a{vv}", "()", "a", "{ss}", "(", "a{s}", "a{sss}", "z", "(i", "a{(i)s}", "aa{vi}", "a{}", "y)", "a{sv", "(a{sv}u", "a{a{ss}u}", "e", "r", "y y", "a{ys}}"]
            .iter()
            .map(|x| x.as_bytes().to_vec())
            .chain([a33.into_bytes(), s33.into_bytes(), d33.into_bytes(), vec![b'y', 0, b'y'], vec![0xc3, 0xa9]])
            .collect();
        let bad_paths: Vec<Vec<u8>> = ["a", "/a/", "//", "/a//b", "/a-b", "/a b", "/a.b", "a/b", "/a/b/"]
            .iter()
            .map(|x| x.as_bytes().to_vec())
            .chain([vec![b'/', 0xc3, 0xa9], vec![b'/', b'a', 0, b'b'], vec![b'/', 0xff]])
            .collect();
        let bad_strs: Vec<Vec<u8>> = vec![vec![b'a', 0, b'b'], vec![0], vec![0xff], vec![0xc0, 0x80], vec![0xed, 0xa0, 0x80], vec![b'a', b'b', 0xe2, 0x82], vec![0xf4, 0x90, 0x80, 0x80], vec![0xf8, 0x88, 0x80, 0x80, 0x80], vec![0x80]];
        let kinds: [(char, &Vec<Vec<u8>>); 3] = [('g', &bad_sigs), ('o', &bad_paths), ('s', &bad_strs)];
        for (c, bads) in kinds {
            for bad in bads.iter() {
                let n = bad.len();
                if n == 0 || n > 250 {
                    continue;
                }
                // a valid placeholder of the same length and type, made of a byte that occurs nowhere else
                let placeholder: Vec<u8> = match c {
                    'g' => vec![b'd'; n],
                    'o' => std::iter::once(b'/').chain(std::iter::repeat(b'Q').take(n - 1)).collect(),
                    _ => vec![b'Q'; n],
                };
                let leaf_ty = Ty::Base(c);
                let leaf = Val::Str(placeholder.clone());
                let shapes: Vec<(Ty, Val)> = vec![
                    (leaf_ty.clone(), leaf.clone()),
                    (Ty::Struct(vec![Ty::Base('y'), leaf_ty.clone()]), Val::Struct(vec![Val::Num(7), leaf.clone()])),
                    (Ty::Array(Box::new(leaf_ty.clone())), Val::Arr(vec![leaf.clone()])),
                    (Ty::Variant, Val::Variant(leaf_ty.clone(), Box::new(leaf.clone()))),
                    (Ty::Dict('y', Box::new(leaf_ty.clone())), Val::Arr(vec![Val::Struct(vec![Val::Num(1), leaf.clone()])])),
                ];
                for (ty, val) in shapes {
                    let Some(param) = to_param(&ty, &val, &[]) else { continue };
                    let bo = *self.rng.pick(&ORDERS);
                    let phase = *self.rng.pick(&self.phases);
                    let mut buf = vec![0u8; phase];
                    let mut fds = Vec::new();
                    let r = guard(|| {
                        let mut ctx = MarshalContext { buf: &mut buf, fds: &mut fds, byteorder: bo };
                        rustbus::wire::marshal::container::marshal_param(&param, &mut ctx)
                    });
                    if !matches!(r, Ok(Ok(()))) {
                        continue;
                    }
                    // replace the (single) occurrence of the placeholder text
                    let hits: Vec<usize> = (phase..buf.len().saturating_sub(n) + 1).filter(|i| buf[*i..*i + n] == placeholder[..]).collect();
                    let at = match (c, hits.as_slice()) {
                        (_, [one]) => *one,
                        // a signature placeholder "dddd" inside a variant also appears as ... no: the variant's own signature is "g"
                        _ => continue,
                    };
                    buf[at..at + n].copy_from_slice(bad);
                    buf.push(0x5A);
                    let req = format!("w.dec {} {} 0 {} {}", bo_name(bo), phase, ty.sig(), hex(&buf));
                    let v = dec_validate(bo, phase, &buf, &ty);
                    let p = dec_param(bo, phase, &buf, &ty);
                    if v.is_ok() || p.is_ok() {
                        self.out.violation(&req, &format!("a value of type {} with the invalid content {:?} was accepted (validate: {}, unmarshal: {})", c, String::from_utf8_lossy(bad), v.is_ok(), p.is_ok()));
                    }
                    self.out.hit(&format!("bad_string_{}", c));
                    self.dec_case(bo, phase, &ty, &buf, None, true);
                }
            }
        }
    }

    /// REFERENCES: the typed API also marshals `&T`, `&&T` and containers of references (`Vec<&u64>`, `&[&f64]`,
    /// `Vec<&String>`): they must give the bytes of the owned value (never take the raw-copy fast path over pointers).
    pub fn run_refs(&mut self) {
        macro_rules! elem {
            ($t:ty) => {{
                for _ in 0..4 {
                    let owned: Vec<$t> = <Vec<$t> as Cat>::gen(&mut self.rng, 1);
                    let refs: Vec<&$t> = owned.iter().collect();
                    let refrefs: Vec<&&$t> = refs.iter().collect();
                    let ty = <Vec<$t> as Cat>::ty();
                    let vs = owned.to_val().show();
                    for bo in ORDERS {
                        let phase = *self.rng.pick(&self.phases);
                        let mut enc = |f: &dyn Fn(&mut MarshalContext) -> Result<(), rustbus::wire::errors::MarshalError>| -> Option<Vec<u8>> {
                            let mut buf = vec![0u8; phase];
                            let mut fds = Vec::new();
                            let r = guard(|| {
                                let mut ctx = MarshalContext { buf: &mut buf, fds: &mut fds, byteorder: bo };
                                f(&mut ctx)
                            });
                            if matches!(r, Ok(Ok(()))) { Some(buf[phase..].to_vec()) } else { None }
                        };
                        let b_owned = enc(&|ctx| owned.marshal(ctx));
                        let variants: Vec<(&str, Option<Vec<u8>>)> = vec![
                            ("Vec<&T>", enc(&|ctx| refs.marshal(ctx))),
                            ("&[&T]", enc(&|ctx| refs.as_slice().marshal(ctx))),
                            ("Vec<&&T>", enc(&|ctx| refrefs.marshal(ctx))),
                            ("&Vec<T>", enc(&|ctx| (&owned).marshal(ctx))),
                            ("&&[T]", enc(&|ctx| (&owned.as_slice()).marshal(ctx))),
                        ];
                        for (name, b) in variants {
                            let req = format!("w.enc {} {} {} {}", bo_name(bo), phase, ty.sig(), vs);
                            if b != b_owned {
                                self.out.violation(&req, &format!("{} of these elements marshals to {} but the owned Vec<T> to {}", name, b.as_ref().map(|x| hex(x)).unwrap_or("refuse".into()), b_owned.as_ref().map(|x| hex(x)).unwrap_or("refuse".into())));
                            }
                            self.out.hit("reference_container");
                            self.out.case(&req, &b.map(|x| hex(&x)).unwrap_or("refuse".into()), true);
                        }
                    }
                }
            }};
        }
        elem!(u8);
        elem!(u16);
        elem!(i16);
        elem!(u32);
        elem!(i32);
        elem!(u64);
        elem!(i64);
        elem!(f64);
        elem!(bool);
        elem!(String);
    }

    /// all single-fault corruptions of the pooled valid encodings: every byte +1, -1, +4, -4, ^0x80, :=0, :=0xFF and
    /// truncation at every position; when a message has more faults than `per_message_cap` an evenly spread random
    /// subset over the WHOLE message is taken (never just its first bytes)
    pub fn run_corruptions(&mut self, per_message_cap: usize) {
        let pool = std::mem::take(&mut self.pool);
        for (bo, off, ty, full, typed) in &pool {
            let start = *off;
            let mut faults: Vec<(usize, u8)> = Vec::new();
            for i in start..full.len() {
                for kind in 0..8u8 {
                    faults.push((i, kind));
                }
            }
            if faults.len() > per_message_cap {
                // partial Fisher-Yates: the first `per_message_cap` entries become a uniform sample
                for k in 0..per_message_cap {
                    let j = k + self.rng.below((faults.len() - k) as u64) as usize;
                    faults.swap(k, j);
                }
                faults.truncate(per_message_cap);
            }
            for (i, kind) in faults {
                let mut m = full.clone();
                match kind {
                    0 => m[i] = m[i].wrapping_add(1),
                    1 => m[i] ^= 0x80,
                    2 => {
                        if m[i] == 0 {
                            continue;
                        }
                        m[i] = 0
                    }
                    3 => {
                        if m[i] == 0xFF {
                            continue;
                        }
                        m[i] = 0xFF
                    }
                    4 => m[i] = m[i].wrapping_sub(1),
                    5 => m[i] = m[i].wrapping_add(4),
                    6 => m[i] = m[i].wrapping_sub(4),
                    _ => m.truncate(i),
                }
                self.out.hit("corruption");
                // the typed decoder of the catalogue type the encoding came from judges the corrupted bytes too
                // (a typed variant wrapper fixes the CONTENT type of its variant: when the fault changes the variant's
                // signature the typed decoder rightly refuses what the generic ones accept - only its acceptances count then)
                let mut t = typed.map(|f| f(*bo, *off, &m));
                if ty.sig().contains('v') && matches!(t, Some(Err(()))) {
                    t = None;
                }
                if t.is_some() {
                    self.out.hit("corruption_typed_decoder_too");
                }
                self.dec_case(*bo, *off, ty, &m, t, true);
            }
            // other byte order, other offset phase: the same bytes must be re-judged
            let other = if *bo == ByteOrder::LittleEndian { ByteOrder::BigEndian } else { ByteOrder::LittleEndian };
            let mut t = typed.map(|f| f(other, *off, full));
            if ty.sig().contains('v') && matches!(t, Some(Err(()))) {
                t = None;
            }
            self.dec_case(other, *off, ty, full, t, true);
        }
        self.pool = pool;
    }

    /// values that have no encoding: a NUL in a string, an invalid object path / signature, at any nesting
    /// position of a random Param tree, and through the typed API; they must be refused and leave no byte
    pub fn run_unencodable(&mut self, n: usize) {
        let mut done = 0;
        let mut tries = 0;
        while done < n && tries < n * 50 {
            tries += 1;
            let d = self.rng.range(0, 4) as usize;
            let ty = gen_ty(&mut self.rng, d, false);
            let mut fdc = 0;
            let val = gen_val(&mut self.rng, &ty, 3, &mut fdc);
            let mut hit = false;
            let pick = self.rng.below(8);
            let mut counter = 0;
            let bad = poison(&ty, &val, pick, &mut counter, &mut hit, &mut self.rng);
            if !hit {
                continue;
            }
            // Strings must stay valid UTF-8 to be expressible as a Param at all
            let Some(param) = to_param(&ty, &bad, &[]) else { continue };
            let bad = from_param(&param, &|_| 0);
            let bo = *self.rng.pick(&ORDERS);
            let phase = *self.rng.pick(&self.phases);
            let mut buf = vec![0xEEu8; phase];
            let mut fds = Vec::new();
            let r = guard(|| {
                let mut ctx = MarshalContext { buf: &mut buf, fds: &mut fds, byteorder: bo };
                rustbus::wire::marshal::container::marshal_param(&param, &mut ctx)
            });
            let req = format!("w.enc {} {} {} {}", bo_name(bo), phase, ty.sig(), bad.show());
            let refused = matches!(r, Ok(Err(_)));
            if !refused {
                self.out.violation(&req, &format!("a value without a valid encoding was marshalled: {:?} -> {}", r.map(|x| x.is_ok()), hex(&buf[phase..])));
            }
            // through the body API nothing may be left behind
            let mut msg = MarshalledMessage::with_byteorder(bo);
            msg.body.push_param(7u8).unwrap();
            let before = (msg.get_buf().to_vec(), msg.get_sig().to_string());
            let r2 = guard(|| msg.body.push_old_param(&param));
            if !matches!(r2, Ok(Err(_))) || msg.get_buf() != &before.0[..] || msg.get_sig() != before.1 {
                self.out.violation(&req, "push_old_param of an unencodable value did not fail cleanly (bytes or signature left behind)");
            }
            self.out.hit("unencodable_param");
            self.out.case(&req, if refused { "refuse" } else { "emitted" }, true);
            done += 1;
        }
        // typed API: &str / String with NUL at every position, alone and nested: "abc" at three phases in both byte orders,
        // and every string of 1..=26 bytes with its NUL at every position (a scan that works on words or blocks must not
        // skip the tail or the seam)
        let mut nul_strings: Vec<(String, Vec<ByteOrder>, Vec<usize>)> = Vec::new();
        for pos in 0..4usize {
            let mut s = String::from("abc");
            s.insert(pos, '\0');
            nul_strings.push((s, ORDERS.to_vec(), vec![0, 1, 5]));
        }
        for len in 1..=26usize {
            for pos in 0..len {
                let s: String = (0..len).map(|i| if i == pos { '\0' } else { (b'a' + (i % 26) as u8) as char }).collect();
                nul_strings.push((s, vec![ORDERS[(len + pos) % 2]], vec![(len * 3 + pos) % 8]));
            }
        }
        for (s, orders, phases) in nul_strings {
            for bo in orders {
                for phase in phases.clone() {
                    let cases: Vec<(String, Box<dyn Fn(&mut MarshalContext) -> Result<(), rustbus::wire::errors::MarshalError> + '_>)> = vec![
                        ("s".into(), Box::new(|c| s.as_str().marshal(c))),
                        ("(us)".into(), Box::new(|c| (7u32, s.as_str()).marshal(c))),
                        ("as".into(), Box::new(|c| vec!["ok", s.as_str()].marshal(c))),
                        ("v".into(), Box::new(|c| s.as_str().marshal_as_variant(c))),
                    ];
                    for (sig, f) in cases {
                        let mut buf = vec![0u8; phase];
                        let mut fds = Vec::new();
                        let r = guard(|| {
                            let mut ctx = MarshalContext { buf: &mut buf, fds: &mut fds, byteorder: bo };
                            f(&mut ctx)
                        });
                        let sv = Val::Str(s.as_bytes().to_vec());
                        let val = match sig.as_str() {
                            "s" => sv,
                            "(us)" => Val::Struct(vec![Val::Num(7), sv]),
                            "as" => Val::Arr(vec![Val::Str(b"ok".to_vec()), sv]),
                            _ => Val::Variant(Ty::Base('s'), Box::new(sv)),
                        };
                        let req = format!("w.enc {} {} {} {}", bo_name(bo), phase, sig, val.show());
                        let refused = matches!(r, Ok(Err(_)));
                        if !refused {
                            self.out.violation(&req, "the typed API marshalled a string containing NUL");
                        }
                        self.out.hit("unencodable_typed");
                        self.out.case(&req, if refused { "refuse" } else { "emitted" }, true);
                    }
                }
            }
        }
    }

    /// EXHAUSTIVE SMALL INPUTS: every byte string up to `max_len` over an alphabet of the bytes that matter to a decoder
    /// (0, small lengths / alignments, a letter, a type code, 0xff), under a set of small types, both byte orders, start
    /// offsets 0 and 1: the three decoders against the model and among themselves. Whatever a decoder gets wrong on an input
    /// this short is found with certainty.
    pub fn run_exhaustive_small(&mut self, max_len: usize) {
        let alphabet: [u8; 8] = [0x00, 0x01, 0x02, 0x04, 0x08, 0x61, 0x79, 0xff];
        let types: Vec<Ty> = ["y", "b", "n", "u", "s", "g", "o", "ay", "ab", "an", "as", "v", "(yu)", "(yn)", "a{ys}", "a(yn)"]
            .iter()
            .map(|t| Ty::parse(t).unwrap())
            .collect();
        let mut idx: Vec<usize> = vec![];
        let mut count = 0u64;
        loop {
            let bytes: Vec<u8> = idx.iter().map(|i| alphabet[*i]).collect();
            for ty in &types {
                for bo in ORDERS {
                    // offset 0, and offset 1 behind one byte (another alignment phase)
                    self.dec_case(bo, 0, ty, &bytes, None, true);
                    if !bytes.is_empty() {
                        self.dec_case(bo, 1, ty, &bytes, None, true);
                    }
                    count += 2;
                }
            }
            let mut i = idx.len();
            loop {
                if i == 0 {
                    idx = vec![0; idx.len() + 1];
                    break;
                }
                i -= 1;
                if idx[i] + 1 < alphabet.len() {
                    idx[i] += 1;
                    for j in i + 1..idx.len() {
                        idx[j] = 0;
                    }
                    break;
                }
            }
            if idx.len() > max_len {
                break;
            }
        }
        self.out.hit_n("exhaustive_small_cases", count);
    }

    pub fn run_random_bytes(&mut self, n: usize) {
        for _ in 0..n {
            let d = self.rng.range(0, 3) as usize;
            let ty = gen_ty(&mut self.rng, d, false);
            let len = self.rng.range(0, 40) as usize;
            let off = self.rng.range(0, 8.min(len as u64)) as usize;
            let buf: Vec<u8> = (0..len)
                .map(|_| if self.rng.chance(2, 3) { *self.rng.pick(&[0u8, 0, 0, 1, 2, 4, 8, 97]) } else { self.rng.next() as u8 })
                .collect();
            let bo = *self.rng.pick(&ORDERS);
            self.out.hit("random_bytes");
            self.dec_case(bo, off, &ty, &buf, None, true);
        }
    }
}

/// replace the `pick`-th string-like leaf by one that has no encoding
fn poison(ty: &Ty, v: &Val, pick: u64, counter: &mut u64, hit: &mut bool, rng: &mut Prng) -> Val {
    match (ty, v) {
        (Ty::Base(c), Val::Str(_)) if "sog".contains(*c) => {
            let mine = *counter == pick;
            *counter += 1;
            if mine && !*hit {
                *hit = true;
                let bad: &str = match c {
                    's' => *rng.pick(&["\0", "a\0", "\0b", "ab\0cd", "abcdefgh\0", "abcdefghijklmno\0p", "01234567\089abcdef", "abcdefghijklmnopqrstuvw\0"]),
                    'o' => *rng.pick(&["", "a", "/a/", "//", "/a b", "/\u{e9}", "/a\0"]),
                    _ => *rng.pick(&["(", "a", "{ss}", "()", "z", "a{vs}", "aaaaaaaaaaaaaaaaaaaaaaaaaaaaaaaaay"]),
                };
                Val::Str(bad.as_bytes().to_vec())
            } else {
                v.clone()
            }
        }
        (Ty::Array(e), Val::Arr(vs)) => Val::Arr(vs.iter().map(|x| poison(e, x, pick, counter, hit, rng)).collect()),
        (Ty::Dict(k, vt), Val::Arr(es)) => Val::Arr(
            es.iter()
                .map(|e| match e {
                    Val::Struct(kv) => Val::Struct(vec![poison(&Ty::Base(*k), &kv[0], pick, counter, hit, rng), poison(vt, &kv[1], pick, counter, hit, rng)]),
                    x => x.clone(),
                })
                .collect(),
        ),
        (Ty::Struct(fs), Val::Struct(vs)) => Val::Struct(fs.iter().zip(vs.iter()).map(|(f, x)| poison(f, x, pick, counter, hit, rng)).collect()),
        (Ty::Variant, Val::Variant(t, x)) => Val::Variant(t.clone(), Box::new(poison(t, x, pick, counter, hit, rng))),
        _ => v.clone(),
    }
}

macro_rules! run_one {
    ($w:expr, $t:ty) => {
        $w.run_typed::<$t>();
    };
}

pub fn run_catalogue(w: &mut Wire) {
    use crate::typed::Var;
    use rustbus::wire::{ObjectPath, SignatureWrapper};
    use std::collections::HashMap;
    macro_rules! m {
        ($t:ty) => {
            run_one!(w, $t)
        };
    }
    crate::for_each_catalogue_type!(m);
}

pub fn run(cfg: &Cfg, mode: Mode) {
    std::panic::set_hook(Box::new(|_| {}));
    let mut out = Out::new(&cfg.outdir);
    {
        let mut w = Wire {
            out: &mut out,
            rng: Prng::new(cfg.seed),
            mode,
            values_per_type: match (mode, cfg.thorough) {
                (Mode::C03, false) => 1,
                (Mode::C03, true) => 4,
                (_, false) => 2,
                (_, true) => 40,
            },
            phases: (0..8).collect(),
            pool: Vec::new(),
            pool_cap: if cfg.thorough { 12000 } else { 2500 },
            // 326 types x values x 2 x 8 encodings: keep about 4 per type (quick) / 12 per type (thorough)
            pool_rate: if cfg.thorough { 50 } else { 4 },
        };
        run_catalogue(&mut w);
        w.run_param_stream(if cfg.thorough { 60_000 } else { 3_000 }, if cfg.thorough { 8 } else { 5 });
        if mode == Mode::C02 {
            w.run_unencodable(if cfg.thorough { 5000 } else { 400 });
            let mut r2 = Prng::new(cfg.seed ^ 0x111f);
            run_illformed_params(&mut w.out, &mut r2);
        }
        w.run_variant_sig_limits();
        if mode != Mode::C03 {
            w.run_refs();
        }
        if mode == Mode::C03 {
            w.run_deep();
            w.run_bad_strings();
            w.run_corruptions(if cfg.thorough { 600 } else { 160 });
            w.run_random_bytes(if cfg.thorough { 300_000 } else { 20_000 });
            w.run_exhaustive_small(if cfg.thorough { 5 } else { 4 });
        }
    }
    out.extra("catalogue_types", crate::catalogue::N_TYPES.to_string());
    let rule = match mode {
        Mode::C01 => "every catalogue type x generated values x {LE,BE} x 8 start offsets: marshal (w.enc), typed+param+validate decode of the bytes followed by a sentinel (w.dec), whole-body round trip with `phase` byte parameters before and a u32 after (w.body); plus random Param trees; distinct by request text; non-trivial = container type, or padding needed, or more than 8 bytes",
        Mode::C02 => "every catalogue type x generated values x {LE,BE} x 8 start offsets marshalled into a pre-filled context and compared byte for byte with the model's encoding; random Param trees (depth up to the bound) through marshal_param; distinct by request text; non-trivial as for C01",
        Mode::C03 => "valid encodings (catalogue + random Param trees) decoded by validate_raw, Param unmarshal and typed unmarshal; single-byte corruptions (+1, -1, +4, -4, ^0x80, :=0, :=0xFF, truncate at every position; an evenly spread sample when over the per-message cap) of pooled encodings up to 96 bytes; containers with 65..80 elements; the same bytes under the other byte order; random byte strings under random signatures; EVERY byte string up to length 4 (thorough: 5) over an 8-byte alphabet under 16 small types, both byte orders, offsets 0 and 1 (exhaustive); distinct by request text",
    };
    out.finish(rule, false);
}

// ---------------------------------------------------------------------------------------------------------------------
// Param trees that have NO valid encoding although every leaf is fine: a variant whose recorded signature is not the type
// of its value, empty structs, containers whose elements differ in type, values nested deeper than 64 levels - and, next
// to them, the deepest values that ARE legal. Direct checks (no model involved for the ill-typed ones, the Val language
// cannot even express most of them): the marshaller refuses without panicking and without leaving bytes behind; whatever
// it does accept, the library's own validator and decoder accept too (what can be sent can be received).
// ---------------------------------------------------------------------------------------------------------------------

fn pv(sig: rustbus::signature::Type, value: rustbus::params::Param<'static, 'static>) -> rustbus::params::Param<'static, 'static> {
    rustbus::params::Param::Container(rustbus::params::Container::Variant(Box::new(rustbus::params::Variant { sig, value })))
}

/// nesting levels a Param needs (array / struct / variant 1, dict 2), independent of the library
fn param_depth(p: &rustbus::params::Param) -> usize {
    use rustbus::params::{Container, Param};
    match p {
        Param::Base(_) => 0,
        Param::Container(c) => match c {
            Container::Array(a) => 1 + a.values.iter().map(param_depth).max().unwrap_or(0),
            Container::ArrayRef(a) => 1 + a.values.iter().map(param_depth).max().unwrap_or(0),
            Container::Struct(f) => 1 + f.iter().map(param_depth).max().unwrap_or(0),
            Container::StructRef(f) => 1 + f.iter().map(param_depth).max().unwrap_or(0),
            Container::Dict(d) => 2 + d.map.values().map(param_depth).max().unwrap_or(0),
            Container::DictRef(d) => 2 + d.map.values().map(param_depth).max().unwrap_or(0),
            Container::Variant(v) => 1 + param_depth(&v.value),
        },
    }
}

pub fn run_illformed_params(out: &mut Out, rng: &mut Prng) {
    use rustbus::params::{Base, Container, Param};
    use rustbus::signature::{self, Type};
    let t = |s: &str| Type::parse_description(s).unwrap().remove(0);
    let u = |n: u32| Param::Base(Base::Uint32(n));
    let s = |x: &str| Param::Base(Base::String(x.to_string()));
    let st = |v: Vec<Param<'static, 'static>>| Param::Container(Container::Struct(v));
    let arr = |e: &str, v: Vec<Param<'static, 'static>>| Param::Container(Container::Array(rustbus::params::Array { element_sig: t(e), values: v }));
    let dict = |k: signature::Base, vt: &str, kv: Vec<(Base<'static>, Param<'static, 'static>)>| {
        Param::Container(Container::Dict(rustbus::params::Dict { key_sig: k, value_sig: t(vt), map: kv.into_iter().collect() }))
    };
    let good_var = |p: Param<'static, 'static>| Param::Container(Container::make_variant(p));
    // (name, value, must be refused)
    let mut cases: Vec<(String, Param<'static, 'static>, bool)> = Vec::new();
    // 1. variants whose signature is not the type of the value
    cases.push(("variant u holding a string".into(), pv(t("u"), s("xy")), true));
    cases.push(("variant s holding a u32".into(), pv(t("s"), u(7)), true));
    cases.push(("variant (us) holding (su)".into(), pv(t("(us)"), st(vec![s("a"), u(1)])), true));
    cases.push(("variant au holding as".into(), pv(t("au"), arr("s", vec![s("a")])), true));
    cases.push(("variant y holding a variant".into(), pv(t("y"), good_var(u(1))), true));
    cases.push(("variant t holding a u32 (same alignment class, other width)".into(), pv(t("t"), u(1)), true));
    cases.push(("struct with an ill-typed variant".into(), st(vec![u(1), pv(t("u"), s("xy"))]), true));
    cases.push(("array of variants, the second ill-typed".into(), arr("v", vec![good_var(u(1)), pv(t("q"), u(2))]), true));
    cases.push(("dict value an ill-typed variant".into(), dict(signature::Base::String, "v", vec![(Base::String("k".into()), pv(t("s"), u(2)))]), true));
    cases.push(("variant in a variant, the inner ill-typed".into(), good_var(st(vec![u(1)])).clone(), false));
    cases.push(("variant v holding an ill-typed variant".into(), pv(t("v"), pv(t("u"), s("z"))), true));
    // 2. empty structs
    cases.push(("empty struct".into(), st(vec![]), true));
    cases.push(("struct holding an empty struct".into(), st(vec![u(1), st(vec![])]), true));
    cases.push(("variant u holding an empty struct".into(), pv(t("u"), st(vec![])), true));
    cases.push(("dict value an empty struct".into(), dict(signature::Base::Uint32, "u", vec![(Base::Uint32(1), st(vec![]))]), true));
    cases.push(("array of u holding an empty struct".into(), arr("u", vec![st(vec![])]), true));
    // 3. containers whose elements differ in type
    cases.push(("array au with a string element".into(), arr("u", vec![u(1), s("x")]), true));
    cases.push(("array a(u) with a (s) element".into(), arr("(u)", vec![st(vec![u(1)]), st(vec![s("x")])]), true));
    cases.push(("dict a{us} with a string key".into(), dict(signature::Base::Uint32, "s", vec![(Base::String("k".into()), s("v"))]), true));
    cases.push(("dict a{us} with a u32 value".into(), dict(signature::Base::Uint32, "s", vec![(Base::Uint32(1), u(2))]), true));
    cases.push(("nested: array of arrays, inner element type differs".into(), arr("au", vec![arr("u", vec![u(1)]), arr("s", vec![s("x")])]), true));
    // 3a. declared type vs value, the less obvious ways: a struct with MORE fields than its declared type (leading fields
    //     matching), an EMPTY array / dict whose own element type is not the declared one
    cases.push(("variant (us) holding (usu)".into(), pv(t("(us)"), st(vec![u(1), s("a"), u(2)])), true));
    cases.push(("variant (us) holding (u)".into(), pv(t("(us)"), st(vec![u(1)])), true));
    cases.push(("array a(u) with a (uu) element".into(), arr("(u)", vec![st(vec![u(1), u(2)])]), true));
    cases.push(("array a(uu) with a (u) element".into(), arr("(uu)", vec![st(vec![u(1)])]), true));
    cases.push(("dict a{s(u)} with a (us) value".into(), dict(signature::Base::String, "(u)", vec![(Base::String("k".into()), st(vec![u(1), s("x")]))]), true));
    cases.push(("variant au holding an empty at".into(), pv(t("au"), arr("t", vec![])), true));
    cases.push(("(u, variant ai holding an empty at)".into(), st(vec![u(1), pv(t("ai"), arr("t", vec![]))]), true));
    cases.push(("array aau with an empty at element".into(), arr("au", vec![arr("t", vec![])]), true));
    cases.push(("dict a{sau} with an empty as value".into(), dict(signature::Base::String, "au", vec![(Base::String("k".into()), arr("s", vec![]))]), true));
    cases.push(("variant a{su} holding an empty a{us}".into(), pv(t("a{su}"), dict(signature::Base::Uint32, "s", vec![])), true));
    cases.push(("variant au holding an empty au".into(), pv(t("au"), arr("u", vec![])), false));
    cases.push(("variant a{su} holding an empty a{su}".into(), pv(t("a{su}"), dict(signature::Base::String, "u", vec![])), false));
    // 3b. every string-like in its borrowed and its owned Param form, bare / as a variant's value / behind a byte in a
    //     struct: legal, and (with the offsets below) at every alignment phase
    for (nm, b) in [
        ("StringRef", Base::StringRef("str")),
        ("String", Base::String("str".into())),
        ("SignatureRef", Base::SignatureRef("a{sv}")),
        ("Signature", Base::Signature("a{sv}".into())),
        ("ObjectPathRef", Base::ObjectPathRef("/a/b")),
        ("ObjectPath", Base::ObjectPath("/a/b".into())),
    ] {
        cases.push((format!("bare {}", nm), Param::Base(b.clone()), false));
        cases.push((format!("variant holding {}", nm), good_var(Param::Base(b.clone())), false));
        cases.push((format!("(y {})", nm), st(vec![Param::Base(Base::Byte(1)), Param::Base(b.clone())]), false));
        cases.push((format!("(q {} y {})", nm, nm), st(vec![Param::Base(Base::Uint16(1)), Param::Base(b.clone()), Param::Base(Base::Byte(1)), Param::Base(b.clone())]), false));
    }
    // 4. depth: towers of variants / variants around arrays, structs, dicts, from well inside to beyond the limit
    for n in [1usize, 2, 31, 32, 33, 62, 63, 64, 65, 66, 80, 128, 300] {
        let mut p = Param::Base(Base::Byte(9));
        for _ in 0..n {
            p = good_var(p);
        }
        cases.push((format!("tower of {} variants", n), p, n > 64));
    }
    for n in [60usize, 61, 62, 63, 64, 65] {
        // EMPTY containers at the limit: their own levels count although nothing is inside (a dict needs two)
        let mut p = dict(signature::Base::String, "s", vec![]);
        let mut q = arr("s", vec![]);
        for _ in 0..n {
            p = good_var(p);
            q = good_var(q);
        }
        cases.push((format!("{} variants around an empty dict", n), p, n + 2 > 64));
        cases.push((format!("{} variants around an empty array", n), q, n + 1 > 64));
    }
    for n in [10usize, 20, 21, 22, 23, 30] {
        // a{sv} rounds: 3 levels each
        let mut p = good_var(Param::Base(Base::Byte(1)));
        for _ in 0..n {
            p = good_var(dict(signature::Base::String, "v", vec![(Base::String("k".into()), p)]));
        }
        cases.push((format!("{} rounds of v:a{{sv}} around a variant", n), p.clone(), param_depth(&p) > 64));
    }
    for n in [15usize, 30, 31, 32, 33, 40] {
        // (v) rounds: 2 levels each
        let mut p = Param::Base(Base::Byte(1));
        for _ in 0..n {
            p = st(vec![good_var(p)]);
        }
        cases.push((format!("{} rounds of (v)", n), p.clone(), param_depth(&p) > 64));
    }
    for n in [20usize, 31, 32, 33] {
        // av rounds with a sibling: the deep path is not the first element
        let mut p = Param::Base(Base::Byte(1));
        for _ in 0..n {
            p = arr("v", vec![good_var(u(0)), good_var(p)]);
        }
        cases.push((format!("{} rounds of av (deep path second)", n), p.clone(), param_depth(&p) > 64));
    }
    for (name, p, must_refuse) in &cases {
        for bo in ORDERS {
            for phase in [0usize, 1, 4, 7] {
                let depth = param_depth(p);
                let tag = format!("{} [{} offset {} depth {}]", name, bo_name(bo), phase, depth);
                let mut buf = vec![0xEEu8; phase];
                let mut fds = Vec::new();
                let r = guard(|| {
                    let mut ctx = MarshalContext { buf: &mut buf, fds: &mut fds, byteorder: bo };
                    rustbus::wire::marshal::container::marshal_param(p, &mut ctx)
                });
                match &r {
                    Err(panic) => out.violation("illformed-param", &format!("marshal_param panicked on {}: {}", tag, panic)),
                    Ok(Ok(())) if *must_refuse => {
                        out.violation("illformed-param", &format!("a value without a valid encoding was marshalled: {} -> {}", tag, hex(&buf[phase..buf.len().min(phase + 40)])))
                    }
                    Ok(Err(e)) if !*must_refuse => out.violation("illformed-param", &format!("a legal value was refused: {}: {:?}", tag, e)),
                    _ => {}
                }
                // through the body API: a refusal leaves nothing behind; an acceptance validates and reads back
                let mut msg = MarshalledMessage::with_byteorder(bo);
                for _ in 0..phase {
                    msg.body.push_param(7u8).unwrap();
                }
                let before = (msg.get_buf().to_vec(), msg.get_sig().to_string());
                let r2 = guard(|| msg.body.push_old_param(p));
                match r2 {
                    Err(panic) => out.violation("illformed-param", &format!("push_old_param panicked on {}: {}", tag, panic)),
                    Ok(Err(_)) => {
                        if msg.get_buf() != &before.0[..] || msg.get_sig() != before.1 {
                            out.violation("illformed-param", &format!("a refused push_old_param left bytes or signature behind: {}", tag));
                        }
                        if !*must_refuse {
                            out.violation("illformed-param", &format!("push_old_param refused a legal value: {}", tag));
                        }
                    }
                    Ok(Ok(())) => {
                        if *must_refuse {
                            out.violation("illformed-param", &format!("push_old_param accepted a value without a valid encoding: {}", tag));
                        }
                        let v = guard(|| msg.body.validate());
                        if !matches!(v, Ok(Ok(()))) {
                            out.violation("illformed-param", &format!("the library accepted {} for sending but its own validator refuses the bytes: {:?}", tag, v));
                        }
                        let g = guard(|| {
                            let mut parser = msg.body.parser();
                            for _ in 0..phase {
                                let _ = parser.get::<u8>();
                            }
                            parser.get_param().map(|x| from_param(&x, &|_| 0))
                        });
                        match g {
                            Ok(Ok(val)) => {
                                if val != from_param(p, &|_| 0) {
                                    out.violation("illformed-param", &format!("{} does not read back as itself", tag));
                                }
                            }
                            other => out.violation("illformed-param", &format!("the library accepted {} for sending but cannot read it back: {:?}", tag, other.map(|x| x.map(|_| ())))),
                        }
                    }
                }
                out.hit(if *must_refuse { "param_without_encoding" } else { "param_deepest_legal" });
            }
        }
    }
    // 5. typed API: a variant whose content signature is not valid because it nests 33 arrays (the limit is 32): refused,
    //    not asserted; 32 arrays are fine and read back
    type V4<T> = Vec<Vec<Vec<Vec<T>>>>;
    type V16<T> = V4<V4<V4<V4<T>>>>;
    type V32 = V16<V16<u8>>;
    type V33 = Vec<V32>;
    let deep32: V32 = Vec::new();
    let deep33: V33 = Vec::new();
    for bo in ORDERS {
        let mut buf = Vec::new();
        let mut fds = Vec::new();
        let r = guard(|| {
            let mut ctx = MarshalContext { buf: &mut buf, fds: &mut fds, byteorder: bo };
            deep33.marshal_as_variant(&mut ctx)
        });
        if !matches!(r, Ok(Err(_))) {
            out.violation("illformed-param", &format!("marshal_as_variant of a value whose signature nests 33 arrays: {:?} -> {}", r.map(|x| x.is_ok()), hex(&buf)));
        }
        let mut msg = MarshalledMessage::with_byteorder(bo);
        let r = guard(|| msg.body.push_variant(&deep33));
        if !matches!(r, Ok(Err(_))) || !msg.get_buf().is_empty() {
            out.violation("illformed-param", &format!("push_variant of a value whose signature nests 33 arrays: {:?}, body {}", r.map(|x| x.is_ok()), hex(msg.get_buf())));
        }
        let pvar = rustbus::params::Variant { sig: <V33 as rustbus::Signature>::signature(), value: rustbus::params::Param::Container(rustbus::params::Container::Array(rustbus::params::Array { element_sig: <V32 as rustbus::Signature>::signature(), values: vec![] })) };
        let mut msg = MarshalledMessage::with_byteorder(bo);
        let r = guard(|| msg.body.push_param(&pvar));
        if !matches!(r, Ok(Err(_))) || !msg.get_buf().is_empty() {
            out.violation("illformed-param", &format!("push_param(&params::Variant) whose signature nests 33 arrays: {:?}, body {}", r.map(|x| x.is_ok()), hex(msg.get_buf())));
        }
        let mut msg = MarshalledMessage::with_byteorder(bo);
        let r = guard(|| msg.body.push_variant(&deep32));
        let ok = matches!(r, Ok(Ok(()))) && matches!(guard(|| msg.body.validate()), Ok(Ok(())));
        if !ok {
            out.violation("illformed-param", "push_variant of a value whose signature nests 32 arrays was refused or does not validate");
        }
        out.hit("variant_signature_nesting_limit");
    }
    let _ = rng;
}
