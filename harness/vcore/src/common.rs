//! Shared plumbing: PRNG, case writer, JSON meta output.
use std::collections::{BTreeMap, HashSet};
use std::fs::File;
use std::io::{BufWriter, Write};

/// splitmix64; every random choice of a run derives from one state seeded by VERIF_SEED
#[derive(Clone)]
pub struct Prng(pub u64);
impl Prng {
    pub fn new(seed: u64) -> Self {
        Prng(seed.wrapping_mul(0x9E3779B97F4A7C15) ^ 0xD1B54A32D192ED03)
    }
    pub fn next(&mut self) -> u64 {
        self.0 = self.0.wrapping_add(0x9E3779B97F4A7C15);
        let mut z = self.0;
        z = (z ^ (z >> 30)).wrapping_mul(0xBF58476D1CE4E5B9);
        z = (z ^ (z >> 27)).wrapping_mul(0x94D049BB133111EB);
        z ^ (z >> 31)
    }
    pub fn below(&mut self, n: u64) -> u64 {
        if n == 0 {
            0
        } else {
            self.next() % n
        }
    }
    pub fn range(&mut self, lo: u64, hi_incl: u64) -> u64 {
        lo + self.below(hi_incl - lo + 1)
    }
    pub fn chance(&mut self, num: u64, den: u64) -> bool {
        self.below(den) < num
    }
    pub fn pick<'a, T>(&mut self, xs: &'a [T]) -> &'a T {
        &xs[self.below(xs.len() as u64) as usize]
    }
}

pub fn hex(bs: &[u8]) -> String {
    if bs.is_empty() {
        return "-".to_string();
    }
    let mut s = String::with_capacity(bs.len() * 2);
    for b in bs {
        s.push_str(&format!("{:02x}", b));
    }
    s
}

pub fn unhex(s: &str) -> Vec<u8> {
    if s == "-" {
        return vec![];
    }
    (0..s.len() / 2)
        .map(|i| u8::from_str_radix(&s[2 * i..2 * i + 2], 16).unwrap())
        .collect()
}

/// comma separated decimal code points, "-" for empty
pub fn cps(s: &str) -> String {
    if s.is_empty() {
        return "-".to_string();
    }
    s.chars()
        .map(|c| (c as u32).to_string())
        .collect::<Vec<_>>()
        .join(",")
}

pub fn json_str(s: &str) -> String {
    let mut o = String::from("\"");
    for c in s.chars() {
        match c {
            '"' => o.push_str("\\\""),
            '\\' => o.push_str("\\\\"),
            '\n' => o.push_str("\\n"),
            '\r' => o.push_str("\\r"),
            '\t' => o.push_str("\\t"),
            c if (c as u32) < 0x20 => o.push_str(&format!("\\u{:04x}", c as u32)),
            c => o.push(c),
        }
    }
    o.push('"');
    o
}

fn fnv(s: &str) -> u64 {
    let mut h: u64 = 0xcbf29ce484222325;
    for b in s.bytes() {
        h ^= b as u64;
        h = h.wrapping_mul(0x100000001b3);
    }
    h
}

pub struct Out {
    dir: String,
    req: BufWriter<File>,
    imp: BufWriter<File>,
    pub n: u64,
    nontrivial: HashSet<u64>,
    samples: Vec<String>,
    sample_every: u64,
    dist: BTreeMap<String, u64>,
    direct: Vec<(String, String)>,
    extra: BTreeMap<String, String>,
}

impl Out {
    pub fn new(dir: &str) -> Out {
        std::fs::create_dir_all(dir).unwrap();
        Out {
            dir: dir.to_string(),
            req: BufWriter::new(File::create(format!("{}/req.txt", dir)).unwrap()),
            imp: BufWriter::new(File::create(format!("{}/impl.txt", dir)).unwrap()),
            n: 0,
            nontrivial: HashSet::new(),
            samples: Vec::new(),
            sample_every: 1,
            dist: BTreeMap::new(),
            direct: Vec::new(),
            extra: BTreeMap::new(),
        }
    }
    /// one correspondence case: request line for the model, the implementation's observation.
    /// `nontrivial` = counts toward distinct_nontrivial (deduplicated by request text).
    pub fn case(&mut self, req: &str, obs: &str, nontrivial: bool) {
        debug_assert!(!req.contains('\n') && !obs.contains('\n'));
        writeln!(self.req, "{}", req).unwrap();
        writeln!(self.imp, "{}", obs).unwrap();
        self.n += 1;
        if nontrivial {
            self.nontrivial.insert(fnv(req));
        }
        if self.n % self.sample_every == 0 && self.samples.len() < 12 {
            let mut r = req.to_string();
            if r.len() > 300 {
                r.truncate(300);
                r.push_str("...");
            }
            let mut o = obs.to_string();
            if o.len() > 200 {
                o.truncate(200);
                o.push_str("...");
            }
            self.samples.push(format!("{} => {}", r, o));
            self.sample_every *= 4;
        }
    }
    pub fn hit(&mut self, key: &str) {
        *self.dist.entry(key.to_string()).or_insert(0) += 1;
    }
    pub fn hit_n(&mut self, key: &str, n: u64) {
        *self.dist.entry(key.to_string()).or_insert(0) += n;
    }
    /// the property itself failed on the implementation (no model needed to see it)
    pub fn violation(&mut self, case: &str, what: &str) {
        if self.direct.len() < 50 {
            self.direct.push((case.to_string(), what.to_string()));
        }
        self.hit("direct_violation");
    }
    pub fn extra(&mut self, k: &str, json_value: String) {
        self.extra.insert(k.to_string(), json_value);
    }
    pub fn finish(mut self, rule: &str, exhaustive: bool) {
        self.req.flush().unwrap();
        self.imp.flush().unwrap();
        let mut f = File::create(format!("{}/meta.json", self.dir)).unwrap();
        let samples = self
            .samples
            .iter()
            .map(|s| json_str(s))
            .collect::<Vec<_>>()
            .join(",");
        let dist = self
            .dist
            .iter()
            .map(|(k, v)| format!("{}:{}", json_str(k), v))
            .collect::<Vec<_>>()
            .join(",");
        let direct = self
            .direct
            .iter()
            .map(|(c, w)| format!("{{\"case\":{},\"what\":{}}}", json_str(c), json_str(w)))
            .collect::<Vec<_>>()
            .join(",");
        let extra = self
            .extra
            .iter()
            .map(|(k, v)| format!(",{}:{}", json_str(k), v))
            .collect::<String>();
        write!(
            f,
            "{{\"evaluations\":{},\"distinct_nontrivial\":{},\"rule\":{},\"exhaustive\":{},\"samples\":[{}],\"distribution\":{{{}}},\"direct_violations\":[{}]{}}}",
            self.n,
            self.nontrivial.len(),
            json_str(rule),
            exhaustive,
            samples,
            dist,
            direct,
            extra
        )
        .unwrap();
    }
}

pub struct Cfg {
    pub thorough: bool,
    pub seed: u64,
    pub outdir: String,
    /// if set: replay only this request line
    pub replay: Option<String>,
}

/// `<bin> <property> <quick|thorough> <seed> <outdir> [replay-request-line]` (every engine binary has this command line)
pub fn cfg_from_args() -> (String, Cfg) {
    let args: Vec<String> = std::env::args().collect();
    if args.len() < 5 {
        eprintln!("usage: {} <property> <quick|thorough> <seed> <outdir> [replay-request-line]", args[0]);
        std::process::exit(2);
    }
    (
        args[1].clone(),
        Cfg {
            thorough: args[2] == "thorough",
            seed: args[3].parse().unwrap_or(1),
            outdir: args[4].clone(),
            replay: args.get(5).cloned(),
        },
    )
}
