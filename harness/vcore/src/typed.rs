//! The typed API side: a trait over the Rust types of the catalogue (generate, render, compare),
//! and a variant wrapper that works in both directions.
use crate::common::Prng;
use crate::val::{gen_num, Ty, Val};
use rustbus::wire::marshal::traits::SignatureBuffer;
use rustbus::wire::marshal::MarshalContext;
use rustbus::wire::unmarshal::UnmarshalResult;
use rustbus::wire::unmarshal_context::UnmarshalContext;
use rustbus::wire::{ObjectPath, SignatureWrapper};
use rustbus::{Marshal, Signature, Unmarshal};
use std::collections::HashMap;

pub trait Cat: Sized + Marshal + Signature + for<'b, 'f> Unmarshal<'b, 'f> {
    fn gen(rng: &mut Prng, size: usize) -> Self;
    fn to_val(&self) -> Val;
    fn same(&self, o: &Self) -> bool;
    fn ty() -> Ty {
        Ty::from_sig_type(&Self::signature())
    }
}

macro_rules! cat_int {
    ($t:ty, $bits:expr, $ut:ty) => {
        impl Cat for $t {
            fn gen(rng: &mut Prng, _size: usize) -> Self {
                gen_num(rng, $bits) as $ut as $t
            }
            fn to_val(&self) -> Val {
                Val::Num(*self as $ut as u64)
            }
            fn same(&self, o: &Self) -> bool {
                self == o
            }
        }
    };
}
cat_int!(u8, 8, u8);
cat_int!(u16, 16, u16);
cat_int!(u32, 32, u32);
cat_int!(u64, 64, u64);
cat_int!(i16, 16, u16);
cat_int!(i32, 32, u32);
cat_int!(i64, 64, u64);

impl Cat for bool {
    fn gen(rng: &mut Prng, _size: usize) -> Self {
        rng.below(2) == 1
    }
    fn to_val(&self) -> Val {
        Val::Num(*self as u64)
    }
    fn same(&self, o: &Self) -> bool {
        self == o
    }
}

impl Cat for f64 {
    fn gen(rng: &mut Prng, _size: usize) -> Self {
        let r = rng.next();
        f64::from_bits(*rng.pick(&[
            0u64,
            0x8000000000000000,
            0x7ff0000000000000,
            0xfff0000000000000,
            0x7ff8000000000001,
            0x7ff4000000000000,
            0x3ff0000000000000,
            1,
            r,
        ]))
    }
    fn to_val(&self) -> Val {
        Val::Num(self.to_bits())
    }
    fn same(&self, o: &Self) -> bool {
        self.to_bits() == o.to_bits()
    }
}

const STRINGS: &[&str] = &["", "a", "ab", "abc", "abcd", "hello w", "12345678", "ünï", "日本", "x\u{10FFFF}y", "\u{7f}"];
const PATHS: &[&str] = &["/", "/a", "/a/b", "/org/freedesktop/DBus", "/_1/x_", "/A9"];
const SIGS: &[&str] = &["", "y", "as", "a{sv}", "(ii)", "aa{s(yv)}", "v", "(y(q(t)))g"];

impl Cat for String {
    fn gen(rng: &mut Prng, _size: usize) -> Self {
        if rng.chance(1, 6) {
            // random length 0..9 so that the end lands on every residue
            let n = rng.below(10) as usize;
            "abcdefghi"[..n].to_string()
        } else if rng.chance(1, 5) {
            // a large space of distinct strings (map keys)
            format!("k{}", rng.below(100000))
        } else {
            rng.pick(STRINGS).to_string()
        }
    }
    fn to_val(&self) -> Val {
        Val::Str(self.as_bytes().to_vec())
    }
    fn same(&self, o: &Self) -> bool {
        self == o
    }
}
impl Cat for ObjectPath<String> {
    fn gen(rng: &mut Prng, _size: usize) -> Self {
        ObjectPath::new(rng.pick(PATHS).to_string()).unwrap()
    }
    fn to_val(&self) -> Val {
        Val::Str(self.as_ref().as_bytes().to_vec())
    }
    fn same(&self, o: &Self) -> bool {
        self.as_ref() == o.as_ref()
    }
}
impl Cat for SignatureWrapper<String> {
    fn gen(rng: &mut Prng, _size: usize) -> Self {
        SignatureWrapper::new(rng.pick(SIGS).to_string()).unwrap()
    }
    fn to_val(&self) -> Val {
        Val::Str(self.as_ref().as_bytes().to_vec())
    }
    fn same(&self, o: &Self) -> bool {
        self.as_ref() == o.as_ref()
    }
}

/// `size >= LONG`: the OUTERMOST container gets 65..=80 elements (more than the 64 nesting levels a decoder may count:
/// a depth counter that is not restored after each element shows up here), its elements are generated with `size - LONG`
pub const LONG: usize = 1000;
pub fn container_len(rng: &mut Prng, size: usize) -> (u64, usize) {
    if size >= LONG {
        (65 + rng.below(16), size - LONG)
    } else if size == 0 {
        (0, 0)
    } else {
        (rng.below(4), size - 1)
    }
}

impl<E: Cat> Cat for Vec<E> {
    fn gen(rng: &mut Prng, size: usize) -> Self {
        let (n, inner) = container_len(rng, size);
        (0..n).map(|_| E::gen(rng, inner)).collect()
    }
    fn to_val(&self) -> Val {
        Val::Arr(self.iter().map(|e| e.to_val()).collect())
    }
    fn same(&self, o: &Self) -> bool {
        self.len() == o.len() && self.iter().zip(o.iter()).all(|(a, b)| a.same(b))
    }
}

impl<K: Cat + std::hash::Hash + Eq, V: Cat> Cat for HashMap<K, V> {
    fn gen(rng: &mut Prng, size: usize) -> Self {
        let (n, inner) = container_len(rng, size);
        let mut m = HashMap::new();
        let mut tries = 0;
        while (m.len() as u64) < n && tries < 40 * n {
            tries += 1;
            m.insert(K::gen(rng, 0), V::gen(rng, inner));
            if size < LONG && tries >= n {
                break;
            }
        }
        m
    }
    /// entries in this map's iteration order (= the order marshalling uses)
    fn to_val(&self) -> Val {
        Val::Arr(self.iter().map(|(k, v)| Val::Struct(vec![k.to_val(), v.to_val()])).collect())
    }
    fn same(&self, o: &Self) -> bool {
        self.len() == o.len() && self.iter().all(|(k, v)| o.get(k).map(|w| v.same(w)).unwrap_or(false))
    }
}

macro_rules! cat_tuple {
    ($($n:tt $t:ident),+) => {
        impl<$($t: Cat),+> Cat for ($($t,)+) {
            fn gen(rng: &mut Prng, size: usize) -> Self {
                ($($t::gen(rng, size),)+)
            }
            fn to_val(&self) -> Val {
                Val::Struct(vec![$(self.$n.to_val()),+])
            }
            fn same(&self, o: &Self) -> bool {
                true $(&& self.$n.same(&o.$n))+
            }
        }
    };
}
cat_tuple!(0 A);
cat_tuple!(0 A, 1 B);
cat_tuple!(0 A, 1 B, 2 C);
cat_tuple!(0 A, 1 B, 2 C, 3 D);

/// A variant holding a `T`, usable for marshalling (marshal_as_variant) and unmarshalling
/// (unmarshal::traits::Variant + get::<T>()).
#[derive(Debug, Clone, PartialEq)]
pub struct Var<T>(pub T);

impl<T> Signature for Var<T> {
    fn signature() -> rustbus::signature::Type {
        rustbus::signature::Type::Container(rustbus::signature::Container::Variant)
    }
    fn alignment() -> usize {
        1
    }
    fn sig_str(s: &mut SignatureBuffer) {
        s.push_static("v");
    }
    fn has_sig(sig: &str) -> bool {
        sig.starts_with('v')
    }
}
impl<T: Marshal> Marshal for Var<T> {
    fn marshal(&self, ctx: &mut MarshalContext) -> Result<(), rustbus::wire::errors::MarshalError> {
        self.0.marshal_as_variant(ctx)
    }
}
impl<'b, 'f, T: Unmarshal<'b, 'f>> Unmarshal<'b, 'f> for Var<T> {
    fn unmarshal(ctx: &mut UnmarshalContext<'f, 'b>) -> UnmarshalResult<Self> {
        let v = rustbus::wire::unmarshal::traits::Variant::unmarshal(ctx)?;
        Ok(Var(v.get::<T>()?))
    }
}
impl<T: Cat> Cat for Var<T> {
    fn gen(rng: &mut Prng, size: usize) -> Self {
        Var(T::gen(rng, size))
    }
    fn to_val(&self) -> Val {
        Val::Variant(T::ty(), Box::new(self.0.to_val()))
    }
    fn same(&self, o: &Self) -> bool {
        self.0.same(&o.0)
    }
}


/// A variant of ANY content for the typed API (`unmarshal::traits::Variant`): only "accepted, and how many bytes" is
/// observed. Used by the deep-nesting family, where the content is a tower of containers built by hand.
#[derive(Debug)]
pub struct AnyVar;
impl Signature for AnyVar {
    fn signature() -> rustbus::signature::Type {
        rustbus::signature::Type::Container(rustbus::signature::Container::Variant)
    }
    fn alignment() -> usize {
        1
    }
    fn sig_str(s: &mut SignatureBuffer) {
        s.push_static("v");
    }
    fn has_sig(sig: &str) -> bool {
        sig.starts_with('v')
    }
}
impl<'b, 'f> Unmarshal<'b, 'f> for AnyVar {
    fn unmarshal(ctx: &mut UnmarshalContext<'f, 'b>) -> UnmarshalResult<Self> {
        rustbus::wire::unmarshal::traits::Variant::unmarshal(ctx)?;
        Ok(AnyVar)
    }
}
