//! A scripted bus peer: an in-process listener that performs the server side of the auth handshake
//! and then hands the server end of the socket to the (single-threaded) engine.
use rustbus::connection::ll_conn::DuplexConn;
use std::io::{Read, Write};
use std::os::linux::net::SocketAddrExt;
use std::os::unix::io::{AsRawFd, RawFd};
use std::os::unix::net::{SocketAddr, UnixListener, UnixStream};
use std::sync::atomic::{AtomicU64, Ordering};

static COUNTER: AtomicU64 = AtomicU64::new(0);

pub fn fresh_abstract_name() -> Vec<u8> {
    let n = COUNTER.fetch_add(1, Ordering::SeqCst);
    format!("vharness-{}-{}", std::process::id(), n).into_bytes()
}

pub fn read_line(s: &mut UnixStream) -> std::io::Result<Vec<u8>> {
    let mut line = Vec::new();
    let mut b = [0u8; 1];
    loop {
        let n = s.read(&mut b)?;
        if n == 0 {
            return Err(std::io::ErrorKind::UnexpectedEof.into());
        }
        line.push(b[0]);
        if line.ends_with(b"\r\n") {
            return Ok(line);
        }
    }
}

/// standard, cooperative server side of the handshake
pub fn serve_auth(s: &mut UnixStream, with_fd: bool) -> std::io::Result<()> {
    let mut nul = [0u8; 1];
    s.read_exact(&mut nul)?;
    let _auth = read_line(s)?;
    s.write_all(b"OK 1234deadbeef\r\n")?;
    if with_fd {
        let _neg = read_line(s)?;
        s.write_all(b"AGREE_UNIX_FD\r\n")?;
    }
    let _begin = read_line(s)?;
    Ok(())
}

/// Connect a real DuplexConn (through the real auth code) to a scripted peer.
pub fn connect_pair(with_fd: bool) -> (DuplexConn, UnixStream) {
    let name = fresh_abstract_name();
    let addr = SocketAddr::from_abstract_name(&name).unwrap();
    let listener = UnixListener::bind_addr(&addr).unwrap();
    let t = std::thread::spawn(move || {
        let (mut s, _) = listener.accept().unwrap();
        serve_auth(&mut s, with_fd).unwrap();
        s
    });
    let uaddr = nix::sys::socket::UnixAddr::new_abstract(&name).unwrap();
    let conn = DuplexConn::connect_to_bus(uaddr, with_fd).expect("connect_to_bus");
    let server = t.join().unwrap();
    (conn, server)
}

/// Everything currently readable at the peer end without blocking.
pub fn drain(s: &mut UnixStream) -> Vec<u8> {
    s.set_nonblocking(true).unwrap();
    let mut out = Vec::new();
    let mut buf = [0u8; 65536];
    loop {
        match s.read(&mut buf) {
            Ok(0) => break,
            Ok(n) => out.extend_from_slice(&buf[..n]),
            Err(_) => break,
        }
    }
    s.set_nonblocking(false).unwrap();
    out
}

/// recvmsg with room for descriptors; returns (bytes, fds). Non-blocking.
pub fn recv_with_fds(s: &UnixStream, max: usize) -> (Vec<u8>, Vec<RawFd>) {
    use nix::sys::socket::{recvmsg, ControlMessageOwned, MsgFlags};
    let mut buf = vec![0u8; max];
    let mut cmsg = nix::cmsg_space!([RawFd; 32]);
    let mut iov = [std::io::IoSliceMut::new(&mut buf)];
    let r = recvmsg::<()>(
        s.as_raw_fd(),
        &mut iov,
        Some(&mut cmsg),
        MsgFlags::MSG_DONTWAIT,
    );
    match r {
        Ok(msg) => {
            let mut fds = Vec::new();
            for c in msg.cmsgs() {
                if let ControlMessageOwned::ScmRights(f) = c {
                    fds.extend(f);
                }
            }
            let n = msg.bytes;
            drop(iov);
            buf.truncate(n);
            (buf, fds)
        }
        Err(_) => (Vec::new(), Vec::new()),
    }
}

/// sendmsg of one chunk with optional descriptors from the peer side
pub fn send_with_fds(s: &UnixStream, bytes: &[u8], fds: &[RawFd]) -> usize {
    use nix::sys::socket::{sendmsg, ControlMessage, MsgFlags};
    let iov = [std::io::IoSlice::new(bytes)];
    let cm = [ControlMessage::ScmRights(fds)];
    let cmsgs: &[ControlMessage] = if fds.is_empty() { &[] } else { &cm };
    sendmsg::<()>(s.as_raw_fd(), &iov, cmsgs, MsgFlags::empty(), None).unwrap()
}

/// Independent frame splitter (does not use rustbus): None if the stream is not a whole number of frames.
pub fn split_frames(bytes: &[u8]) -> Option<Vec<Vec<u8>>> {
    let mut out = Vec::new();
    let mut pos = 0;
    while pos < bytes.len() {
        let b = &bytes[pos..];
        if b.len() < 16 {
            return None;
        }
        let rd = |o: usize| -> usize {
            let a = [b[o], b[o + 1], b[o + 2], b[o + 3]];
            (if b[0] == b'l' { u32::from_le_bytes(a) } else { u32::from_be_bytes(a) }) as usize
        };
        let body = rd(4);
        let fields = rd(12);
        let hdr = 16 + fields;
        let total = (hdr + 7) / 8 * 8 + body;
        if b.len() < total {
            return None;
        }
        out.push(b[..total].to_vec());
        pos += total;
    }
    Some(out)
}

/// Decode one frame with the library's own decoders.
pub fn decode_frame(frame: &[u8]) -> Result<rustbus::message_builder::MarshalledMessage, String> {
    use rustbus::wire::unmarshal;
    use rustbus::wire::unmarshal_context::Cursor;
    let mut cur = Cursor::new(frame);
    let hdr = unmarshal::unmarshal_header(&mut cur).map_err(|e| format!("{:?}", e))?;
    let dh = unmarshal::unmarshal_dynamic_header(&hdr, &mut cur).map_err(|e| format!("{:?}", e))?;
    let used = cur.consumed();
    unmarshal::unmarshal_next_message(&hdr, dh, frame.to_vec(), used, vec![]).map_err(|e| format!("{:?}", e))
}
