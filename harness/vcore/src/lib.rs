//! Shared plumbing of the harness and the (compile-time heavy) typed catalogue engine.
pub mod catalogue;
pub mod common;
pub mod eng_wire;
pub mod peer;
pub mod typed;
pub mod val;
