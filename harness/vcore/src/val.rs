//! Dynamic types and values of the line protocol; conversion from / to the rustbus Param tree;
//! generators for random types and values.
use crate::common::*;
use rustbus::params::{self, Base, Container, Param};
use rustbus::signature;
use std::collections::HashMap;

#[derive(Clone, Debug, PartialEq, Eq)]
pub enum Ty {
    Base(char),
    Array(Box<Ty>),
    Dict(char, Box<Ty>),
    Struct(Vec<Ty>),
    Variant,
}

#[derive(Clone, Debug, PartialEq, Eq)]
pub enum Val {
    /// unsigned bit pattern of every fixed-size basic type (bool 0/1, double bits, fd index)
    Num(u64),
    /// bytes of a string-like
    Str(Vec<u8>),
    /// arrays; a dict is the array of its (key,value) structs
    Arr(Vec<Val>),
    Struct(Vec<Val>),
    Variant(Ty, Box<Val>),
}

pub const BASICS: &[char] = &['y', 'b', 'n', 'q', 'i', 'u', 'x', 't', 'd', 's', 'o', 'g', 'h'];

impl Ty {
    pub fn sig(&self) -> String {
        let mut s = String::new();
        self.sig_into(&mut s);
        s
    }
    fn sig_into(&self, s: &mut String) {
        match self {
            Ty::Base(c) => s.push(*c),
            Ty::Array(e) => {
                s.push('a');
                e.sig_into(s)
            }
            Ty::Dict(k, v) => {
                s.push_str("a{");
                s.push(*k);
                v.sig_into(s);
                s.push('}')
            }
            Ty::Struct(fs) => {
                s.push('(');
                for f in fs {
                    f.sig_into(s)
                }
                s.push(')')
            }
            Ty::Variant => s.push('v'),
        }
    }
    pub fn align(&self) -> usize {
        match self {
            Ty::Base(c) => match c {
                'y' | 'g' => 1,
                'n' | 'q' => 2,
                'x' | 't' | 'd' => 8,
                _ => 4,
            },
            Ty::Array(_) | Ty::Dict(_, _) => 4,
            Ty::Struct(_) => 8,
            Ty::Variant => 1,
        }
    }
    pub fn from_sig_type(t: &signature::Type) -> Ty {
        let mut s = String::new();
        t.to_str(&mut s);
        Ty::parse(&s).expect("own printer output parses")
    }
    /// the library's type description, built constructor by constructor (not through the library's signature parser:
    /// the harness also needs types whose signature the parser refuses, e.g. longer than 255 characters)
    pub fn to_sig_type(&self) -> signature::Type {
        use signature::{Container as C, StructTypes, Type as T};
        match self {
            Ty::Base(c) => T::Base(base_to_sig(*c)),
            Ty::Array(e) => T::Container(C::Array(Box::new(e.to_sig_type()))),
            Ty::Dict(k, v) => T::Container(C::Dict(base_to_sig(*k), Box::new(v.to_sig_type()))),
            Ty::Struct(fs) => T::Container(C::Struct(StructTypes::new(fs.iter().map(|f| f.to_sig_type()).collect()).expect("generated struct has fields"))),
            Ty::Variant => T::Container(C::Variant),
        }
    }
    /// protocol parser (independent of rustbus)
    pub fn parse(s: &str) -> Option<Ty> {
        let b = s.as_bytes();
        let (t, i) = Self::p(b, 0)?;
        if i == b.len() {
            Some(t)
        } else {
            None
        }
    }
    fn p(b: &[u8], i: usize) -> Option<(Ty, usize)> {
        let c = *b.get(i)? as char;
        match c {
            'a' if b.get(i + 1) == Some(&b'{') => {
                let k = *b.get(i + 2)? as char;
                let (v, j) = Self::p(b, i + 3)?;
                if b.get(j) == Some(&b'}') {
                    Some((Ty::Dict(k, Box::new(v)), j + 1))
                } else {
                    None
                }
            }
            'a' => {
                let (e, j) = Self::p(b, i + 1)?;
                Some((Ty::Array(Box::new(e)), j))
            }
            '(' => {
                let mut fs = Vec::new();
                let mut j = i + 1;
                while b.get(j) != Some(&b')') {
                    let (f, k) = Self::p(b, j)?;
                    fs.push(f);
                    j = k;
                }
                Some((Ty::Struct(fs), j + 1))
            }
            'v' => Some((Ty::Variant, i + 1)),
            c if BASICS.contains(&c) => Some((Ty::Base(c), i + 1)),
            _ => None,
        }
    }
    pub fn depth(&self) -> usize {
        match self {
            Ty::Base(_) => 0,
            Ty::Array(e) => 1 + e.depth(),
            Ty::Dict(_, v) => 2 + v.depth(),
            Ty::Struct(fs) => 1 + fs.iter().map(|f| f.depth()).max().unwrap_or(0),
            Ty::Variant => 1,
        }
    }
}

impl Val {
    pub fn show(&self) -> String {
        let mut s = String::new();
        self.show_into(&mut s);
        s
    }
    fn show_into(&self, s: &mut String) {
        match self {
            Val::Num(n) => s.push_str(&n.to_string()),
            Val::Str(b) => {
                s.push('x');
                for x in b {
                    s.push_str(&format!("{:02x}", x));
                }
            }
            Val::Arr(vs) => {
                s.push('[');
                for (i, v) in vs.iter().enumerate() {
                    if i > 0 {
                        s.push(',');
                    }
                    v.show_into(s);
                }
                s.push(']');
            }
            Val::Struct(vs) => {
                s.push('(');
                for (i, v) in vs.iter().enumerate() {
                    if i > 0 {
                        s.push(',');
                    }
                    v.show_into(s);
                }
                s.push(')');
            }
            Val::Variant(t, v) => {
                s.push('<');
                s.push_str(&t.sig());
                s.push('>');
                v.show_into(s);
            }
        }
    }
    /// canonical form for comparing decoded values: dict entries (given the type) deduplicated by key
    /// (last wins, as a HashMap insert does) and sorted by the key's rendering
    pub fn canon(&self, ty: &Ty) -> Val {
        match (ty, self) {
            (Ty::Array(e), Val::Arr(vs)) => Val::Arr(vs.iter().map(|v| v.canon(e)).collect()),
            (Ty::Dict(_, vt), Val::Arr(es)) => {
                let mut m: Vec<(String, Val)> = Vec::new();
                for e in es {
                    if let Val::Struct(kv) = e {
                        let k = kv[0].show();
                        let v = Val::Struct(vec![kv[0].clone(), kv[1].canon(vt)]);
                        if let Some(p) = m.iter().position(|(kk, _)| *kk == k) {
                            m[p].1 = v;
                        } else {
                            m.push((k, v));
                        }
                    }
                }
                m.sort_by(|a, b| a.0.cmp(&b.0));
                Val::Arr(m.into_iter().map(|(_, v)| v).collect())
            }
            (Ty::Struct(fs), Val::Struct(vs)) => {
                Val::Struct(vs.iter().zip(fs.iter()).map(|(v, f)| v.canon(f)).collect())
            }
            (Ty::Variant, Val::Variant(t, v)) => Val::Variant(t.clone(), Box::new(v.canon(t))),
            _ => self.clone(),
        }
    }
    /// does the value contain a dict with duplicate keys? (then the wire order is not recoverable from a map)
    pub fn n_fds(&self, ty: &Ty) -> usize {
        match (ty, self) {
            (Ty::Base('h'), _) => 1,
            (Ty::Array(e), Val::Arr(vs)) => vs.iter().map(|v| v.n_fds(e)).sum(),
            (Ty::Dict(k, vt), Val::Arr(es)) => es
                .iter()
                .map(|e| match e {
                    Val::Struct(kv) => kv[0].n_fds(&Ty::Base(*k)) + kv[1].n_fds(vt),
                    _ => 0,
                })
                .sum(),
            (Ty::Struct(fs), Val::Struct(vs)) => vs.iter().zip(fs.iter()).map(|(v, f)| v.n_fds(f)).sum(),
            (Ty::Variant, Val::Variant(t, v)) => v.n_fds(t),
            _ => 0,
        }
    }
}

fn base_to_sig(c: char) -> signature::Base {
    use signature::Base as B;
    match c {
        'y' => B::Byte,
        'b' => B::Boolean,
        'n' => B::Int16,
        'q' => B::Uint16,
        'i' => B::Int32,
        'u' => B::Uint32,
        'x' => B::Int64,
        't' => B::Uint64,
        'd' => B::Double,
        'h' => B::UnixFd,
        's' => B::String,
        'o' => B::ObjectPath,
        'g' => B::Signature,
        other => panic!("not a basic type code: {:?}", other),
    }
}

/// Build the Param tree for (ty, v). Descriptors: `fds[idx]` is used for an 'h' with value idx.
/// Returns None if the value cannot be expressed as a Param (never for generated values).
thread_local! {
    static REF_TOGGLE: std::cell::Cell<bool> = const { std::cell::Cell::new(false) };
}

pub fn to_param(ty: &Ty, v: &Val, fds: &[rustbus::wire::UnixFd]) -> Option<Param<'static, 'static>> {
    Some(match (ty, v) {
        (Ty::Base(c), Val::Num(n)) => Param::Base(match c {
            'y' => Base::Byte(*n as u8),
            'b' => Base::Boolean(*n != 0),
            'n' => Base::Int16(*n as u16 as i16),
            'q' => Base::Uint16(*n as u16),
            'i' => Base::Int32(*n as u32 as i32),
            'u' => Base::Uint32(*n as u32),
            'x' => Base::Int64(*n as i64),
            't' => Base::Uint64(*n),
            'd' => Base::Double(*n),
            'h' => Base::UnixFd(fds.get(*n as usize)?.clone()),
            _ => return None,
        }),
        (Ty::Base(c), Val::Str(b)) => {
            let s = String::from_utf8(b.clone()).ok()?;
            // the old Param API has an owned and a borrowed variant of every string-like: use them alternately (the
            // borrowed text is leaked: these are test values)
            let borrowed = REF_TOGGLE.with(|t| {
                let v = t.get();
                t.set(!v);
                v
            });
            if borrowed {
                let r: &'static str = Box::leak(s.into_boxed_str());
                Param::Base(match c {
                    's' => Base::StringRef(r),
                    'o' => Base::ObjectPathRef(r),
                    'g' => Base::SignatureRef(r),
                    _ => return None,
                })
            } else {
                Param::Base(match c {
                    's' => Base::String(s),
                    'o' => Base::ObjectPath(s),
                    'g' => Base::Signature(s),
                    _ => return None,
                })
            }
        }
        (Ty::Array(e), Val::Arr(vs)) => {
            let mut values = Vec::new();
            for x in vs {
                values.push(to_param(e, x, fds)?);
            }
            Param::Container(Container::Array(params::Array { element_sig: e.to_sig_type(), values }))
        }
        (Ty::Dict(k, vt), Val::Arr(es)) => {
            let mut map = HashMap::new();
            for e in es {
                if let Val::Struct(kv) = e {
                    let key = match to_param(&Ty::Base(*k), &kv[0], fds)? {
                        Param::Base(b) => b,
                        _ => return None,
                    };
                    map.insert(key, to_param(vt, &kv[1], fds)?);
                } else {
                    return None;
                }
            }
            Param::Container(Container::Dict(params::Dict { key_sig: base_to_sig(*k), value_sig: vt.to_sig_type(), map }))
        }
        (Ty::Struct(fs), Val::Struct(vs)) => {
            if fs.len() != vs.len() {
                return None;
            }
            let mut out = Vec::new();
            for (f, x) in fs.iter().zip(vs.iter()) {
                out.push(to_param(f, x, fds)?);
            }
            Param::Container(Container::Struct(out))
        }
        (Ty::Variant, Val::Variant(t, x)) => Param::Container(Container::Variant(Box::new(params::Variant {
            sig: t.to_sig_type(),
            value: to_param(t, x, fds)?,
        }))),
        _ => return None,
    })
}

/// Decoded Param → Val. `fd_index`: how to name a descriptor (position in the message's fd list).
pub fn from_param(p: &Param, fd_index: &dyn Fn(&rustbus::wire::UnixFd) -> u64) -> Val {
    match p {
        Param::Base(b) => match b {
            Base::Byte(x) => Val::Num(*x as u64),
            Base::Boolean(x) => Val::Num(*x as u64),
            Base::Int16(x) => Val::Num(*x as u16 as u64),
            Base::Uint16(x) => Val::Num(*x as u64),
            Base::Int32(x) => Val::Num(*x as u32 as u64),
            Base::Uint32(x) => Val::Num(*x as u64),
            Base::Int64(x) => Val::Num(*x as u64),
            Base::Uint64(x) => Val::Num(*x),
            Base::Double(x) => Val::Num(*x),
            Base::UnixFd(fd) => Val::Num(fd_index(fd)),
            Base::String(s) | Base::Signature(s) | Base::ObjectPath(s) => Val::Str(s.as_bytes().to_vec()),
            Base::StringRef(s) | Base::SignatureRef(s) | Base::ObjectPathRef(s) => Val::Str(s.as_bytes().to_vec()),
        },
        Param::Container(c) => match c {
            Container::Array(a) => Val::Arr(a.values.iter().map(|x| from_param(x, fd_index)).collect()),
            Container::ArrayRef(a) => Val::Arr(a.values.iter().map(|x| from_param(x, fd_index)).collect()),
            Container::Struct(fs) => Val::Struct(fs.iter().map(|x| from_param(x, fd_index)).collect()),
            Container::StructRef(fs) => Val::Struct(fs.iter().map(|x| from_param(x, fd_index)).collect()),
            Container::Dict(d) => Val::Arr(
                d.map
                    .iter()
                    .map(|(k, v)| Val::Struct(vec![from_param(&Param::Base(k.clone()), fd_index), from_param(v, fd_index)]))
                    .collect(),
            ),
            Container::DictRef(d) => Val::Arr(
                d.map
                    .iter()
                    .map(|(k, v)| Val::Struct(vec![from_param(&Param::Base(k.clone()), fd_index), from_param(v, fd_index)]))
                    .collect(),
            ),
            Container::Variant(v) => Val::Variant(Ty::from_sig_type(&v.sig), Box::new(from_param(&v.value, fd_index))),
        },
    }
}

// ------------------------------------------------------------------------------------------------
// generators

pub fn gen_ty(rng: &mut Prng, depth: usize, allow_fd: bool) -> Ty {
    let r = if depth == 0 { rng.below(13) } else { rng.below(24) };
    match r {
        0..=12 => {
            let c = BASICS[r as usize];
            if c == 'h' && !allow_fd {
                Ty::Base('u')
            } else {
                Ty::Base(c)
            }
        }
        13..=16 => Ty::Array(Box::new(gen_ty(rng, depth - 1, allow_fd))),
        17..=18 => {
            let mut k = *rng.pick(BASICS);
            if k == 'h' {
                k = 's';
            }
            Ty::Dict(k, Box::new(gen_ty(rng, depth - 1, allow_fd)))
        }
        19..=21 => {
            let n = rng.range(1, 3);
            Ty::Struct((0..n).map(|_| gen_ty(rng, depth - 1, allow_fd)).collect())
        }
        _ => Ty::Variant,
    }
}

const STRINGS: &[&str] = &["", "a", "ab", "abc", "abcd", "hello w", "12345678", "ünï", "日本", "x\u{10FFFF}y", "\u{7f}"];
const PATHS: &[&str] = &["/", "/a", "/a/b", "/org/freedesktop/DBus", "/_1/x_", "/A9"];
const SIGS: &[&str] = &["", "y", "as", "a{sv}", "(ii)", "aa{s(yv)}", "v", "(y(q(t)))g"];

pub fn gen_num(rng: &mut Prng, bits: u32) -> u64 {
    let max = if bits == 64 { u64::MAX } else { (1u64 << bits) - 1 };
    match rng.below(8) {
        0 => 0,
        1 => 1,
        2 => max,
        3 => max >> 1,
        4 => (max >> 1) + 1,
        5 => rng.next() & max & 0xff,
        _ => rng.next() & max,
    }
}

/// `fd_counter`: next descriptor index to hand out (marshal order)
pub fn gen_val(rng: &mut Prng, ty: &Ty, size: usize, fd_counter: &mut u64) -> Val {
    match ty {
        Ty::Base(c) => match c {
            'y' => Val::Num(gen_num(rng, 8)),
            'b' => Val::Num(rng.below(2)),
            'n' | 'q' => Val::Num(gen_num(rng, 16)),
            'i' | 'u' => Val::Num(gen_num(rng, 32)),
            'x' | 't' => Val::Num(gen_num(rng, 64)),
            'd' => {
                let r = rng.next();
                Val::Num(*rng.pick(&[
                0u64,
                0x8000000000000000,
                0x7ff0000000000000,
                0x7ff8000000000001,
                0xfff4000000000000,
                0x3ff0000000000000,
                r,
            ]))
            }
            'h' => {
                let i = *fd_counter;
                *fd_counter += 1;
                Val::Num(i)
            }
            's' => Val::Str(rng.pick(STRINGS).as_bytes().to_vec()),
            'o' => Val::Str(rng.pick(PATHS).as_bytes().to_vec()),
            'g' => Val::Str(rng.pick(SIGS).as_bytes().to_vec()),
            _ => unreachable!(),
        },
        Ty::Array(e) => {
            let (n, inner) = crate::typed::container_len(rng, size);
            Val::Arr((0..n).map(|_| gen_val(rng, e, inner, fd_counter)).collect())
        }
        Ty::Dict(k, v) => {
            let (n, inner) = crate::typed::container_len(rng, size);
            let size = inner + 1;
            let mut es: Vec<Val> = Vec::new();
            for i in 0..n {
                let mut key = gen_val(rng, &Ty::Base(*k), 0, fd_counter);
                if n > 4 {
                    // long dicts: make the keys distinct
                    key = match (&key, *k) {
                        (Val::Num(_), 'b') => key,
                        (Val::Num(_), 'y') => Val::Num(i % 256),
                        (Val::Num(_), 'h') => key,
                        (Val::Num(_), _) => Val::Num(i),
                        (Val::Str(_), 's') => Val::Str(format!("k{}", i).into_bytes()),
                        (Val::Str(_), 'o') => Val::Str(format!("/k{}", i).into_bytes()),
                        _ => key,
                    };
                }
                if es.iter().any(|e| matches!(e, Val::Struct(kv) if kv[0] == key)) {
                    continue;
                }
                let val = gen_val(rng, v, size.saturating_sub(1), fd_counter);
                es.push(Val::Struct(vec![key, val]));
            }
            Val::Arr(es)
        }
        Ty::Struct(fs) => Val::Struct(fs.iter().map(|f| gen_val(rng, f, size, fd_counter)).collect()),
        Ty::Variant => {
            let d = if size == 0 { 0 } else { rng.below(3) as usize };
            let t = gen_ty(rng, d, false);
            let v = gen_val(rng, &t, size.saturating_sub(1), fd_counter);
            Val::Variant(t, Box::new(v))
        }
    }
}
