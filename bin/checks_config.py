"""Per-property configuration of bin/check (what is trusted, what is assumed)."""

COMMON_TB = [
    "Lean 4.33.0 kernel (thorough tier re-checks the compiled proofs with leanchecker)",
    "axioms propext, Classical.choice, Quot.sound where #print axioms lists them; no sorry/admit/native_decide/bv_decide/own axioms (audited on every run)",
    "hand-written Lean model's faithfulness to the Rust code: checked by the correspondence run of this check (differential, bounded by its generators), not proved",
    "Lean compiler/runtime for the native driver modeld; the Rust harness, its canonicalisation, bin/check",
]

CHECKS = {
    "C05": {
        "id": "C05",
        "spec_ops": ["h.mar"],
        "engine": "header",
        "trusted_base": COMMON_TB + [
            "modelled, not verified: strings as byte lists seen by the name validators as the characters U+00..U+FF (the code checks UTF-8 first and then ASCII-only classes: both reject every byte >= 0x80), Vec as list, the decoded DynamicHeader as the list of known fields (order not observable)",
        ],
        "level_text": "Proved in Lean for every message (type, flags, any subset of header fields, names, body, byte order, serial): marshal::marshal succeeds exactly when the type is 1-4, every name / the body signature is valid and the size limits hold, and then emits the 12 fixed bytes (endianness, type, flags, version 1, body length = size of the body, serial), the field array as exactly the generic a(yv) encoding (C02's enc) of the message's entries - SIGNATURE present iff the body is non-empty and equal to its signature, UNIX_FDS present iff descriptors are attached and equal to their number - and zero padding to 8 (marshal_conformant); the library's decoders turn header ++ body back into identical byte order, type, flags, serial, fields and body bytes for every message carrying the fields required for its type (marshal_unmarshal); Invalid type and invalid names are refused; the three flag helpers agree with the wire bits for all 3 x 256 combinations (complete table, kernel-evaluated). Tied by 5 types x all 128 subsets of the optional fields x name pools (valid/invalid, lengths stretched to every residue) x 5 body kinds incl. descriptors x flags x serials x {LE,BE}: bytes vs model, conformance re-checked with an independent field walker, decoded again by the library; flags table exhaustive; standard_messages constructors.",
        "level_note": "Theorems are about the Lean model; the tie is differential (generated messages). Known finding: the four standard_messages constructors taking a &str panic on an argument containing NUL (they unwrap the refused push).",
        "assumptions": ["numeric fields are in range (flags < 256, serial/body length/nfds/reply serial < 2^32): guaranteed by the Rust types"],
    },
    "C06": {
        "id": "C06",
        "spec_ops": ["h.hdr", "h.msg"],
        "engine": "header",
        "trusted_base": COMMON_TB + [
            "modelled, not verified: strings as byte lists seen by the name validators as the characters U+00..U+FF (the code checks UTF-8 first and then ASCII-only classes: both reject every byte >= 0x80), Vec as list, the decoded DynamicHeader as the list of known fields (order not observable)",
        ],
        "level_text": "Proved in Lean for ARBITRARY byte strings: the fixed part is accepted iff endianness flag known, type 1-4, version 1, serial non-zero (fixed_iff_valid); header decoding returns (fixed, fields, used) iff the bytes start with a spec-valid header whose field array is a well-formed a(yv) value (C02's enc) in which every known code has its prescribed value type and a valid value, unknown codes >= 10 carry any valid variant nested <= 64, no code 0, no known field twice, required fields present - and the returned fields are exactly the known entries in order (decode_iff_valid); unknown entries inserted anywhere do not change the decoded fields (unknown_skipped, unknown_skipped_decode); the frame length announced to the receive loop from ANY prefix >= 16 bytes of a decodable message is its total length (frame_length) and never exceeds 128 MiB. Tied by foreign headers from an independent writer (valid and invalid types, required/optional fields, wrong value types, duplicates, unknown codes incl. 0 with variants of random deep type at any position, shuffled order, wrong version, zero serial, both byte orders), every single-byte fault / truncation of the header region of pooled messages, random bytes, and the frame-size computation of a real RecvConn on announced lengths around every limit.",
        "level_note": "Theorems are about the Lean model; the tie is differential. The field array limit (64 MiB) is enforced by the receive loop before decoding; decode_iff_valid carries it as a side condition.",
        "assumptions": ["the header region starts at offset 0 of the message buffer (16 = 0 mod 8), as the code's sub-cursor assumes"],
    },
    "C04": {
        "id": "C04",
        "engine": "crash",
        "trusted_base": COMMON_TB + [
            "modelled, not verified: that the three Rust decoders behave like the one decoder model `dec` is the C03/C04 correspondence (differential); `work` is a step count whose unit steps (one read, one comparison, one character of a signature, <= 7 padding bytes) are assumed O(1); size_of / align_of are those of 64-bit targets; the recorded unsafe-site obligations (Site.ok) transcribe the safety sections of std's from_raw_parts / copy_nonoverlapping / set_len documentation",
            "runtime facts no model exhibits, observed only by the worker-process runs: stack bytes per frame (2 MiB worker stacks), allocator behaviour (counting global allocator), std's unsafe-precondition checks in the debug-assertion build (confirmed active by a seeded unaligned from_raw_parts), Linux overcommit, a 30 s hang threshold",
        ],
        "level_text": "Proved in Lean on the decoder model for ARBITRARY byte strings, all types, both byte orders: a successful decode stays inside its limit and consumes at least one byte; bytes at or beyond the limit / outside the buffer cannot influence the result (every read is bounds-checked: dec_reads_only_below_limit, decodeFixed_reads_12, decodeHeader_reads_only_header); the element loops stop by themselves - any fuel >= the array's byte length gives the same result, the model's fuel is never the reason for a rejection (decList_fuel_sufficient, decEntries_fuel_sufficient, decodeFields_fuel_sufficient); an INSTRUMENTED copy of the decoder returns the same result (decW_same_result) plus counters, its recursion depth never exceeds the budget (<= 64 for validate / unmarshal, whatever the bytes: nesting bombs) and its work (decoder calls + loop iterations + string bytes + signature characters) is linear in the input length on success AND on failure: work <= max(size t, 256) * (1 + 65 * (lim - off)), whole bodies <= 255 + 256*65*n (decW_work_linear, validate_work_linear, body_work_linear); the slice fast path (Cow<[E]> / Vec<E>): every from_raw_parts / copy_nonoverlapping / set_len site meets its safety contract for every buffer, every base address mod 8 and both byte orders, borrows only when aligned, and returns exactly what the generic decoder returns (cow_sites_ok, vec_sites_ok, cow_eq_dec, vec_eq_dec); no unwrap is reachable after validation (sigIter_no_unwrap, has_sig_no_panic, get_param_parses_valid_only). What only the implementation can show - a crash is where it leaves the total model - is searched by WORKER PROCESSES (2 MiB stacks, catch_unwind, counting allocator, watchdog; a dying worker is bisected to the single input) running every decoding entry point (validate_marshalled, unmarshal_with_sig, typed get::<T> for 364 types incl. derived / macro types against matching AND mismatching signatures, get2/get3, get_param loop, unmarshall_all, unmarshal_header / dynamic_header / next_message, slice types) in an optimised and a debug-assertion build, both byte orders, the buffer at all 8 memory alignments, on valid encodings with all corruptions and truncations, nesting bombs to depth 10^5 (10^6 thorough), declared lengths up to 2^32-1 incl. real 64 MiB arrays, random bytes, signature-shape mismatches; accept/reject + consumed are compared with the model, alignment- or build-dependent results, decoder disagreements and allocations above 64 KiB + K*len are violations.",
        "level_note": "Partial by nature: stack bytes per frame, allocator behaviour and optimiser-dependent undefined behaviour are runtime facts the model cannot exhibit; the proof covers recursion depth, iteration counts, work and the stated unsafe preconditions, crashes are found only by the worker-process runs (sampled inputs).",
        "assumptions": ["validate_marshalled is called with offset <= buffer length (a larger offset is caller misuse, never reached from input bytes)", "native byte order = little endian in the slice model op"],
        "timeout_quick": 1500,
        "timeout_thorough": 7000,
    },
    "C09": {
        "id": "C09",
        "engine": "conn",
        "trusted_base": COMMON_TB + [
            "modelled, not verified (kernel assumptions, observed by the engine on a real socket): AF_UNIX stream = in-order byte stream; a recvmsg into a buffer of >= 1 byte returns EAGAIN or 1..min(requested, queued) bytes; SCM_RIGHTS descriptors ride on the first byte of the sendmsg they were attached to; at most 10 descriptors fit the control buffer; a zero-length recvmsg returns 0 bytes and still hands over the descriptors of the next byte (kept in the kernel model, proved never to be issued); the peer never hangs up during a history",
        ],
        "level_text": "Proved in Lean for ALL lists of well-formed frames, ALL histories (any interleaving of arriving bytes with read_once / guarded read_once / get_next_message calls, each call with any events during it) and ALL kernel answers (any short read, EAGAIN anywhere): the messages returned are exactly a prefix of the frames, in order, each with exactly its own bytes and its own descriptors; every byte and descriptor of the remaining frames is in the buffer / fds_in or still unread in the socket (nothing lost, nothing duplicated); no call fails or reports ConnectionClosed (reassembly, never_reports_closed); the buffer is always a prefix of the CURRENT frame, fds_in holds exactly its descriptors, the next recvmsg never asks for more than the rest of the current frame, refill issues no zero-length recvmsg and read_once on a complete buffer is a no-op (never_reads_past_frame, refill_issues_no_zero_length_recvmsg, read_once_on_complete_buffer_is_noop); a timed-out call changes nothing and is invisible to the rest of the history (timeout_is_noop, timed_out_call_is_invisible); complete histories return exactly the frames whatever the chunking (complete_history_returns_all, chunking_irrelevant, one_byte_at_a_time); the reservation never exceeds the current frame nor filled + 64 KiB (capacity_bounded); invalid / oversized announcements are refused before anything is read. Tied on a REAL DuplexConn (through the real auth code) to a scripted in-process peer in lock step: 2-3 message streams with descriptors on any message, every single and pair of split points incl. inside the fixed header, the length words and the padding, one byte at a time, EAGAIN probes between chunks, read_once on complete buffers with the next message (and its descriptors) already queued, all 8 header-length residues; bytes_needed, buffer_contains_whole_message and each call's result are compared with the model after every step; order, own header/body/descriptors, no leak, no read past the frame are checked directly.",
        "level_note": "Theorems are about the Lean model; kernel behaviour is an assumption (observed by the engine, not proved). A peer hang-up is outside the model. Frames are assumed well-formed (FrameOk: decodable, <= 10 descriptors).",
        "assumptions": ["descriptors are identified by the open file (dev, inode), not by number", "the engine's 'bytes taken' observation relies on FIONREAD"],
    },
    "C10": {
        "id": "C10",
        "engine": "conn",
        "trusted_base": COMMON_TB + [
            "modelled, not verified (kernel assumptions, observed by the engine on a real socket): sendmsg on a connected Unix stream socket takes min(k, offered) bytes for a kernel-chosen k, or refuses with EAGAIN, or fails, and changes nothing in the two latter cases; accepted bytes keep their order; SCM_RIGHTS descriptors attached to a sendmsg travel with the first byte that call queued; calc_timeout_left is an input event of write()",
        ],
        "level_text": "Proved in Lean for EVERY message (any header/body/descriptor lists), EVERY list of caller steps (each write_once outcome chosen by the kernel: any short count, EAGAIN, error; suspend/resume anywhere) and every event list of write(): the slice expression never panics, bytes_sent is the sum of the reported counts and never exceeds the total, the peer has received exactly the first bytes_sent bytes of header ++ body and the next sendmsg is offered exactly the unsent rest from the right offsets on both sides of the header/body seam (wire_is_prefix); descriptors are attached iff bytes_sent = 0 and are transferred at most once, exactly once as soon as one byte was accepted (fds_exactly_once); a failed call is invisible; all_bytes_written <-> counter = total <-> the peer has the whole message (complete_iff_all); write() returns Ok(serial) only then, never panics, and terminates within total calls when every sendmsg takes a byte; suspend/resume at any point of any history changes nothing (resume_continues); the reported serial is the header's bytes 8..12 in the message's byte order and what the peer received (reported_serial_is_header_serial, with C05's marshalHeader and C13's counter); Drop panics exactly on a partially sent message. Tied on a REAL DuplexConn with a small SO_SNDBUF against an in-process peer in lock step: messages from header-only to multi-MiB with 0-3 descriptors, observed short counts / EAGAIN are the model's inputs; what the kernel holds after every call, all_bytes_written, SCM_RIGHTS deliveries (by inode), the byte stream hash, the serial and the final drop are compared, and intact-once delivery is checked directly at the peer.",
        "level_note": "Theorems are about the Lean model; kernel behaviour is an assumption (observed, not proved). A kernel answering 0 bytes to a non-empty offer for ever would keep write() spinning (write_spins_on_zero_accepts states this corner; Linux blocks or returns EAGAIN instead).",
        "assumptions": ["between into_progress and resume no other send_message overwrites the connection's header buffer (documented precondition of resume)", "the peer's reads do not reorder the stream"],
    },
    "C11": {
        "id": "C11",
        "engine": "conn",
        "trusted_base": COMMON_TB + [
            "modelled, not verified: the process descriptor table (dup returns a number not open at that moment, close removes it), Arc as a reference count whose last decrement runs Drop, the socket as a FIFO of messages carrying open-file identities (SCM_RIGHTS: the receiver gets new descriptors for the same open files, at most 10 per message fit the control buffer), fstat (dev, inode) as the identity of an open file",
        ],
        "level_text": "Proved in Lean over ALL histories of push (typed, raw, multi, nested) / failing push / reset / send / receive / refused receive / unmarshal / take / dup / clone / drop: an invariant of the descriptor table (every library-created descriptor is open and referenced by exactly the live handles that hold it, or was taken, or was closed exactly once; reference counts are exact) holds initially and is preserved by every operation, hence no_double_close (the table's close-on-closed error state is unreachable), leak_free (when every handle is dropped, the open descriptors are exactly the caller's own and the taken ones), caller-owned descriptors are never closed or changed by the library (push duplicates: push_dups, push_raw_dups with index = position of the duplicate in the body's list), a failed multi-push closes exactly the duplicates it made (push_fail_rolls_back), UNIX_FDS = length of the list that is sent (unix_fds_header, with C05), a receiver gets descriptors for the same open files attached to that same message in FIFO order and no other (receive_same_files, per_message_fifo), a refused frame leaks nothing, an index beyond the list is an error (unmarshal_index), handles held are open (held_handle_open). Tied by random histories over REAL descriptors (temp files with distinct inodes) on a real DuplexConn with an echoing in-process peer: after EVERY step /proc/self/fd (minus the baseline) with the (dev, inode) behind each descriptor, the call's result and the number of close calls (verif hook) are compared with the model; leaks, double closes (EBADF via the hook log), foreign descriptors and wrong files are checked directly.",
        "level_note": "Theorems are about the Lean model; the tie is differential over sampled histories with an exact audit of the real descriptor table. Limits that are part of the statements: at most 10 descriptors per received message (cmsg buffer; README documents it); send transmits the descriptors that were not taken out of the body.",
        "assumptions": ["no other thread of the harness opens or closes descriptors during a history", "descriptor numbers are abstracted to creation-order ids"],
    },
    "C12": {
        "id": "C12",
        "engine": "fdconc",
        "trusted_base": COMMON_TB + [
            "assumed, not proved: SeqCst atomics behave as an interleaving of atomic steps; Arc is an atomic counter whose last decrement runs Drop; dup succeeds and returns a number that is not open at that moment; the verif_hooks schedule points (cargo feature, off by default) sit immediately before each atomic operation / system call of UnixFdInner and do not change its behaviour",
        ],
        "level_text": "Proved in Lean for ANY number of threads, ANY programs over take / get / dup / clone / drop and ANY schedule at the granularity of single atomic steps (load, compare_exchange, Arc increment / decrement, dup and close system calls): at most one take succeeds and it returns the original descriptor (at_most_one_take, take_returns_original); every operation invoked after a successful take has returned reports the descriptor as gone, on every clone, for ever (gone_after_take, taken_is_permanent); the strong count equals the number of live handles; the original is never closed while a handle is alive (not_closed_before_last_drop), never closed if it was taken (never_closed_if_taken), and closed exactly once - by the last drop - iff nobody took it, in every complete execution (closed_once_iff_not_taken). Tied through the verif_hooks schedule points: a deterministic scheduler over REAL threads running the REAL UnixFd code enumerates EVERY interleaving of small program sets (2 threads x <= 3 ops; thorough 3 threads) on clones of a handle wrapping a real descriptor; for every complete schedule the per-thread results, the dup/close log and the kernel state of the original are compared with the model run on the same schedule, and the property is evaluated directly on the execution.",
        "level_note": "Theorems are about the Lean small-step model; the memory model is assumed sequentially consistent at hook granularity (the code uses SeqCst). The implementation-side exploration is exhaustive only for the enumerated program sets.",
        "assumptions": ["orig != -1 (-1 is the cell's marker for taken)", "each thread drops the handles it still owns at the end of its program"],
        "timeout_thorough": 7000,
    },
    "C14": {
        "id": "C14",
        "engine": "conn",
        "trusted_base": COMMON_TB + [
            "modelled, not verified: HashMap<serial, message> as an association list, VecDeque as a list, the socket as the FIFO of whole messages the peer wrote (reassembly is C09), send of an error reply as an append to the peer's inbox, the filter as a verdict carried by each message",
        ],
        "level_text": "Proved in Lean for ALL finite histories interleaving arrivals (replies, errors, signals, calls; distinct reply serials) with try_get_* / wait_* / refill_once / try_refill_once / refill_all under ANY filter: the concrete state refines three abstract queues plus the owed unknown-method replies (refinement, refinement_step); every accepted message is handed out at most once and, once asked for, exactly once (exactly_once); replies and errors go only to the waiter for their reply serial and are that reply (right_consumer, right_consumer_by_kind, response_is_the_reply); signals and calls come out in arrival order (fifo); rejected messages are never handed out (rejected_never_delivered); each rejected call is answered by exactly one unknown-method error addressed to its caller - written immediately or returned by refill_all (rejected_call_answered_once); no unwrap panics on well-formed arrivals (no_panic; panic_reachable shows the excluded input: a reply without reply serial); a wait blocks only when the socket is drained. Tied by random histories on a REAL RpcConn over a real DuplexConn against the scripted peer (arrivals interleaved with all client operations under random filters), the whole observation log compared with the model; exactly-once, right consumer, order and the error replies read at the peer are checked directly.",
        "level_note": "Theorems are about the Lean model; the tie is differential over sampled histories. Blocking waits are only issued when the data is already in the socket.",
        "assumptions": ["reply serials of arriving replies are distinct (the property's hypothesis)", "arriving messages are well-formed frames (C06/C09)"],
    },
    "C16": {
        "id": "C16",
        "engine": "wire",
        "trusted_base": COMMON_TB + ["modelled, not verified: generated code (derive, macro_rules) is modelled by hand from the expansion rules in rustbus_derive/src/{structs,variants}.rs and wire/variant_macros.rs; SignatureIter's unwrap is modelled as a panic result"],
        "level_text": "All APIs denote (type, value) pairs and share one encoder model (marshalM = enc, C02) and one decoder model (dec, C03): equivalent values give identical bytes and every decoder returns what any encoder wrote (apis_encode_identically, apis_cross_decode). Proved for the generated code specifically: a derived enum decodes exactly the variants whose signature is one of its cases (first textual match) to the payload the generic variant decoder sees, and errors otherwise; a macro enum's Catchall skips exactly the value of a valid variant of a type outside its cases; has_sig of every type (basic, array, dict, tuple, DERIVED struct, variant) never panics on the signature of a well-formed single type and is true iff it is the type's own signature (shorter / longer / different structs are mismatches). Tied by 4 derived structs vs tuples vs Param trees (bytes, signature, cross decoding, x {LE,BE} x 8 offsets), 10 enum cases over derive / dbus_variant_sig! / dbus_variant_var! vs the typed variant wrapper vs the Param variant, variants of every catalogue type outside the enums' cases placed in the middle of a body (error without moving the parser / Catchall with the following values intact), has_sig of all 326 catalogue types and the derived structs against pools of valid signatures.",
        "level_note": "That the Rust expansion of the macros equals the hand-written model is differential. Derived types count no nesting levels of their own (see C03 note).",
        "assumptions": ["enum cases have valid, pairwise different signatures"],
    },
    "C17": {
        "id": "C17",
        "spec_ops": ["c17.addr", "c17.uid"],
        "engine": "auth",
        "trusted_base": COMMON_TB + ["modelled, not verified: Path::exists (an input predicate), UnixAddr::new / new_abstract (no NUL, shorter than 108 bytes), each stream.read result (a script event: chunk / eof / error), write_all (succeeds or fails atomically), env::var"],
        "level_text": "Proved in Lean: the address parser's result is characterised completely against a declarative relation for EVERY string (first path= / abstract= key of a unix: address wins, any other keys in any order are skipped, every other string is an error, never a panic); get_uid_as_hex is the hex encoding of the ASCII decimal digits for every uid; over EVERY finite server script (every chunking, every reply class, eof or error at any point, arbitrary bytes), every uid and both fd settings the client writes a prefix of NUL, AUTH EXTERNAL <hex>, [NEGOTIATE_UNIX_FD], BEGIN, each only after the previous reply line was accepted; success only on OK / AGREE_UNIX_FD; never BEGIN after a rejection; the handshake performs at most script.length + 1 reads and never panics; nothing is read after the last reply line, so a server that sends one line per command leaves all message bytes unread; the outcome is independent of the chunking when each reply's CRLF ends a read. Tied by forked children running connect_to_bus under 20 boundary uids and random uids, ~10^4 grammar-generated and mutated addresses through get_session_bus_path under a controlled environment with an independent oracle, and several hundred scripted handshakes (36 + 15 reply classes, close after every k bytes, all chunkings of short lines, long lines, pipelined replies, resets) with a watchdog; BEGIN-after-reject, CRLF, ordering, success-only-on-OK and 'message right after BEGIN received intact' are checked directly.",
        "level_note": "A server that neither answers nor closes blocks the client forever (no timeout exists in auth.rs): outside the property and the theorems. Observed behaviour outside the property: bytes behind a reply's CRLF in the same read are dropped, so a server that pipelines two replies makes the client wait for a reply it discarded.",
        "assumptions": ["the kernel may coalesce the server's chunks; the model is insensitive to that for the scripts the engine uses", "the forked-uid phase needs root (the sandbox runs as root)"],
    },
    "C15": {
        "id": "C15",
        "engine": "wire",
        "trusted_base": COMMON_TB + [
            "modelled, not verified: std::str::from_utf8 (RFC 3629 validity, Utf8.valid; tied by corrupted / random byte strings), Vec / slices as lists, HashMap as the entry list in its iteration order (the order is an input; decoded maps are compared after last-wins deduplication and sorting)",
            "the protocol glue of the driver and harness (type/value text syntax, canonicalisation of maps)",
        ],
        "level_text": "Proved in Lean over ALL histories: after any sequence of pushes (any arity, succeeding or failing at any inner element) and resets the body's bytes, signature and descriptor count are exactly the replay of the successful pushes since the last reset on an empty body (body_is_replay); a failed push leaves no trace; the rollback mechanism (truncate to the snapshot lengths) restores the snapshot from any state that merely extends it, and every marshaller only appends (push_only_appends, via marshalM = enc); the bytes/signature of a body built from values are the concatenated encodings/signatures (body_describes_pushed); a failed single, multi or dynamic get leaves the parser where it was; a successful get advances the signature index by exactly the type's signature and the byte index to exactly the end of the decoded value (which is the encoding of the returned value); asking for a type other than the next one of a valid signature is WrongSignature; builder->parser round trip for whole bodies. Tied by random histories over 16 builder operations (typed values, NUL strings, structs/arrays failing after partial output, push_param2..5 / push_params with a bad element at any position, push_variant, push_old_param(s) with a poisoned leaf, valid/taken descriptors incl. three of which the last is taken) observing buffer, signature, descriptor count and validate() after every operation, and parser histories over 14 get kinds on matching, mismatching and bit-flipped bodies; 'failed op leaves state unchanged', 'reset leaves nothing', 'body validates', 'no descriptor leaked' are checked directly on the implementation.",
        "level_note": "Theorems are about the Lean model; a failing marshaller's partial output is modelled as an arbitrary extension of the three buffers (append-only writes; back-patching only touches bytes after the snapshot). Typed has_sig is modelled as equality with the printed signature (tied on the get menu; proved for the model in C16/C04).",
        "assumptions": ["descriptors nested inside values are covered by C11; here they are top-level parameters"],
    },
    "C19": {
        "id": "C19",
        "spec_ops": ["c19.match"],
        "engine": "conn",
        "trusted_base": COMMON_TB + [
            "modelled, not verified: HashMap (association lists; the route map's iteration order is an arbitrary permutation at every lookup), the invoked handler's behaviour (an input), send_message + write_all (one boolean input: written completely or not at all), get_next_message / the socket (replies are checked by decoding them at the peer)",
        ],
        "level_text": "Proved in Lean for all patterns, paths, route tables, iteration orders and histories: ObjectPathPattern::new/matches return Some(captures) iff the declarative segment-by-segment relation holds, with exactly the captured segments (last wins); each dispatch step invokes exactly one handler, a route whose pattern matches (with that match's captures) or else the default handler; a unique matching pattern is chosen under EVERY iteration order of the HashMap; over all histories every message handled without error produces exactly one written message (the handler's reply, or for Ok(None) a method return with reply_serial = call serial and destination = call sender), a handler error writes nothing and ends the loop; the table consulted for any message is exactly the initial table overridden by registrations of earlier handlers that returned Ok (routes of failing handlers never apply). Tied exhaustively for the matcher (all patterns x paths over {empty,a,b,:x,*} up to 3 (thorough 4) segments through PathMatcher::insert/get_match, with an independent oracle), by random route tables (legal-choice judgement for the HashMap's order) and by histories through DispatchConn::run on a real connection to a scripted peer with logging handlers (Ok(None) / custom reply / unmarshallable reply / Err, adding and replacing routes), replies decoded at the peer.",
        "level_note": "Theorems are about the Lean model; the tie is exhaustive for the matcher up to the segment bound, sampled for tables and histories. run() also answers signals/returns with a method return (modelled; outside the property).",
        "assumptions": ["handlers are deterministic functions of their inputs for the purpose of the model run", "a partially written reply counts as a connection failure"],
    },
    "C01": {
        "id": "C01",
        "engine": "wire",
        "trusted_base": COMMON_TB + [
            "modelled, not verified: std::str::from_utf8 (RFC 3629 validity, Utf8.valid; tied by corrupted / random byte strings), Vec / slices as lists, HashMap as the entry list in its iteration order (the order is an input; decoded maps are compared after last-wins deduplication and sorting)",
            "the protocol glue of the driver and harness (type/value text syntax, canonicalisation of maps)",
        ],
        "level_text": "Proved in Lean (dec_enc, by induction over the nesting budget, for the full type algebra incl. strings, dicts and variants whose type is parsed from the signature bytes): for every type, value, byte order, prefix (= every start offset / alignment phase) and suffix, decoding what enc produced returns the same value and consumes exactly the produced bytes; the same for whole bodies (list of parameters) and for raw validation; what follows the value is irrelevant. The model is tied to the code by marshalling every type of a 326-type catalogue (all 2- and 3-deep combinations of array/dict/struct/variant over leaves of each alignment class, all basic types) x generated values x {LE,BE} x 8 offsets through the typed API and comparing bytes, decoded value and consumed length of typed unmarshal, Param unmarshal and validate_raw with the model, plus random Param trees; the round trip itself (decoded == original, consumed == produced, following value intact, body signature) is checked directly on the implementation for every case.",
        "level_note": "Theorems are about the Lean model (enc/dec); the tie is differential over the catalogue and random trees (bounded depth / sizes). Floats are their 64-bit patterns throughout; maps are compared as unordered maps.",
        "assumptions": ["values nest at most 64 container levels and arrays stay below 64 MiB (the protocol's limits, hypotheses of the theorems)"],
    },
    "C02": {
        "id": "C02",
        "spec_ops": ["w.enc"],
        "engine": "wire",
        "trusted_base": COMMON_TB + [
            "modelled, not verified: std::str::from_utf8 (RFC 3629 validity, Utf8.valid; tied by corrupted / random byte strings), Vec / slices as lists, HashMap as the entry list in its iteration order (the order is an input; decoded maps are compared after last-wins deduplication and sorting)",
            "the protocol glue of the driver and harness (type/value text syntax, canonicalisation of maps)",
        ],
        "level_text": "enc (Model/Wire.lean) is the D-Bus encoding as a recursive function of (byte order, absolute offset, type, value). Proved in Lean: (a) its shape is the specification's — every value starts with exactly the zero padding aligning its type relative to the body start, fixed-size types in the message byte order, booleans 0/1, strings/paths as 4-aligned u32 length + bytes + NUL with valid content, signatures u8 length + bytes + NUL, array length counting element bytes only with padding to the element alignment also when empty and <= 64 MiB, 8-aligned dict entries key-then-value, variants as signature then value, structs 8-aligned non-empty, descriptors as u32 index, layout depending on the offset only mod 8; (b) the marshalling MECHANISM of the code (append, pad_to_align from the buffer length, 4-byte length placeholder back-patched by insert_u32, the slice fast path writing length first and copying element bytes) computes exactly enc and fails exactly when enc has no value (marshalM_eq_enc, marshalSliceFastM_eq_enc); (c) only well-typed values have an encoding: NUL / invalid UTF-8 strings, invalid paths and signatures, out-of-range numbers, empty structs, invalid variant types are refused at every offset in both byte orders. Tied byte-for-byte to the typed Marshal impls (326-type catalogue x values x {LE,BE} x 8 offsets in a pre-filled MarshalContext) and to marshal_param (random Param trees up to the depth bound).",
        "level_note": "Theorems are about the Lean model; that the Rust marshallers emit exactly enc is differential (catalogue + random trees, both byte orders, all 8 phases). Descriptors are modelled as their index (dup / fd tables are C11).",
        "assumptions": ["the unencodable-value refusals of the typed API are exercised through the constructors that can produce them (&str with NUL, ObjectPath::new, SignatureWrapper::new); see C15 for rollback"],
    },
    "C03": {
        "id": "C03",
        "spec_ops": ["w.dec", "w.val"],
        "engine": "wire",
        "trusted_base": COMMON_TB + [
            "modelled, not verified: std::str::from_utf8 (RFC 3629 validity, Utf8.valid; tied by corrupted / random byte strings), Vec / slices as lists, HashMap as the entry list in its iteration order (the order is an input; decoded maps are compared after last-wins deduplication and sorting)",
            "the protocol glue of the driver and harness (type/value text syntax, canonicalisation of maps)",
        ],
        "level_text": "Proved in Lean for ARBITRARY byte strings: validate returns n iff the n bytes at the offset lie inside the buffer and are the encoding (C02's enc, at that offset and byte order) of some value of the signature nested at most 64 deep (validate_iff: exact accept set and exact byte count); unmarshal returns (v, off+n) iff validate returns n, the bytes are the encoding of v and all descriptor indices are below the attached count (unmarshal_iff); the encoding is injective so the returned value is the one the bytes denote; every accepted value occupies at least one byte. Tied to the three Rust decoders (validate_raw, Param unmarshal, typed unmarshal) on valid encodings, every single-byte corruption (+1, ^0x80, :=0, :=0xFF, truncation) of pooled encodings up to 96 bytes, the other byte order, and random byte strings under random signatures; agreement of the three decoders among themselves is checked directly.",
        "level_note": "Theorems are about one decoder model `dec`; that all three Rust decoders behave like it is differential (all single faults of small messages, random bytes). Typed decoders of statically nested Rust types do not count struct/array levels towards the 64 limit (only variants do): inputs nested deeper than 64 that only the typed API accepts are outside the catalogue's reach and are not claimed.",
        "assumptions": ["error kinds are collapsed to accept/reject", "the typed API is exercised for the catalogue types only"],
    },
    "C13": {
        "id": "C13",
        "engine": "conn",
        "trusted_base": COMMON_TB + [
            "modelled, not verified: NonZeroU32::checked_add (Nat with the explicit 2^32-1 bound); the socket only transports the frames whose serial field is read back",
        ],
        "level_text": "Proved in Lean for every history of alloc_serial / send / preset-send that does not overflow: every serial the connection issues itself is non-zero and strictly greater than every one issued before; a preset serial is used unchanged and consumes nothing; the overflow branch is characterised exactly (panic iff counter = u32::MAX; unreachable before 2^32-2 operations); every reply constructor copies the call's serial to the reply serial and its sender to the destination. Tied by random histories on a real SendConn (serial decoded from the transmitted frame at the scripted peer and compared with the value reported by write_all and with the model), thorough drives the counter to u32::MAX; reply constructors over generated headers, decoded at the peer.",
        "level_note": "Theorems are about the Lean model (a counter); faithfulness is differential on sampled histories. 'Reported serial = transmitted serial' is checked on the implementation directly for every send of every history.",
        "assumptions": ["the header serial field decoded by the library's own unmarshal_header is the transmitted one (independently cross-checked in C05)"],
    },
    "C07": {
        "id": "C07",
        "spec_ops": ["c07.s"],
        "engine": "lang",
        "trusted_base": COMMON_TB + [
            "modelled, not verified: char iteration / byte indexing of &str (List Char; the validator's (sig,pos) pair is modelled as (previous char, suffix)), Peekable (look-ahead of one character)",
        ],
        "level_text": "Proved in Lean for every string: the structural parser model returns ts exactly when the string denotes the valid type list ts of the grammar (<=255 chars, <=32 arrays, <=32 structs, no empty struct, dict entries only inside arrays, any basic key incl. boolean); the byte-level validator model accepts exactly the same strings; hence both agree on every string; printing a parse reproduces the input; the splitter yields exactly the top-level complete types of every valid signature and never reaches its unwrap. The three models are tied to parse_description+to_str, validate_signature, SignatureWrapper::new and SignatureIter exhaustively over all strings of the 19 type characters up to length 4 (thorough 5), on the depth/length boundary families, on grammar-generated signatures with all single-character mutations and on random strings; an independent recursive-descent oracle in the harness reports concrete failing strings.",
        "level_note": "Theorems are about the Lean model; the tie is exhaustive only up to the enumerated length, sampled beyond. SignatureIter is only specified (and only run) on valid signatures.",
        "assumptions": ["str/char primitives behave as their List Char models", "the grammar in Spec/Sig.lean (printed forms of well-formed types) is the D-Bus signature grammar"],
    },
    "C08": {
        "id": "C08",
        "spec_ops": ["c08.v", "c08.char"],
        "engine": "lang",
        "trusted_base": COMMON_TB + [
            "modelled, not verified: char::is_ascii_alphanumeric / is_ascii_digit (tied exhaustively over all 0x110000 scalar values), str::split / split_once / strip_prefix / len (tied by exhaustive short strings)",
        ],
        "level_text": "Proved in Lean for every string of Unicode scalar values: each of the five validator models accepts exactly the specification's language (inductive element/separator grammar, ASCII classes, leading-digit rules, >=2 elements, <=255 bytes, ':' prefix, '/' structure). The validator models are tied to the Rust functions exhaustively over all strings up to length 4 (thorough 5) of a 13-symbol alphabet, over every Unicode scalar value in first and later position, at the 255/256 boundaries and on random strings; ObjectPath::new and the header-name checks of marshal::marshal are checked to give the same verdicts. An independent byte-level oracle in the harness reports concrete failing names.",
        "level_note": "Theorems are about the Lean model; the tie is exhaustive only within the enumerated spaces (short strings, single characters), sampled beyond.",
        "assumptions": ["Rust str primitives (split, split_once, strip_prefix, chars, len) behave as their List Char models"],
    },
    "C20": {
        "id": "C20",
        "trusted_base": COMMON_TB + [
            "modelled, not verified: /dev/urandom and SystemTime are universally quantified inputs (u64,u32,u32) of the formatter; the id file is one Option cell",
        ],
        "engine": "conn",
        "level_text": "Proved in Lean for every draw (u64,u32,u32): the id has exactly 32 upper-case hex digits; for every call history the stored id is returned unchanged; the reply decision is exactly {Ping, GetMachineId} on org.freedesktop.DBus.Peer. The model is tied to the code by running the real formatter (verif hook) on boundary+random triples and handle_peer_message/filter_peer over generated headers against a scripted peer; replies are decoded at the peer end and checked for serial/destination/exactly-one.",
        "level_note": "Theorems are about the Lean model; faithfulness of the model is differential (sampled triples, 48 header shapes, real file creations). Random source, clock and the id file are modelled as inputs / one cell.",
        "assumptions": [
            "format!(\"{:0wX}\") = minimum-width zero-padded upper-case hex (tied on boundary + random triples through the verif hook)",
            "the file /tmp/dbus_machine_uuid behaves as a single cell that nobody else writes",
        ],
    },
}

ENGINES = [
    {"name": "lean-proofs", "path": "lean/RustbusModel", "serves_properties": sorted(CHECKS.keys()),
     "kind_free_text": "Lean 4 model (Model/), lemmas (Lemmas/), property theorems (Props/Cxx.lean), native driver modeld (Driver/)"},
    {"name": "lang", "path": "harness/src", "serves_properties": [p for p in sorted(CHECKS.keys()) if CHECKS[p].get("engine") == "lang"],
     "kind_free_text": "Rust harness: exhaustive enumeration of short strings / all characters through the validators and parsers"},
    {"name": "wire", "path": "harness/vcore/src/eng_wire.rs", "serves_properties": [p for p in sorted(CHECKS.keys()) if CHECKS[p].get("engine") == "wire"],
     "kind_free_text": "Rust harness: typed catalogue (326 monomorphised types), random Param trees, corruption stream; model ops w.enc / w.dec / w.body"},
    {"name": "header", "path": "harness/src/eng_hdr.rs", "serves_properties": [p for p in sorted(CHECKS.keys()) if CHECKS[p].get("engine") == "header"],
     "kind_free_text": "Rust harness: builder messages through marshal::marshal and back; foreign headers from an independent writer, corruptions, RecvConn frame sizing"},
    {"name": "auth", "path": "harness/src/eng_c17.rs", "serves_properties": [p for p in sorted(CHECKS.keys()) if CHECKS[p].get("engine") == "auth"],
     "kind_free_text": "Rust harness: scripted auth servers, forked uid children, address strings under a controlled environment"},
    {"name": "conn", "path": "harness/src", "serves_properties": [p for p in sorted(CHECKS.keys()) if CHECKS[p].get("engine") == "conn"],
     "kind_free_text": "Rust harness: real DuplexConn connected through the real auth code to an in-process scripted peer"},
    {"name": "crash", "path": "harness/src/eng_c04.rs", "serves_properties": [p for p in sorted(CHECKS.keys()) if CHECKS[p].get("engine") == "crash"],
     "kind_free_text": "Rust harness: worker processes (optimised + debug-assertion builds, 2 MiB stacks, counting allocator, watchdog) running every decoding entry point on corruptions, nesting bombs, huge declared lengths, random bytes at all 8 buffer alignments; a dying worker is bisected to the single input"},
    {"name": "fdconc", "path": "harness/src/eng_c12.rs", "serves_properties": [p for p in sorted(CHECKS.keys()) if CHECKS[p].get("engine") == "fdconc"],
     "kind_free_text": "Rust harness: deterministic scheduler over real threads running the real UnixFd code through the verif_hooks schedule points; enumerates every interleaving of small program sets"},
]

# reasons for properties that are not claimed (yet)
PENDING = {}
