#!/usr/bin/env python3
"""Regenerates /verif/MANIFEST.json from bin/checks_config.py (keeps the manifest valid and complete)."""
import json, os, subprocess, sys
VERIF = os.path.dirname(os.path.dirname(os.path.abspath(__file__)))
sys.path.insert(0, os.path.join(VERIF, "bin"))
from checks_config import CHECKS, ENGINES, PENDING

hook_commits = subprocess.run(["git", "-C", "/repo", "log", "--format=%h", "--grep=^verif hooks"], capture_output=True, text=True).stdout.split()
all_ids = [json.loads(l)["id"] for l in open(os.path.join(VERIF, "properties.jsonl"))]
checks = []
for pid in all_ids:
    if pid not in CHECKS:
        continue
    c = CHECKS[pid]
    checks.append({
        "property_id": pid,
        "quick_cmd": "bin/check %s --tier quick" % pid,
        "thorough_cmd": "bin/check %s --tier thorough" % pid,
        "evidence_file": "/verif/evidence/%s.json" % pid,
        "replay_cmd_template": "bin/check %s --replay {path}" % pid,
        "engine": c.get("engine", "lean-proofs"),
        "level_claimed": {"category": "proof", "text": c["level_text"], "design_ref": c.get("design_ref", "DESIGN.md §8 " + pid)},
        "level_note": c["level_note"],
        "technique": c.get("technique", "Lean 4 theorems over a hand-written executable model + model/implementation correspondence run"),
    })
na = [{"property_id": p, "reason": PENDING.get(p, "check not built yet (work in progress); see DESIGN.md for the plan")} for p in all_ids if p not in CHECKS]
m = {
    "version": 1,
    "setup_cmd": "cd /verif && bin/check --setup",
    "hooks": {
        "guard": "cargo feature verif_hooks (crate rustbus)",
        "enable": "the harness depends on rustbus by path with features=[\"verif_hooks\"]; built by `cd /verif/harness && cargo build --release --offline` inside every check",
        "baseline_off_cmd": "cd /repo && cargo test --workspace --no-fail-fast --offline",
        "source_commits": hook_commits,
        "add_only": True,
    },
    "engines": ENGINES,
    "checks": checks,
    "notes": "All checks: Lean 4 proofs about a hand-written model (lean/RustbusModel) + a correspondence run of the model (native driver modeld) against the real code (harness/). See DESIGN.md.",
    "not_applicable": na,
}
json.dump(m, open(os.path.join(VERIF, "MANIFEST.json"), "w"), indent=1)
print("claimed:", [c["property_id"] for c in checks], "not claimed:", [n["property_id"] for n in na])
