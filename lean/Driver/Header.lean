import RustbusModel.Model.Proto
import RustbusModel.Model.Header
import RustbusModel.Spec.Header
namespace Driver.Header
open Rustbus Rustbus.Proto Rustbus.Header

def showField : Field → String
  | .path s => "1:" ++ toHex s
  | .interface s => "2:" ++ toHex s
  | .member s => "3:" ++ toHex s
  | .errorName s => "4:" ++ toHex s
  | .replySerial n => "5:" ++ toString n
  | .destination s => "6:" ++ toHex s
  | .sender s => "7:" ++ toHex s
  | .signature s => "8:" ++ toHex s
  | .unixFds n => "9:" ++ toString n

/-- the library hands the decoded fields out as a struct: the order is not observable, print by code -/
def insertByCode (f : Field) : List Field → List Field
  | [] => [f]
  | g :: gs => if f.code ≤ g.code then f :: g :: gs else g :: insertByCode f gs

def showFields (fs : List Field) : String :=
  if fs.isEmpty then "-" else ",".intercalate ((fs.foldr insertByCode []).map showField)

def showFixed (fx : Fixed) : String :=
  s!"{if fx.bo = .le then "le" else "be"} typ={fx.typ} flags={fx.flags} bodylen={fx.bodyLen} serial={fx.serial}"

def optHex (s : String) : Option (Option (List UInt8)) :=
  if s == "~" then some none else (parseHex s).map some
def optNat (s : String) : Option (Option Nat) :=
  if s == "~" then some none else s.toNat?.map some

def handle : List String → String
  | ["h.msg", hx] =>
    match parseHex hx with
    | some buf =>
      match decodeMessage buf with
      | some (fx, fs, body) => s!"ok {showFixed fx} fields={showFields fs} body={toHex body}"
      | none => "reject"
    | none => "bad-op"
  | ["h.hdr", hx] =>
    match parseHex hx with
    | some buf =>
      match decodeHeader buf with
      | some (fx, fs, used) => s!"ok {showFixed fx} fields={showFields fs} used={used}"
      | none => "reject"
    | none => "bad-op"
  | ["h.need", hx] =>
    match parseHex hx with
    | some buf =>
      match bytesNeeded buf with
      | .bytes n => s!"need {n}"
      | .tooLong => "toolong"
      | .invalid => "invalid"
    | none => "bad-op"
  -- h.mar bo typ flags serial rs iface dest sender member path err sig body nfds
  | [op, bo, typ, flags, serial, rs, iface, dest, sender, member, path, err, sg, body, nfds] =>
    let spec := op == "h.marspec"
    if op != "h.mar" && op != "h.marspec" then "bad-op" else
    match (if bo == "le" then some ByteOrder.le else if bo == "be" then some .be else none),
          typ.toNat?, flags.toNat?, serial.toNat?, optNat rs, optHex iface, optHex dest, optHex sender with
    | some bo, some typ, some flags, some serial, some rs, some iface, some dest, some sender =>
      match optHex member, optHex path, optHex err, parseHex sg, parseHex body, nfds.toNat? with
      | some member, some path, some err, some sg, some body, some nfds =>
        let m : Msg := Msg.mk bo typ flags rs iface dest sender member path err sg body nfds
        if spec then
          -- the declarative description: fixed bytes ++ enc at a(yv) of the message's entries, padded
          let ok := 1 ≤ m.typ ∧ m.typ ≤ 4 ∧
            (Spec.Header.msgEntries m).all (fun e => e.1 == 5 || e.1 == 9 ||
              (match Spec.Header.entryField e with | some (some _) => true | _ => false))
          match Wire.enc m.bo 12 Spec.Header.fieldArrayTy (.arr ((Spec.Header.msgEntries m).map Spec.Header.entryVal)) with
          | some arr =>
            let out := padTo 8 (Spec.Header.fixedBytes ⟨m.bo, m.typ, m.flags, m.body.length, serial⟩ ++ arr)
            if ok ∧ out.length + m.body.length ≤ maxMessageLen then toHex out else "refuse"
          | none => "refuse"
        else
        match marshalHeader m serial with
        | some bs => toHex bs
        | none => "refuse"
      | _, _, _, _, _, _ => "bad-op"
    | _, _, _, _, _, _, _, _ => "bad-op"
  | ["h.flag", i, f] =>
    match i.toNat?, f.toNat? with
    | some i, some f => s!"{isSet i f} {setFlag i f} {unsetFlag i f} {toggleFlag i f} raw={flagRaw i}"
    | _, _ => "bad-op"
  | _ => "bad-op"

end Driver.Header
