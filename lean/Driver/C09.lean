import RustbusModel.Model.Proto
import RustbusModel.Model.Recv
namespace Driver.C09
open Rustbus Rustbus.Proto Rustbus.Recv Rustbus.Header

/-- "as much as there is": the kernel returns min(requested, available) -/
def big : Nat := 4294967296

def dotNats (s : String) : Option (List Nat) :=
  if s == "-" then some [] else
  (s.splitOn ".").foldr (fun t acc =>
    match t.toNat?, acc with
    | some n, some r => some (n :: r)
    | _, _ => none) (some [])

def showDots (ns : List Nat) : String :=
  if ns.isEmpty then "-" else ".".intercalate (ns.map toString)

/-- `<hex>/<fd ids joined by .>` or `<hex>/<fd ids>@<index of the byte the descriptors ride on>` -/
def parseFrame (s : String) : Option (Frame × Nat) :=
  match s.splitOn "/" with
  | [h, f] =>
    let (fpart, pos) := match f.splitOn "@" with
      | [a, b] => (a, b.toNat?)
      | _ => (f, some 0)
    match parseHex h, dotNats fpart, pos with
    | some b, some fds, some k => some ({ bytes := b, fds := fds }, k)
    | _, _, _ => none
  | _ => none

/-- the peer's placement of the descriptors, as the request line says (frames are distinct: serials differ) -/
def placement (l : List (Frame × Nat)) (f : Frame) : Nat :=
  match l.find? (fun x => x.1 == f) with
  | some x => x.2
  | none => 0

/-- `a<n>`: the peer sends the next n bytes; `r<k>` / `m<k>`: read_once / guarded read_once whose recvmsg
    gets `k` bytes from the kernel (0: EAGAIN); `g`: get_next_message(Nonblock), every recvmsg of its
    loop gets whatever is available -/
def parseStep (s : String) : Option Action :=
  if s == "g" then some (.call .getNext (List.replicate 64 (.deliver big)))
  else if s.startsWith "a" then (s.drop 1).toString.toNat?.map Action.arrive
  else if s.startsWith "r" then (s.drop 1).toString.toNat?.map (fun k => Action.call .readOnce [.deliver k])
  else if s.startsWith "m" then (s.drop 1).toString.toNat?.map (fun k => Action.call .readMore [.deliver k])
  else none

def cksum (bs : List UInt8) : Nat :=
  let p := bs.foldl (fun (p : Nat × Nat) x =>
    let a := (p.1 + x.toNat) % 65521
    (a, (p.2 + a) % 65521)) (1, 0)
  p.2 * 65536 + p.1

def showRes : Res → String
  | .readOk => "ok"
  | .skipped => "skip"
  | .timedOut => "to"
  | .closed => "closed"
  | .invalid => "invalid"
  | .tooLong => "toolong"
  | .malformed => "malformed"
  | .msg b f =>
    match decodeMessage b with
    | some (fx, _, body) => s!"msg:{fx.serial}:{body.length}:{cksum body}:{showDots f}"
    | none => "msg:?"

def showNeeded (st : State) : String :=
  match bytesNeeded st.buf with
  | .bytes n => toString n
  | .tooLong => "toolong"
  | .invalid => "invalid"

def showWhole (st : State) : String :=
  match check st with
  | .whole => "t"
  | .need _ => "f"
  | .err .tooLong => "toolong"
  | .err _ => "invalid"

def exec (st : State) (w : World) : List Action → List String → List String
  | [], acc => acc.reverse
  | .arrive n :: acts, acc => exec st (w.arrive n) acts acc
  | .call c evs :: acts, acc =>
    match step c st w evs with
    | (r, st', w') => exec st' w' acts (s!"{showRes r}/{showNeeded st'}/{showWhole st'}" :: acc)

def handle : List String → String
  | ["c09.run", frames, script] =>
    match (frames.splitOn "|").mapM parseFrame, (script.splitOn ",").mapM parseStep with
    | some fs, some acts =>
      let obs := exec State.empty (World.init (placement fs) (fs.map Prod.fst)) acts []
      if obs.isEmpty then "-" else ";".intercalate obs
    | _, _ => "bad-op"
  | _ => "bad-op"

end Driver.C09
