import RustbusModel.Model.Proto
namespace Driver.C17
open Rustbus Rustbus.Proto

/-- line protocol handler for the ops `c17.*` (tokens of one request line → one response line) -/
def handle : List String → String
  | _ => "bad-op"

end Driver.C17
