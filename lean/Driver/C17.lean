import RustbusModel.Model.Proto
import RustbusModel.Model.Auth
namespace Driver.C17
open Rustbus Rustbus.Proto Rustbus.Auth

def showCps (s : List Char) : String :=
  if s.isEmpty then "-" else ",".intercalate (s.map (fun c => toString c.toNat))

def showAddr : AddrResult → String
  | .path p => "path " ++ showCps p
  | .abstract a => "abstract " ++ showCps a
  | .errNoAddress => "err:noaddr"
  | .errNotSupported => "err:unsupported"
  | .errPathMissing p => "err:missing " ++ showCps p
  | .errIo => "err:io"

/-- `-` or `;`-separated code point lists: the values for which `Path::exists` holds -/
def parseExists (s : String) : Option (List (List Char)) :=
  if s == "-" then some [] else (s.splitOn ";").mapM parseCodepoints

def parseEv (s : String) : Option Ev :=
  if s == "e" then some .eof
  else if s == "x" then some .err
  else if s.startsWith "c" then (parseHex (s.drop 1).toString).map Ev.chunk
  else none

def parseScript (s : String) : Option (List Ev) :=
  if s == "-" then some [] else (s.splitOn ",").mapM parseEv

/-- indices of the write attempts that fail -/
def parseWok (s : String) : Option (Nat → Bool) :=
  (parseNats s).map (fun l k => !(l.contains k))

def showFail : Fail → String
  | .eof => "io:eof"
  | .invalidData => "io:invalid"
  | .ioOther => "io:other"
  | .panic => "panic"

def showConn : ConnResult → String
  | .ok => "ok"
  | .authFailed => "authfailed"
  | .fdFailed => "fdfailed"
  | .fail f => showFail f

def showStep : StepRes → String
  | .ok => "ok"
  | .rejected => "rejected"
  | .fail f => showFail f

def showTrace (st : St) : String := toHex st.written.flatten

def handle : List String → String
  | ["c17.addr", env, ex] =>
    let envv := if env == "~" then some none else (parseCodepoints env).map some
    match envv, parseExists ex with
    | some e, some l => showAddr (sessionBusPath (fun p => l.contains p) e)
    | _, _ => "bad-op"
  | ["c17.sys", ex] => showAddr (systemBusPath (fun _ => ex == "1"))
  | ["c17.uid", uid] =>
    match uid.toNat? with
    | some u =>
      match getUidAsHex u with
      | some h => "auth=" ++ toHex (authLine h)
      | none => "panic"
    | none => "bad-op"
  | ["c17.conn", uid, fd, wf, script] =>
    match uid.toNat?, parseWok wf, parseScript script with
    | some u, some wok, some s =>
      let (st, r) := connect wok u (fd == "1") s
      s!"res={showConn r} trace={showTrace st}"
    | _, _, _ => "bad-op"
  | ["c17.auth", uid, wf, script] =>
    match uid.toNat?, parseWok wf, parseScript script with
    | some u, some wok, some s =>
      let (st, r) := doAuth wok u { script := s }
      s!"res={showStep r} trace={showTrace st}"
    | _, _, _ => "bad-op"
  | ["c17.neg", wf, script] =>
    match parseWok wf, parseScript script with
    | some wok, some s =>
      let (st, r) := negotiateUnixFds wok { script := s }
      s!"res={showStep r} trace={showTrace st}"
    | _, _ => "bad-op"
  | ["c17.begin", wf] =>
    match parseWok wf with
    | some wok =>
      let (st, r) := sendBegin wok { script := [] }
      s!"res={showStep r} trace={showTrace st}"
    | none => "bad-op"
  | _ => "bad-op"

end Driver.C17
