import Driver.WireProto
import RustbusModel.Model.HasSig
import RustbusModel.Model.Enums
namespace Driver.C16
open Rustbus Rustbus.Proto Rustbus.Wire Rustbus.Enums Driver.WireProto

def handle : List String → String
  -- c16.hassig <ty> <sig>
  | ["c16.hassig", ty, sg] =>
    match parseTy ty with
    | some t =>
      match HasSig.hasSig t sg.toList with
      | some b => toString b
      | none => "panic"
    | none => "bad-op"
  -- c16.enum <derive|catchall> <bo> <cases: sig,sig,..> <off> <hex>
  | ["c16.enum", kind, bo, cases, off, hx] =>
    match parseBo bo, (cases.splitOn ",").mapM parseTy, off.toNat?, parseHex hx with
    | some bo, some cs, some off, some buf =>
      if kind == "derive" then
        match decDerive bo buf (some 0) cs off buf.length with
        | some (i, v, o') =>
          match cs[i]? with
          | some t => s!"case {i} {showVal (canon t v)} used={o' - off}"
          | none => "bad-op"
        | none => "err"
      else
        match decCatchall bo buf (some 0) cs off buf.length with
        | some (.case i v, o') =>
          match cs[i]? with
          | some t => s!"case {i} {showVal (canon t v)} used={o' - off}"
          | none => "bad-op"
        | some (.catchall t, o') => s!"catchall {String.ofList t.toStr} used={o' - off}"
        | none => "err"
    | _, _, _, _ => "bad-op"
  | _ => "bad-op"

end Driver.C16
