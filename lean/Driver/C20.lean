import RustbusModel.Model.Proto
import RustbusModel.Model.PeerId
namespace Driver.C20
open Rustbus Rustbus.Proto

def optName (s : String) : Option (Option (List Char)) :=
  if s == "~" then some none else (parseCodepoints s).map some

def handle : List String → String
  | ["c20.fmt", a, b, c] =>
    match a.toNat?, b.toNat?, c.toNat? with
    | some r1, some r2, some s => String.ofList (PeerId.formatMachineUuid r1 r2 s)
    | _, _, _ => "bad-op"
  | ["c20.peer", i, m] =>
    match optName i, optName m with
    | some i, some m =>
      match PeerId.handlePeer i m with
      | .notHandled => s!"nothandled filter={PeerId.filterPeer i m}"
      | .replied b => s!"replied id={b} filter={PeerId.filterPeer i m}"
    | _, _ => "bad-op"
  | ["c20.getid", cell, a, b, c] =>
    match a.toNat?, b.toNat?, c.toNat? with
    | some r1, some r2, some s =>
      let cell := if cell == "~" then none else some cell.toList
      let (id, cell') := PeerId.getMachineId cell r1 r2 s
      s!"{String.ofList id} {match cell' with | some x => String.ofList x | none => "~"}"
    | _, _, _ => "bad-op"
  | _ => "bad-op"

end Driver.C20
