import RustbusModel.Model.Proto
import RustbusModel.Model.PeerId
import RustbusModel.Model.PeerReply
namespace Driver.C20
open Rustbus Rustbus.Proto

def optName (s : String) : Option (Option (List Char)) :=
  if s == "~" then some none else (parseCodepoints s).map some

def handle : List String → String
  | ["c20.fmt", a, b, c] =>
    match a.toNat?, b.toNat?, c.toNat? with
    | some r1, some r2, some s => String.ofList (PeerId.formatMachineUuid r1 r2 s)
    | _, _, _ => "bad-op"
  | ["c20.peer", i, m] =>
    match optName i, optName m with
    | some i, some m =>
      match PeerId.handlePeer i m with
      | .notHandled => s!"nothandled filter={PeerId.filterPeer i m}"
      | .replied b => s!"replied id={b} filter={PeerId.filterPeer i m}"
    | _, _ => "bad-op"
  | ["c20.getid", cell, a, b, c] =>
    match a.toNat?, b.toNat?, c.toNat? with
    | some r1, some r2, some s =>
      let cell := if cell == "~" then none else some cell.toList
      let (id, cell') := PeerId.getMachineId cell r1 r2 s
      s!"{String.ofList id} {match cell' with | some x => String.ofList x | none => "~"}"
    | _, _, _ => "bad-op"
  | ["c20.handle", serial, sender, i, m, cell, a, b, c, wrote, typ] =>
    match serial.toNat?, optName sender, optName i, optName m, a.toNat?, b.toNat?, c.toNat? with
    | some ser, some snd, some i, some m, some r1, some r2, some s =>
      let callSerial : Option Nat := if ser == 0 then none else some ser
      let call : Serial.Hdr := ⟨callSerial, snd, none, none, none, false⟩
      let cell := if cell == "~" then none else some cell.toList
      let inc : PeerId.Incoming := ⟨typ == "1", call, i, m, r1, r2, s, wrote == "1"⟩
      let (res, out, cell') := PeerId.handlePeerMessage inc cell
      let rs := match res with | .ok b => s!"ok:{b}" | .sendErr => "senderr"
      let os := out.map (fun r =>
        let showO := fun (o : Option (List Char)) => match o with | some x => String.ofList x | none => "~"
        let rser := match r.hdr.replySerial with | some n => toString n | none => "~"
        s!"[rs={rser} dest={showO r.hdr.destination} err={r.hdr.isError} serial={match r.hdr.serial with | some n => toString n | none => "~"} body={showO r.body}]")
      s!"{rs} n={out.length} {" ".intercalate os} cell={match cell' with | some x => String.ofList x | none => "~"}"
    | _, _, _, _, _, _, _ => "bad-op"
  | _ => "bad-op"

end Driver.C20
