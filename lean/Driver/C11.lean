import RustbusModel.Model.Proto
import RustbusModel.Model.FdTable
namespace Driver.C11
open Rustbus Rustbus.Proto Rustbus.FdTable

/-
Request:  c11.run <op> <op> ...
  o<f> userOpen file f | x<r> userClose raws[r] | w<r> wrap raws[r] | nb newBody
  p<b>:<items>[:<shape>]  items = comma separated h<n> / r<n> / bad   (shape is ignored: nesting position)
  rs<b> reset | db<b> dropBody | s<b> send | ps<files>:<idx>:<0|1> peerSend | rc receive
  u<b>:<j> unmarshal the j-th fd value of body b | t<h> take | g<h> get | d<h> dup | c<h> clone | dh<h> drop
Response: one token per step  <result>;<open table: files in creation order, '.'-separated>;<closes by the library>
-/

def natAfter (s : String) (n : Nat) : Option Nat := (s.drop n).toString.toNat?

def parseItem (t : String) : Option Item :=
  if t == "bad" then some .bad
  else if t.startsWith "h" then (natAfter t 1).map Item.handle
  else if t.startsWith "r" then (natAfter t 1).map Item.raw
  else none

def parseItems (t : String) : Option (List Item) :=
  if t == "-" then some [] else (t.splitOn ",").mapM parseItem

def parseOp (t : String) : Option Op :=
  if t == "nb" then some .newBody
  else if t == "rc" then some .receive
  else if t.startsWith "ps" then
    match ((t.drop 2).toString.splitOn ":") with
    | [fs, ix, v] =>
      match parseNats fs, parseNats ix with
      | some fs, some ix => some (.peerSend fs ix (v == "1"))
      | _, _ => none
    | _ => none
  else if t.startsWith "p" then
    match ((t.drop 1).toString.splitOn ":") with
    | b :: its :: _ =>
      match b.toNat?, parseItems its with
      | some b, some its => some (.push b its)
      | _, _ => none
    | _ => none
  else if t.startsWith "rs" then (natAfter t 2).map Op.reset
  else if t.startsWith "db" then (natAfter t 2).map Op.dropBody
  else if t.startsWith "dh" then (natAfter t 2).map Op.dropHandle
  else if t.startsWith "s" then (natAfter t 1).map Op.send
  else if t.startsWith "u" then
    match ((t.drop 1).toString.splitOn ":") with
    | [b, j] =>
      match b.toNat?, j.toNat? with
      | some b, some j => some (.unmarshalFd b j)
      | _, _ => none
    | _ => none
  else if t.startsWith "o" then (natAfter t 1).map Op.userOpen
  else if t.startsWith "x" then (natAfter t 1).map Op.userClose
  else if t.startsWith "w" then (natAfter t 1).map Op.wrap
  else if t.startsWith "t" then (natAfter t 1).map Op.take
  else if t.startsWith "g" then (natAfter t 1).map Op.get
  else if t.startsWith "D" then (natAfter t 1).map Op.dupHandleFail
  else if t.startsWith "d" then (natAfter t 1).map Op.dupHandle
  else if t.startsWith "c" then (natAfter t 1).map Op.cloneHandle
  else none

def dots (ns : List Nat) : String :=
  if ns.isEmpty then "-" else ".".intercalate (ns.map toString)

def rankOf (s : State) (d : Nat) : String :=
  match (keys s.open).idxOf? d with
  | some i => toString i
  | none => "closed"

/-- files behind the descriptors of a list of cells (`t` = taken, `x` = not open) -/
def cellFiles (s : State) (fds : List Nat) : String :=
  if fds.isEmpty then "-" else
  ".".intercalate (fds.map (fun c =>
    match s.cells[c]? with
    | some x => if x.taken then "t" else
        match lookupFd s.open x.fd with
        | some f => toString f
        | none => "x"
    | none => "?"))

def resStr : Res → String
  | .ok => "ok" | .illegal => "ill" | .err => "err" | .empty => "empty"
  | .fd none => "none" | .fd (some _) => "fd"

def extra (op : Op) (s' : State) (r : Res) : String :=
  match op, r with
  | .push b _, _ =>
    match s'.bodies[b]? with
    | some bd => s!"/n{bd.fds.length},i{dots bd.idx}"
    | none => ""
  | .send _, .ok =>
    match s'.wire.getLast? with
    | some m => s!"/n{m.nfds},f{dots m.files}"
    | none => ""
  | .receive, .ok =>
    match s'.bodies.getLast? with
    | some bd => s!"/f{cellFiles s' bd.fds}"
    | none => ""
  | .unmarshalFd _ _, .ok =>
    match s'.handles.getLast? with
    | some (some c) =>
      match s'.cells[c]? with
      | some x => if x.taken then "/rt" else s!"/r{rankOf s' x.fd}"
      | none => "/?"
    | _ => "/?"
  | _, .fd (some d) => s!"/{rankOf s' d}"
  | _, _ => ""

def stepStr (s : State) (op : Op) : State × String :=
  let (s', r) := step s op
  let tbl := dots (s'.open.map (·.2))
  let nclosed := s'.libClosed.length - s.libClosed.length
  let e := if s'.err then "!ERRSTATE" else ""
  (s', s!"{resStr r}{extra op s' r};{tbl};{nclosed}{e}")

def runStr (s : State) : List Op → List String
  | [] => []
  | op :: ops => let (s', t) := stepStr s op; t :: runStr s' ops

def handle : List String → String
  | "c11.run" :: toks =>
    match toks.mapM parseOp with
    | some ops => if ops.isEmpty then "-" else " ".intercalate (runStr State.init ops)
    | none => "bad-op"
  | _ => "bad-op"

end Driver.C11
