import RustbusModel.Model.Proto
import RustbusModel.Model.Wire
/-
Text protocol for types and values (trusted glue, not part of any theorem):
  type  : D-Bus signature syntax, parsed by a small protocol parser of its own (not the modelled one)
  value : 123 | x<hex> | [v,v,..] | (v,v,..) | <sig>v       (a dict is the array of its (k,v) structs)
-/
namespace Driver.WireProto
open Rustbus Rustbus.Proto

mutual
partial def pTy : List Char → Option (Ty × List Char)
  | [] => none
  | 'a' :: '{' :: k :: rest =>
    match Base.ofChar k, pTy rest with
    | some kb, some (v, '}' :: r) => some (.dict kb v, r)
    | _, _ => none
  | 'a' :: rest => (pTy rest).map (fun (e, r) => (.array e, r))
  | '(' :: rest => (pTys rest).bind (fun (fs, r) => match r with | ')' :: r' => some (.struct fs, r') | _ => none)
  | 'v' :: rest => some (.variant, rest)
  | c :: rest => (Base.ofChar c).map (fun b => (.base b, rest))
partial def pTys : List Char → Option (List Ty × List Char)
  | [] => some ([], [])
  | ')' :: r => some ([], ')' :: r)
  | '}' :: r => some ([], '}' :: r)
  | s => match pTy s with
    | some (t, r) => (pTys r).map (fun (ts, r') => (t :: ts, r'))
    | none => none
end

def parseTy (s : String) : Option Ty :=
  match pTy s.toList with
  | some (t, []) => some t
  | _ => none

def parseTys (s : String) : Option (List Ty) :=
  if s == "-" then some [] else
  match pTys s.toList with
  | some (ts, []) => some ts
  | _ => none

def takeWhile (p : Char → Bool) : List Char → List Char × List Char
  | [] => ([], [])
  | c :: cs => if p c then let (a, b) := takeWhile p cs; (c :: a, b) else ([], c :: cs)

mutual
partial def pVal : List Char → Option (Val × List Char)
  | 'x' :: rest =>
    let (h, r) := takeWhile (fun c => (hexDigitVal c).isSome) rest
    (parseHexChars h).map (fun bs => (.str bs, r))
  | '[' :: rest => (pVals ']' rest).map (fun (vs, r) => (.arr vs, r))
  | '(' :: rest => (pVals ')' rest).map (fun (vs, r) => (.struct vs, r))
  | '<' :: rest =>
    let (sg, r) := takeWhile (· ≠ '>') rest
    match r, pTy sg with
    | '>' :: r', some (t, []) => (pVal r').map (fun (v, r'') => (.variant t v, r''))
    | _, _ => none
  | s =>
    let (ds, r) := takeWhile Char.isDigit s
    if ds.isEmpty then none else (String.ofList ds).toNat?.map (fun n => (.num n, r))
partial def pVals (close : Char) : List Char → Option (List Val × List Char)
  | [] => none
  | c :: rest =>
    if c = close then some ([], rest)
    else
      let s := if c = ',' then rest else c :: rest
      match pVal s with
      | some (v, r) => (pVals close r).map (fun (vs, r') => (v :: vs, r'))
      | none => none
end

def parseVal (s : String) : Option Val :=
  match pVal s.toList with
  | some (v, []) => some v
  | _ => none

mutual
partial def showVal : Val → String
  | .num n => toString n
  | .str bs => "x" ++ (if bs.isEmpty then "" else toHex bs)
  | .arr vs => "[" ++ ",".intercalate (showVals vs) ++ "]"
  | .struct vs => "(" ++ ",".intercalate (showVals vs) ++ ")"
  | .variant t v => "<" ++ String.ofList t.toStr ++ ">" ++ showVal v
partial def showVals : List Val → List String
  | [] => []
  | v :: vs => showVal v :: showVals vs
end

/-- insert (k, entry) into a list sorted by key; an equal key is replaced (later entry wins, as a map insert) -/
def insertEntry (k : String) (e : Val) : List (String × Val) → List (String × Val)
  | [] => [(k, e)]
  | (k', e') :: rest =>
    if k = k' then (k, e) :: rest
    else if k < k' then (k, e) :: (k', e') :: rest
    else (k', e') :: insertEntry k e rest

mutual
/-- canonical form for comparison with HashMap based decoders: dict entries deduplicated (last wins)
    and sorted by the rendering of the key -/
partial def canon : Ty → Val → Val
  | .array e, .arr vs => .arr (vs.map (canon e))
  | .dict _ vt, .arr es =>
    let m := es.foldl (fun acc e =>
      match e with
      | .struct [k, v] => insertEntry (showVal k) (.struct [k, canon vt v]) acc
      | _ => acc) []
    .arr (m.map (·.2))
  | .struct fs, .struct vs => .struct (canonFields fs vs)
  | .variant, .variant t v => .variant t (canon t v)
  | _, v => v
partial def canonFields : List Ty → List Val → List Val
  | t :: ts, v :: vs => canon t v :: canonFields ts vs
  | _, vs => vs
end

def parseBo (s : String) : Option ByteOrder :=
  if s == "le" then some .le else if s == "be" then some .be else none

end Driver.WireProto
