import RustbusModel.Model.Proto
import RustbusModel.Model.Send
namespace Driver.C10
open Rustbus Rustbus.Proto Rustbus.Send

/-- the engine's recognisable body filler: byte i = seed + i + 3 * (i / 256) (mod 256) -/
def patternGo (seed : Nat) : Nat → List UInt8 → List UInt8
  | 0, acc => acc
  | i + 1, acc => patternGo seed i (UInt8.ofNat (seed + i + (i / 256) * 3) :: acc)

def pattern (seed n : Nat) : List UInt8 := patternGo seed n []

def fnv32 (bs : List UInt8) : Nat :=
  bs.foldl (fun h b => ((h ^^^ b.toNat) * 16777619) % 4294967296) 2166136261

/-- one caller action as the engine observed it -/
inductive Act
  | call (ev : Ev)
  | suspend
  | write (d : Nat) (how : Char)   -- `write(..)`: took `d` bytes, then 'k' = Ok, 'e' = EAGAIN, 'f' = error, 't' = TimedOut

def parseAct (s : String) : Option Act :=
  if s == "e" then some (.call .eagain)
  else if s == "f" then some (.call .fail)
  else if s == "s" then some .suspend
  else if s.startsWith "a" then (s.drop 1).toString.toNat?.map (fun n => Act.call (.accept n))
  else if s.startsWith "W" then
    let rest := (s.drop 1).toString
    let how := rest.toList.getLast?.getD 'x'
    ((rest.dropEnd 1).toString.toNat?).bind (fun d => if how == 'k' || how == 'e' || how == 'f' || how == 't' then some (Act.write d how) else none)
  else none

def flag (m : Msg) (st : State) : String := if allWritten m st then "c" else "p"

def showRes : Res → String
  | .ok n => s!"k{n}"
  | .wouldBlock => "e"
  | .error => "f"

/-- run the observed actions through the model; `none` in the context = consumed by a successful `write` -/
def go (m : Msg) : State → Wire → Bool → List Act → List String → Option (State × Wire × Bool × List String)
  | st, w, consumed, [], acc => some (st, w, consumed, acc.reverse)
  | st, w, consumed, a :: rest, acc =>
    if consumed then none else
    match a with
    | .suspend =>
      let c := resume m (intoProgress ⟨m, st⟩)
      go m c.st w false rest ("s" :: acc)
    | .call ev =>
      match offer m st, writeOnce m st w ev with
      | some o, some (st', w', r) =>
        go m st' w' false rest (s!"h{o.hdrOff}o{o.bodyOff}:{showRes r}:{st'.bytesSent}:{flag m st'}" :: acc)
      | _, _ => none
    | .write d how =>
      let evs : List WEv :=
        if how == 'k' then [.io (.accept d)]
        else (if d = 0 then [] else [.io (.accept d)]) ++
          [if how == 't' then .timeUp else .io (if how == 'e' then .eagain else .fail)]
      match write m st w evs with
      | (.done s, st', w', _) => go m st' w' true rest (s!"W:done{s}:{st'.bytesSent}:{flag m st'}" :: acc)
      | (.err e, st', w', _) =>
        let k := match e with | .timedOut => "t" | .wouldBlock => "e" | .other => "f"
        go m st' w' false rest (s!"W:{k}:{st'.bytesSent}:{flag m st'}" :: acc)
      | (.running, _, _, _) => none
      | (.panic, _, _, _) => none

def showTransfers (ts : List (Nat × List Nat)) : String :=
  if ts.isEmpty then "-" else
  ";".intercalate (ts.map (fun (p, ids) => s!"{p}:{".".intercalate (ids.map toString)}"))

def optHex (s : String) : Option (Option (List UInt8)) :=
  if s == "~" then some none else (parseHex s).map some
def optNat (s : String) : Option (Option Nat) :=
  if s == "~" then some none else s.toNat?.map some

def handle : List String → String
  | ["c10.run", hdr, pre, patlen, seed, post, fdids, serial, steps, endTok] =>
    match parseHex hdr, parseHex pre, patlen.toNat?, seed.toNat?, parseHex post, parseNats fdids, serial.toNat? with
    | some hdr, some pre, some patlen, some seed, some post, some fds, some serial =>
      let acts? : Option (List Act) := if steps == "-" then some [] else (steps.splitOn ",").mapM parseAct
      match acts? with
      | none => "bad-op"
      | some acts =>
        let m : Msg := ⟨hdr, pre ++ (pattern seed patlen ++ post), fds⟩
        let c := Ctx.start m serial
        match go m c.st Wire.empty false acts [] with
        | none => "model-panic"
        | some (st, w, consumed, items) =>
          let how : Option Exit :=
            if endTok == "drop" then some .drop else if endTok == "forget" then some .forceFinish
            else if endTok == "progress" then some .intoProgress else if endTok == "ffe" then some .forceFinishOnError
            else none
          let endObs :=
            match consumed, how with
            | false, some e => if exitPanics ⟨m, st⟩ e then "panic" else "ok"
            | true, none => "ok"
            | _, _ => "bad-end"
          let bytes := w.bytes
          s!"{if items.isEmpty then "-" else ",".intercalate items} end={endObs} sent={st.bytesSent}/{m.total} wire={bytes.length}:{fnv32 bytes} fds={showTransfers w.transfers} serial={st.serial}"
    | _, _, _, _, _, _, _ => "bad-op"
  -- c10.start counter preset bo typ flags rs iface dest sender member path err sig body nfds
  | ["c10.start", counter, preset, bo, typ, flags, rs, iface, dest, sender, member, path, err, sg, body, nfds] =>
    match counter.toNat?, optNat preset,
          (if bo == "le" then some ByteOrder.le else if bo == "be" then some .be else none),
          typ.toNat?, flags.toNat?, optNat rs, optHex iface, optHex dest with
    | some counter, some preset, some bo, some typ, some flags, some rs, some iface, some dest =>
      match optHex sender, optHex member, optHex path, optHex err, parseHex sg, parseHex body, nfds.toNat? with
      | some sender, some member, some path, some err, some sg, some body, some nfds =>
        let hm : Header.Msg := Header.Msg.mk bo typ flags rs iface dest sender member path err sg body nfds
        match sendMessage ⟨counter⟩ hm (List.range nfds) preset with
        | .panic => "panic"
        | .refused c => s!"refused next={c.counter}"
        | .started ctx c => s!"started serial={ctx.serial} hdr={toHex ctx.msg.hdr} next={c.counter}"
      | _, _, _, _, _, _, _ => "bad-op"
    | _, _, _, _, _, _, _, _ => "bad-op"
  | _ => "bad-op"

end Driver.C10
