import RustbusModel.Model.Proto
import RustbusModel.Model.Sig
namespace Driver.C07
open Rustbus Rustbus.Proto Rustbus.Sig

def handle : List String → String
  | ["c07.s", s] =>
    match parseCodepoints s with
    | some cs =>
      let p := match parseDescription cs with
        | some ts => "ok:" ++ ",".intercalate (ts.map (fun t => String.ofList (Ty.toStr t)))
        | none => "reject"
      let v := validateSignature cs
      let it := if v then
          match sigIter cs with
          | some ps => ",".intercalate (ps.map String.ofList)
          | none => "panic"
        else "-"
      s!"parse={p} validate={if v then "ok" else "reject"} iter={it}"
    | none => "bad-op"
  | ["c07.char", cp] =>
    match cp.toNat? with
    | some n =>
      let c := Char.ofNat n
      let f := fun (cs : List Char) =>
        (if (parseDescription cs).isSome then "1" else "0") ++ (if validateSignature cs then "1" else "0")
      f [c] ++ f ['a', c] ++ f ['(', c, ')']
    | none => "bad-op"
  | _ => "bad-op"

end Driver.C07
