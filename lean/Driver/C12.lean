import RustbusModel.Model.Proto
import RustbusModel.Model.FdConc
namespace Driver.C12
open Rustbus Rustbus.Proto Rustbus.FdConc

/-- the number used for the original descriptor in driver runs (the harness maps real numbers to names) -/
def origNum : Int := 100

def parseOp (c : Char) : Option Op :=
  if c == 't' then some .take
  else if c == 'g' then some .get
  else if c == 'd' then some .dup
  else if c == 'c' then some .clone
  else if c == 'x' then some .drop
  else if c == 'f' then some .dupFail
  else none

def parseProg (s : String) : Option (List Op) :=
  if s == "-" then some [] else s.toList.mapM parseOp

def parseSched (s : String) : Option (List Nat) :=
  if s == "-" then some [] else
  s.toList.mapM (fun c => if '0' ≤ c ∧ c ≤ '9' then some (c.toNat - '0'.toNat) else none)

def fdName (v : Int) : String := if v == origNum then "o" else "?"

def showRes : Res → String
  | .takeSome fd => "T" ++ fdName fd
  | .takeNone => "t-"
  | .getSome fd => "G" ++ fdName fd
  | .getNone => "g-"
  | .dupOk n => "Dd" ++ toString (n + 1)
  | .dupTaken => "d-"
  | .dupErr => "dE"
  | .cloned => "c"
  | .dropped => "x"

/-- the point at which the thread waits after a grant, as the harness names it -/
def label (th : Thread) : String :=
  match th.pc with
  | .idle => if th.finished then "F" else "S"
  | .takeLoad | .getLoad | .dupLoad | .dupLoadF | .dropLoad _ => "L"
  | .takeCas _ | .dropCas _ _ => "X"
  | .dupSys v => "D" ++ fdName v
  | .dupSysF v => "D" ++ fdName v
  | .dupClose n => "Cd" ++ toString (n + 1)
  | .dropClose _ v => "C" ++ fdName v
  | .innerDrop _ => "I"
  | .takeDec _ | .dropDec => "?"

def showSys : Nat × Act → String
  | (t, .dupSys v n) => toString t ++ ":dup:" ++ fdName v ++ ">d" ++ toString (n + 1)
  | (t, .dupSysFail v) => toString t ++ ":dup:" ++ fdName v ++ ">err"
  | (t, .close (.num v)) => toString t ++ ":close:" ++ fdName v
  | (t, .close (.dupd n)) => toString t ++ ":close:d" ++ toString (n + 1)
  | _ => "?"

def joinOr (sep : String) (l : List String) : String := if l.isEmpty then "-" else sep.intercalate l

def execute (c : Config) : List Nat → List String → Option (Config × List String)
  | [], acc => some (c, acc.reverse)
  | t :: s, acc =>
    match grant c t with
    | none => none
    | some c' =>
      match c'.threads[t]? with
      | none => none
      | some th => execute c' s (label th :: acc)

def handle : List String → String
  | ["c12.run", progs, sched] =>
    match (progs.splitOn "|").mapM parseProg, parseSched sched with
    | some ps, some s =>
      match execute (init origNum ps) s [] with
      | none => "stuck"
      | some (c, labels) =>
        "steps=" ++ joinOr "," labels ++
        " res=" ++ "|".intercalate (c.threads.map (fun th => joinOr "," (th.results.map showRes))) ++
        " log=" ++ joinOr "," (c.syslog.map showSys) ++
        " final=" ++ (if c.closesOf origNum == 0 then "open" else "closed") ++
        " fin=" ++ (if c.finished then "1" else "0")
    | _, _ => "bad-op"
  | _ => "bad-op"

end Driver.C12
