import RustbusModel.Model.Proto
namespace Driver.C12
open Rustbus Rustbus.Proto

/-- line protocol handler for the ops `c12.*` (tokens of one request line → one response line) -/
def handle : List String → String
  | _ => "bad-op"

end Driver.C12
