import RustbusModel.Model.Proto
import RustbusModel.Model.Rpc
namespace Driver.C14
open Rustbus Rustbus.Proto Rustbus.Rpc

/-
Request:  c14.run <op> <op> ...      (one token per operation, in history order)
  A:<id>:<c|r|e|s>:<serial>:<reply serial|~>:<sender code points|~>:<0|1 filter verdict>   the peer writes a message
  TR:<s> TS TC      try_get_response(s) / try_get_signal / try_get_call
  RO RA             refill_once (try_refill_once) / refill_all
  WR:<s> WS WC      wait_response(s) / wait_signal / wait_call
Response: one item per operation, separated by spaces:
  a | t<id> | t~ | g<id> | b | rc rr re rs | to | d[<errs>]        then `|<errs>` if error replies were written to the peer
  <errs> = `;`-separated  <reply serial>/<destination code points|~>/<error name code points>
  `panic` ends the log if the model hits the unwrap() panic.
-/

def parseTyp (s : String) : Option Typ :=
  if s == "c" then some .call else if s == "r" then some .reply
  else if s == "e" then some .error else if s == "s" then some .signal else none

def parseOptNat (s : String) : Option (Option Nat) :=
  if s == "~" then some none else s.toNat?.map some

def parseOptStr (s : String) : Option (Option (List Char)) :=
  if s == "~" then some none else (parseCodepoints s).map some

def parseOp (tok : String) : Option Op :=
  match tok.splitOn ":" with
  | ["A", id, t, serial, rs, sender, acc] =>
    match id.toNat?, parseTyp t, serial.toNat?, parseOptNat rs, parseOptStr sender with
    | some id, some t, some serial, some rs, some sender =>
      if acc == "1" then some (.arrive ⟨id, t, serial, rs, sender, true⟩)
      else if acc == "0" then some (.arrive ⟨id, t, serial, rs, sender, false⟩)
      else none
    | _, _, _, _, _ => none
  | ["TR", s] => s.toNat?.map Op.tryResponse
  | ["TS"] => some .trySignal
  | ["TC"] => some .tryCall
  | ["RO"] => some .refillOnce
  | ["RA"] => some .refillAll
  | ["WR", s] => s.toNat?.map Op.waitResponse
  | ["WS"] => some .waitSignal
  | ["WC"] => some .waitCall
  | _ => none

def showCps (s : List Char) : String :=
  if s.isEmpty then "-" else ",".intercalate (s.map (fun c => toString c.toNat))

def showErr (e : ErrReply) : String :=
  toString e.replySerial ++ "/" ++ (match e.dest with | some d => showCps d | none => "~") ++ "/" ++ showCps e.errorName

def showErrs (es : List ErrReply) : String := ";".intercalate (es.map showErr)

def showTyp : Typ → String
  | .call => "c" | .reply => "r" | .error => "e" | .signal => "s"

def showObs : Obs → String
  | .arrived => "a"
  | .tried (some m) => "t" ++ toString m.id
  | .tried none => "t~"
  | .got m => "g" ++ toString m.id
  | .blocked => "b"
  | .refilled t => "r" ++ showTyp t
  | .timedOut => "to"
  | .drained errs => "d[" ++ showErrs errs ++ "]"

/-- the observation log of a history: per operation what the caller saw and what was written to the peer -/
def runLog : State → List Op → List String
  | _, [] => []
  | st, op :: ops =>
    match step st op with
    | none => ["panic"]
    | some (o, st') =>
      let written := st'.sent.drop st.sent.length
      let item := if written.isEmpty then showObs o else showObs o ++ "|" ++ showErrs written
      item :: runLog st' ops

/-- line protocol handler for the ops `c14.*` (tokens of one request line → one response line) -/
def handle : List String → String
  | "c14.run" :: toks =>
    match toks.mapM parseOp with
    | some ops => if ops.isEmpty then "-" else " ".intercalate (runLog State.init ops)
    | none => "bad-op"
  | _ => "bad-op"

end Driver.C14
