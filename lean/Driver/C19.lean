import RustbusModel.Model.Proto
import RustbusModel.Model.Dispatch
namespace Driver.C19
open Rustbus Rustbus.Proto Rustbus.Dispatch

/-! Line protocol for C19 (all strings as comma separated code points, `-` = empty, `!` = absent).

* `c19.match <pattern> <path>` → `none` | `some <caps>`
* `c19.table <p0|p1|..> <path> <d|idx>` → `legal` | `illegal` (is the implementation's choice one
  that some iteration order of the table produces?)
* `c19.lookup <p0|p1|..> <path>` → `default` | `h=<idx> <caps>` | `ambiguous`
* `c19.run <routes> <events>` → `inv=.. wr=.. ret=..`
  routes: `-` or `pat=hid|..` (calls of `add_handler`, in order);
  event: `serial;sender;object;beh;send;adds`, beh ∈ n (Ok(None)) r (Ok(Some(custom reply))) e (Err),
  send ∈ 1/0, adds: `-` or `pat=hid+pat=hid` (inserts into `env.new_dispatches`, in order).
  `<caps>`: `-` or `name=value;..` sorted by name. -/

def showStr (cs : List Char) : String :=
  if cs.isEmpty then "-" else ",".intercalate (cs.map (fun c => toString c.toNat))

def parseOptStr (s : String) : Option (Option (List Char)) :=
  if s == "!" then some none else (parseCodepoints s).map some

def ltChars : List Char → List Char → Bool
  | [], [] => false
  | [], _ :: _ => true
  | _ :: _, [] => false
  | a :: as, b :: bs =>
    if a.toNat < b.toNat then true else if b.toNat < a.toNat then false else ltChars as bs

def insertSorted (e : Seg × Seg) : Caps → Caps
  | [] => [e]
  | x :: xs => if ltChars e.1 x.1 then e :: x :: xs else x :: insertSorted e xs

def showCaps (c : Caps) : String :=
  if c.isEmpty then "-" else
  ";".intercalate ((c.foldr insertSorted []).map (fun kv => showStr kv.1 ++ "=" ++ showStr kv.2))

def parseRoute (s : String) : Option (List Char × Nat) :=
  match s.splitOn "=" with
  | [p, h] =>
    match parseCodepoints p, h.toNat? with
    | some p, some h => some (p, h)
    | _, _ => none
  | _ => none

def parseRoutes (sep : String) (s : String) : Option (List (List Char × Nat)) :=
  if s == "-" then some [] else (s.splitOn sep).mapM parseRoute

/-- the patterns of a `c19.table` / `c19.lookup` request, inserted in order with handler = position -/
def parseTable (s : String) : Option (Routes Nat) :=
  match (s.splitOn "|").mapM parseCodepoints with
  | some ps =>
    some ((ps.zip (List.range ps.length)).foldl (fun rs ph => pmInsert rs ph.1 ph.2) [])
  | none => none

/-- the reply a scripted handler returns for `r`: recognisably not `make_response()` -/
def customReply (serial : Nat) : Serial.Hdr :=
  { serial := none, sender := none, destination := some "h.custom".toList,
    replySerial := some (serial + 1000), errorName := some "h.Custom".toList, isError := true }

def parseEvent (s : String) : Option (Event Nat) :=
  match s.splitOn ";" with
  | [serial, sender, object, beh, send, adds] =>
    match serial.toNat?, parseOptStr sender, parseOptStr object, parseRoutes "+" adds with
    | some ser, some snd, some obj, some adds =>
      let res : Option Outcome :=
        if beh == "n" then some .empty else if beh == "r" then some (.reply (customReply ser))
        else if beh == "e" then some .err else none
      match res with
      | some res =>
        some { msg := { hdr := { serial := some ser, sender := snd, destination := none,
                                 replySerial := none, errorName := none, isError := false },
                        object := obj },
               behave := fun _ _ => { result := res, added := adds },
               sendOk := send == "1" }
      | none => none
    | _, _, _, _ => none
  | _ => none

def showChosen : Chosen Nat → String
  | .default => "d"
  | .route h => toString h

def optNat (o : Option Nat) : String := match o with | some n => toString n | none => "!"
def optStr (o : Option (List Char)) : String := match o with | some s => showStr s | none => "!"

def showHdr (h : Serial.Hdr) : String :=
  optNat h.replySerial ++ ":" ++ optStr h.destination ++ ":" ++ (if h.isError then "1" else "0")

def joinOr (sep : String) (xs : List String) : String := if xs.isEmpty then "-" else sep.intercalate xs

def handle : List String → String
  | ["c19.match", pat, path] =>
    match parseCodepoints pat, parseCodepoints path with
    | some p, some q =>
      match patMatches (patternNew p) q with
      | some caps => "some " ++ showCaps caps
      | none => "none"
    | _, _ => "bad-op"
  | ["c19.table", pats, path, chosen] =>
    match parseTable pats, parseCodepoints path with
    | some rs, some q =>
      let c : Option (Chosen Nat) := if chosen == "d" then some .default else chosen.toNat?.map .route
      match c with
      | some c => if legalChoice rs q c then "legal" else "illegal"
      | none => "bad-op"
    | _, _ => "bad-op"
  | ["c19.lookup", pats, path] =>
    match parseTable pats, parseCodepoints path with
    | some rs, some q =>
      match rs.filter (fun e => (patMatches e.1 q).isSome) with
      | [] => "default"
      | [_] =>
        match getMatch rs q with
        | some (caps, h) => s!"h={h} {showCaps caps}"
        | none => "default"
      | _ => "ambiguous"
    | _, _ => "bad-op"
  | ["c19.run", routes, events] =>
    match parseRoutes "|" routes, (if events == "-" then some [] else (events.splitOn "|").mapM parseEvent) with
    | some rts, some evs =>
      let rs : Routes Nat := rts.foldl (fun rs ph => pmInsert rs ph.1 ph.2) []
      let outs := (runAll rs evs).1
      let inv := outs.flatMap (fun o => o.invoked.map (fun i => showChosen i.1 ++ ":" ++ showCaps i.2))
      let wr := outs.flatMap (fun o => o.written.map showHdr)
      let ret := (evs.zip outs).filterMap (fun eo =>
        match eo.2.ended with
        | .continues => none
        | .handlerErr => some ("h@" ++ optNat eo.1.msg.hdr.serial)
        | .sendErr => some ("s@" ++ optNat eo.1.msg.hdr.serial))
      s!"inv={joinOr "|" inv} wr={joinOr "|" wr} ret={joinOr "," ret}"
    | _, _ => "bad-op"
  | _ => "bad-op"

end Driver.C19
