import Driver.WireProto
import RustbusModel.Model.DecCost
import RustbusModel.Model.Slice
/-
C04 driver. All answers come from the instrumented decoder `decW` (proved equal to `dec`), so that every
engine input also evaluates the cost theorem concretely: if `work` or `depth` ever exceeded the proved bound
the answer would carry a `COST` suffix and show up as a model/implementation difference.
-/
namespace Driver.C04
open Rustbus Rustbus.Proto Rustbus.Wire Driver.WireProto

def costSuffix (t : Ty) (n : Nat) (w : Nat) (dp : Nat) : String :=
  if w ≤ workBound t maxDepth n ∧ dp ≤ maxDepth then "" else s!" COST work={w} depth={dp} bound={workBound t maxDepth n}"

def parseElem (s : String) : Option Base :=
  match s.toList with
  | [c] => Base.ofChar c
  | _ => none

def handle : List String → String
  -- c04.dec <bo> <ty> <hex>  → ok <consumed> | reject      (validate_marshalled at offset 0; no fd-index check)
  | ["c04.dec", bo, ty, hx] =>
    match parseBo bo, parseTy ty, parseHex hx with
    | some bo, some t, some buf =>
      let r := validateW bo buf 0 t
      let c := costSuffix t buf.length r.work r.depth
      match r.res with
      | some (_, o') => s!"ok {o'}{c}"
      | none => s!"reject{c}"
    | _, _, _ => "bad-op"
  -- c04.body <bo> <nfds|~> <tys|-> <hex|->  → ok | reject   (all types of the body signature, all bytes used)
  | ["c04.body", bo, nfds, tys, hx] =>
    match parseBo bo, parseTys tys, parseHex hx with
    | some bo, some ts, some buf =>
      let nf := if nfds == "~" then none else nfds.toNat?
      let r := decBodyW bo buf nf ts 0
      let c := if r.work ≤ Ty.sizeList ts + 256 * 65 * buf.length ∧ r.depth ≤ maxDepth then ""
               else s!" COST work={r.work} depth={r.depth}"
      (if r.res.isSome then "ok" else "reject") ++ c
    | _, _, _ => "bad-op"
  -- c04.slice <bo> <base> <elem> <off> <hex> → borrowed <consumed> | owned <consumed> | reject
  --   Cow<[E]>::unmarshal on a context at offset <off>, first byte of the buffer at an address ≡ base (mod 8);
  --   native byte order = le (x86_64 / aarch64)
  | ["c04.slice", bo, base, el, off, hx] =>
    match parseBo bo, base.toNat?, parseElem el, off.toNat?, parseHex hx with
    | some bo, some base, some b, some off, some buf =>
      let o := Slice.cowSlice .le base bo buf (some 0) maxDepth b off buf.length
      match o.res with
      | some (_, o', .borrowed) => s!"borrowed {o' - off}"
      | some (_, o', _) => s!"owned {o' - off}"
      | none => "reject"
    | _, _, _, _, _ => "bad-op"
  -- c04.cost <bo> <ty> <hex> → the counters themselves (for inspection)
  | ["c04.cost", bo, ty, hx] =>
    match parseBo bo, parseTy ty, parseHex hx with
    | some bo, some t, some buf =>
      let r := validateW bo buf 0 t
      s!"work={r.work} depth={r.depth} bound={workBound t maxDepth buf.length} len={buf.length}"
    | _, _, _ => "bad-op"
  -- crash-only families: nothing for the model to say
  | "c04.nocrash" :: _ => "survived"
  | _ => "bad-op"

end Driver.C04
