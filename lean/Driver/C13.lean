import RustbusModel.Model.Proto
import RustbusModel.Model.Serial
namespace Driver.C13
open Rustbus Rustbus.Proto Rustbus.Serial

def parseOp (s : String) : Option Op :=
  if s == "a" then some .alloc
  else if s == "s" then some (.send none)
  else if s.startsWith "p" then (s.drop 1).toString.toNat?.map (fun n => Op.send (some n))
  else none

def parseOp2 (s : String) : Option Op2 :=
  if s == "b" then some (.begin none)
  else if s == "r" then some .resume
  else if s == "x" then some .abandon
  else if s.startsWith "B" then (s.drop 1).toString.toNat?.map (fun n => Op2.begin (some n))
  else (parseOp s).map Op2.base

def showEv : Ev → String
  | .issued i => "i" ++ toString i.serial
  | .wire s => "w" ++ toString s

def optStr (o : Option (List Char)) : String :=
  match o with
  | some s => if s.isEmpty then "-" else ",".intercalate (s.map (fun c => toString c.toNat))
  | none => "~"
def optNat (o : Option Nat) : String := match o with | some n => toString n | none => "~"

def handle : List String → String
  | ["c13.run", start, ops] =>
    match start.toNat?, (ops.splitOn ",").mapM parseOp with
    | some st, some ops =>
      match run ⟨st⟩ ops with
      | some (is, c) => showNats (is.map (·.serial)) ++ " next=" ++ toString c.counter
      | none => "panic"
    | _, _ => "bad-op"
  | ["c13.run2", start, ops] =>
    match start.toNat?, (ops.splitOn ",").mapM parseOp2 with
    | some st, some ops =>
      match run2 ⟨⟨st⟩, none⟩ ops with
      | some (es, c) => ",".intercalate (es.map showEv) ++ " next=" ++ toString c.conn.counter
      | none => "panic"
    | _, _ => "bad-op"
  | ["c13.hello", start, rs, body] =>
    let rs' := if rs == "~" then some none else rs.toNat?.map some
    let body' : Option (Option (List Char)) :=
      if body == "n" then some none
      else if body.startsWith "s" then (parseCodepoints (body.drop 1).toString).map some
      else none
    match start.toNat?, rs', body' with
    | some st, some rs', some body' =>
      match sendHello ⟨st⟩ ⟨rs', body'⟩ with
      | none => "panic"
      | some (s, r, c) =>
        let rtxt := match r with
          | .name n => "name=" ++ optStr (some n)
          | .notTheAnswer => "not-the-answer"
          | .badBody => "bad-body"
        s!"serial={s} {rtxt} next={c.counter}"
    | _, _, _ => "bad-op"
  | ["c13.reply", kind, serial, sender] =>
    let ser := if serial == "~" then some none else serial.toNat?.map some
    let snd := if sender == "~" then some none else (parseCodepoints sender).map some
    match ser, snd with
    | some ser, some snd =>
      let call : Hdr := { serial := ser, sender := snd, destination := none, replySerial := none, errorName := none, isError := false }
      let r := if kind == "response" then makeResponse call
        else if kind == "unknown_method" then makeErrorResponse call "org.freedesktop.DBus.Error.UnknownMethod".toList
        else if kind == "invalid_args" then makeErrorResponse call "org.freedesktop.DBus.Error.InvalidArgs".toList
        else makeErrorResponse call "a.b.Err".toList
      s!"error={r.isError} rs={optNat r.replySerial} dest={optStr r.destination} serial={optNat r.serial} name={optStr r.errorName}"
    | _, _ => "bad-op"
  | _ => "bad-op"

end Driver.C13
