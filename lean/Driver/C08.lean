import RustbusModel.Model.Proto
import RustbusModel.Model.Names
namespace Driver.C08
open Rustbus Rustbus.Proto Rustbus.Names

def verdict (b : Bool) : String := if b then "ok" else "reject"

def validator (kind : String) : Option (List Char → Bool) :=
  match kind with
  | "path" => some validateObjectPath
  | "iface" => some validateInterface
  | "errname" => some validateErrorname
  | "bus" => some validateBusname
  | "member" => some validateMembername
  | _ => none

def bit (b : Bool) : Char := if b then '1' else '0'

def handle : List String → String
  | ["c08.v", kind, s] =>
    match validator kind, parseCodepoints s with
    | some f, some cs => verdict (f cs)
    | _, _ => "bad-op"
  -- one character in first and in later position of an otherwise valid name, all five validators
  | ["c08.char", n] =>
    match n.toNat? with
    | some n =>
      let c := Char.ofNat n
      String.ofList [
        bit (validateObjectPath ['/', c]), bit (validateObjectPath ['/', 'a', c]),
        bit (validateInterface [c, '.', 'b']), bit (validateInterface ['a', c, '.', 'b']),
        bit (validateBusname [c, '.', 'b']), bit (validateBusname ['a', c, '.', 'b']),
        bit (validateBusname [':', c, '.', 'b']), bit (validateBusname [':', 'a', '.', c]),
        bit (validateMembername [c]), bit (validateMembername ['a', c])]
    | none => "bad-op"
  | _ => "bad-op"

end Driver.C08
