import RustbusModel.Model.Proto
import RustbusModel.Model.Recv
import RustbusModel.Model.Send
import RustbusModel.Model.Limits
namespace Driver.C18
open Rustbus Rustbus.Proto Rustbus.Recv Rustbus.Header Rustbus.Limits

/-- "as much as there is": the kernel returns min(requested, available) -/
def big : Nat := 4294967296

def showRes : Res → String
  | .readOk => "ok"
  | .skipped => "skip"
  | .timedOut => "timedout"
  | .closed => "closed"
  | .invalid => "invalid"
  | .tooLong => "toolong"
  | .malformed => "other"
  | .msg _ _ => "msg"

def showNeeded (buf : List UInt8) : String :=
  match bytesNeeded buf with
  | .bytes n => toString n
  | .tooLong => "toolong"
  | .invalid => "invalid"

def showWhole (st : State) : String :=
  match check st with
  | .whole => "t"
  | .need _ => "f"
  | .err .tooLong => "toolong"
  | .err _ => "invalid"

def allDeliver : List Ev := List.replicate 64 (.deliver big)

def mkWorld (bytes : List UInt8) : World := { rest := bytes.map (fun b => (b, [])), avail := 0 }

/-- the peer's bytes are all queued; `read_once`, then the two queries, then `get_next_message(Nonblock)` -/
def recvScript (bytes : List UInt8) : String :=
  let w := (mkWorld bytes).arrive bytes.length
  match readOnce State.empty w [.deliver big] with
  | (r1, st1, w1) =>
    match getNext st1 w1 allDeliver with
    | (r2, _, _) => s!"{showRes r1} {showNeeded st1.buf} {showWhole st1} {showRes r2}"

/-- the peer writes `chunk` bytes, the client calls `get_next_message(Nonblock)`, and so on until the message
    is out or the bytes are used up; the results in order -/
def chunkLoop (chunk : Nat) : Nat → State → World → Nat → List String → List String
  | 0, _, _, _, acc => acc.reverse
  | fuel + 1, st, w, left, acc =>
    let c := min chunk left
    match getNext st (w.arrive c) allDeliver with
    | (r, st', w') =>
      let acc := showRes r :: acc
      match r with
      | .timedOut => if left - c = 0 then acc.reverse else chunkLoop chunk fuel st' w' (left - c) acc
      | _ => acc.reverse

/-- run-length compression of the result list: `timedout*16,msg` -/
def rle : List String → List (String × Nat)
  | [] => []
  | s :: rest =>
    match rle rest with
    | (t, n) :: r => if s = t then (t, n + 1) :: r else (s, 1) :: (t, n) :: r
    | [] => [(s, 1)]

def showRle (l : List (String × Nat)) : String :=
  if l.isEmpty then "-" else ",".intercalate (l.map (fun (s, n) => if n = 1 then s else s!"{s}*{n}"))

def optLen (s : String) : Option (Option Nat) :=
  if s == "-" then some none else s.toNat?.map some

def parseLens : List String → Option MsgLens
  | [rs, iface, dest, sender, member, path, err, sig, body, fds] =>
    match optLen iface, optLen dest, optLen sender, optLen member, optLen path, optLen err, optLen sig,
      body.toNat? with
    | some i, some d, some s, some m, some p, some e, some g, some b =>
      some { replySerial := rs == "1", interface := i, destination := d, sender := s, member := m, path := p,
             errorName := e, sig := g, bodyLen := b, hasFds := fds == "1" }
    | _, _, _, _, _, _, _, _ => none
  | _ => none

def handle : List String → String
  -- what a buffer announces
  | ["c18.need", hx] =>
    match parseHex hx with
    | some buf => showNeeded buf
    | none => "bad-op"
  -- the peer wrote <hex> followed by <k> zero bytes
  | ["c18.recv", hx, k] =>
    match parseHex hx, k.toNat? with
    | some pre, some k => recvScript (pre ++ List.replicate k 0)
    | _, _ => "bad-op"
  -- a message of <hex> ++ <k> zero bytes arrives in chunks of <chunk> bytes
  | ["c18.chunks", hx, k, chunk] =>
    match parseHex hx, k.toNat?, chunk.toNat? with
    | some pre, some k, some chunk =>
      if chunk = 0 then "bad-op" else
      let bytes := pre ++ List.replicate k 0
      showRle (rle (chunkLoop chunk (bytes.length / chunk + 2) State.empty (mkWorld bytes) bytes.length []))
    | _, _, _ => "bad-op"
  -- one value of the single complete type <sig> at offset 0 of the body <hex>; the signature goes through the
  -- modelled `Type::parse_description`
  | ["c18.dec", which, bo, sg, hx] =>
    let bo? : Option ByteOrder := if bo == "le" then some .le else if bo == "be" then some .be else none
    match bo?, parseHex hx with
    | some bo, some buf =>
      match Sig.parseDescription sg.toList with
      | some [t] =>
        let nf : Option Nat := if which == "validate" then none else some 0
        match Wire.dec bo buf nf Wire.maxDepth t 0 buf.length with
        | some (_, o') => if which == "validate" then s!"ok {o'}" else "ok"
        | none => "reject"
      | _ => "reject"
    | _, _ => "bad-op"
  -- an array of <n> fixed-size elements of width <k>, on its own / as the second field of a struct / in a
  -- variant (`send_fixed_array_limit` + `send_refusal_propagates`); as the value of the only entry of a dict
  -- with the key "k" the dict's own region is 12 + n bytes
  | "c18.arr" :: ctx :: k :: n :: _ =>
    match k.toNat?, n.toNat? with
    | some k, some n =>
      let ok := if ctx == "dict1" then decide (12 + k * n ≤ Wire.maxArrayLen) else arrOk k n
      if ok then "ok" else "refuse"
    | _, _ => "bad-op"
  -- an array of <n> fixed-size elements of width <k> that is completely present in the buffer (`decode_boundary`)
  | "c18.fullarr" :: k :: n :: _ =>
    match k.toNat?, n.toNat? with
    | some k, some n => if arrOk k n then "ok" else "reject"
    | _, _ => "bad-op"
  -- `marshal::marshal` from the lengths: header length incl. padding
  | "c18.msg" :: rest =>
    match parseLens rest with
    | some l =>
      match marshalLen l with
      | some n => s!"ok {n}"
      | none => "refuse"
    | none => "bad-op"
  -- `send_message`: serial counter before, preset serial or -, the lengths
  | "c18.send" :: counter :: preset :: rest =>
    match counter.toNat?, optLen preset, parseLens rest with
    | some c, some p, some l =>
      match Serial.sendSerial ⟨c⟩ p with
      | none => "panic"
      | some (s, c') =>
        match marshalLen l with
        | none => s!"refused {c'.counter}"
        | some n => s!"started {s} {c'.counter} {n + l.bodyLen}"
    | _, _, _ => "bad-op"
  | _ => "bad-op"

end Driver.C18
