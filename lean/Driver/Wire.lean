import Driver.WireProto
import RustbusModel.Model.Marshal
namespace Driver.Wire
open Rustbus Rustbus.Proto Rustbus.Wire Driver.WireProto

/-- canonical form of decoded values for comparison with HashMap-based implementations is done on
    the harness side (it sorts); the model prints dict entries in wire order. -/
def handle : List String → String
  -- enc <bo> <off> <ty> <val>  → bytes | refuse
  | ["w.enc", bo, off, ty, v] =>
    match parseBo bo, off.toNat?, parseTy ty, parseVal v with
    | some bo, some off, some t, some v =>
      match enc bo off t v with
      | some bs => toHex bs
      | none => "refuse"
    | _, _, _, _ => "bad-op"
  -- the mechanism-level marshaller (placeholders, back-patching) on a buffer pre-filled with `off` zero bytes
  | ["w.encm", bo, off, ty, v] =>
    match parseBo bo, off.toNat?, parseTy ty, parseVal v with
    | some bo, some off, some t, some v =>
      match Marshal.marshalM bo t v (Bytes.zeros off) with
      | some bs => toHex (bs.drop off)
      | none => "refuse"
    | _, _, _, _ => "bad-op"
  -- dec <bo> <off> <nfds|~> <ty> <hex>  → ok <consumed> <val> | reject
  | ["w.dec", bo, off, nfds, ty, hx] =>
    match parseBo bo, off.toNat?, parseTy ty, parseHex hx with
    | some bo, some off, some t, some buf =>
      let nf := if nfds == "~" then none else nfds.toNat?
      match dec bo buf nf maxDepth t off buf.length with
      | some (v, o') => s!"ok {o' - off} {showVal (canon t v)}"
      | none => "reject"
    | _, _, _, _ => "bad-op"
  -- val <bo> <off> <ty> <hex> → ok <consumed> | reject      (raw validation only: descriptor indices are not checked)
  | ["w.val", bo, off, ty, hx] =>
    match parseBo bo, off.toNat?, parseTy ty, parseHex hx with
    | some bo, some off, some t, some buf =>
      match validate bo buf off t with
      | some n => s!"ok {n}"
      | none => "reject"
    | _, _, _, _ => "bad-op"
  -- body <bo> <nfds|~> <tys> <hex> → ok <vals> | reject
  | ["w.body", bo, nfds, tys, hx] =>
    match parseBo bo, parseTys tys, parseHex hx with
    | some bo, some ts, some buf =>
      let nf := if nfds == "~" then none else nfds.toNat?
      match decBody bo buf nf ts 0 with
      | some vs => "ok " ++ (if vs.isEmpty then "-" else " ".intercalate ((canonFields ts vs).map showVal))
      | none => "reject"
    | _, _, _ => "bad-op"
  | _ => "bad-op"

end Driver.Wire
