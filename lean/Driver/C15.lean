import Driver.WireProto
import RustbusModel.Model.Body
namespace Driver.C15
open Rustbus Rustbus.Proto Rustbus.Body Driver.WireProto

def parseItem (s : String) : Option Item :=
  if s == "f1" then some (.fd true)
  else if s == "f0" then some (.fd false)
  else match s.splitOn "/" with
    | [k, ty, v] =>
      match parseTy ty, parseVal v with
      | some t, some v => if k == "p" then some (.plain t v) else if k == "v" then some (.asVariant t v) else none
      | _, _ => none
    | _ => none

def parseOp (s : String) : Option Op :=
  if s == "R" then some .reset
  else if s.startsWith "P:" then
    let body := (s.drop 2).toString
    if body.isEmpty then some (.push []) else ((body.splitOn "|").mapM parseItem).map Op.push
  else none

def showBody (b : Body) : String :=
  s!"buf={toHex b.buf} sig={if b.sig.isEmpty then "-" else String.ofList b.sig} nfds={b.nfds}"

def runOps (b : Body) : List Op → List String
  | [] => []
  | op :: ops =>
    let (b', tag) : Body × String := match op with
      | .reset => (step b .reset, "reset")
      | .push items => let r := push b items; (r.1, if r.2 then "ok" else "err")
    s!"{tag} {showBody b'}" :: runOps b' ops

def showErr : GetErr → String
  | .endOfMessage => "end"
  | .wrongSignature => "wrongsig"
  | .decode => "decode"

def showState (b : Body) (p : Parser) : String :=
  let ns := match nextSig b p with | some s => String.ofList s | none => "~"
  s!"next={ns} left={sigsLeft b p}"

def runGets (b : Body) (p : Parser) : List String → List String
  | [] => []
  | g :: gs =>
    if g == "d" then
      let (r, p') := getParam b p
      let out := match r with
        | .ok (t, v) => s!"ok {showVal (canon t v)}"
        | .error e => s!"err:{showErr e}"
      s!"{out} {showState b p'}" :: runGets b p' gs
    else if g.startsWith "g/" then
      match ((g.drop 2).toString.splitOn ",").mapM parseTy with
      | some [t] =>
        -- single get: no `sigs_left` pre-check
        match get b p t with
        | .ok (v, p') => s!"ok {showVal (canon t v)} {showState b p'}" :: runGets b p' gs
        | .error e => s!"err:{showErr e} {showState b p}" :: runGets b p gs
      | some ts =>
        let (r, p') := getMult b p ts
        let out := match r with
          | .ok vs => "ok " ++ " ".intercalate ((canonFields ts vs).map showVal)
          | .error e => s!"err:{showErr e}"
        s!"{out} {showState b p'}" :: runGets b p' gs
      | none => ["bad-op"]
    else ["bad-op"]

def handle : List String → String
  | ["c15.run", bo, ops] =>
    match parseBo bo, (ops.splitOn ";").mapM parseOp with
    | some bo, some ops => " ; ".intercalate (runOps (Body.empty bo) ops)
    | _, _ => "bad-op"
  | ["c15.parse", bo, sg, nfds, hx, gets] =>
    match parseBo bo, nfds.toNat?, parseHex hx with
    | some bo, some nfds, some buf =>
      let sig := if sg == "-" then [] else sg.toList
      let b : Body := ⟨bo, buf, sig, nfds⟩
      " ; ".intercalate (runGets b ⟨0, 0⟩ (gets.splitOn ";"))
    | _, _, _ => "bad-op"
  | _ => "bad-op"

end Driver.C15
