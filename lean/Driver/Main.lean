import Driver.C20
import Driver.C08
import Driver.C07
import Driver.Wire
import Driver.C13

def dispatch (line : String) : String :=
  let toks := (line.trimAscii.toString.splitOn " ").filter (· ≠ "")
  match toks with
  | [] => "bad-op"
  | op :: _ =>
    if op.startsWith "c20." then Driver.C20.handle toks
    else if op.startsWith "c08." then Driver.C08.handle toks
    else if op.startsWith "c07." then Driver.C07.handle toks
    else if op.startsWith "w." then Driver.Wire.handle toks
    else if op.startsWith "c13." then Driver.C13.handle toks
    else "bad-op"

partial def loop (h : IO.FS.Stream) (out : IO.FS.Stream) : IO Unit := do
  let line ← h.getLine
  if line.isEmpty then return ()
  out.putStrLn (dispatch line)
  loop h out

def main : IO Unit := do
  let out ← IO.getStdout
  loop (← IO.getStdin) out
  out.flush
