import Driver.C20
import Driver.C08
import Driver.C07
import Driver.Wire
import Driver.C13
import Driver.Header
import Driver.C15
import Driver.C16
import Driver.C19
import Driver.C17
import Driver.C14
import Driver.C12
import Driver.C11
import Driver.C10
import Driver.C09
import Driver.C18
import Driver.C04

def dispatch (line : String) : String :=
  let toks := (line.trimAscii.toString.splitOn " ").filter (· ≠ "")
  match toks with
  | [] => "bad-op"
  | op :: _ =>
    if op.startsWith "c20." then Driver.C20.handle toks
    else if op.startsWith "c08." then Driver.C08.handle toks
    else if op.startsWith "c07." then Driver.C07.handle toks
    else if op.startsWith "w." then Driver.Wire.handle toks
    else if op.startsWith "c13." then Driver.C13.handle toks
    else if op.startsWith "c09." then Driver.C09.handle toks
    else if op.startsWith "c10." then Driver.C10.handle toks
    else if op.startsWith "c11." then Driver.C11.handle toks
    else if op.startsWith "c12." then Driver.C12.handle toks
    else if op.startsWith "c14." then Driver.C14.handle toks
    else if op.startsWith "c17." then Driver.C17.handle toks
    else if op.startsWith "c19." then Driver.C19.handle toks
    else if op.startsWith "h." then Driver.Header.handle toks
    else if op.startsWith "c15." then Driver.C15.handle toks
    else if op.startsWith "c16." then Driver.C16.handle toks
    else if op.startsWith "c04." then Driver.C04.handle toks
    else if op.startsWith "c18." then Driver.C18.handle toks
    else "bad-op"

partial def loop (h : IO.FS.Stream) (out : IO.FS.Stream) : IO Unit := do
  let line ← h.getLine
  if line.isEmpty then return ()
  out.putStrLn (dispatch line)
  loop h out

def main : IO Unit := do
  let out ← IO.getStdout
  loop (← IO.getStdin) out
  out.flush
