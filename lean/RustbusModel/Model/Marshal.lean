import RustbusModel.Model.Wire
/-
Mechanism-level model of the marshallers (C02): the output buffer is appended to, padding is
computed from the buffer length (`pad_to_align`), array/dict lengths are written as a placeholder
and back-patched (`insert_u32`) after the content is known, and the typed API's fast path for slices
of fixed-size elements writes the length first and copies the element bytes.
Mirrors wire/marshal/traits/{base,container}.rs, wire/marshal/param/{base,container}.rs, wire/util.rs.
`Props/C02.lean` proves that all of this computes exactly `Wire.enc`.
-/
namespace Rustbus.Marshal
open Rustbus Rustbus.Bytes Rustbus.Wire

/-- `pad_to_align(a, buf)` -/
def padTo (a : Nat) (buf : List UInt8) : List UInt8 := buf ++ zeros (padLen a buf.length)

/-- `insert_u32(byteorder, val, &mut buf[pos..pos+4])` -/
def insertU32 (bo : ByteOrder) (val pos : Nat) (buf : List UInt8) : List UInt8 :=
  buf.take pos ++ (bytesOf bo 4 val ++ buf.drop (pos + 4))

/-- basic types: `ctx.align_to(alignment); write_*` / `marshal_base_param` (with its validity checks) -/
def marshalBaseM (bo : ByteOrder) (b : Base) (v : Val) (buf : List UInt8) : Option (List UInt8) :=
  match b.fixedSize, v with
  | some k, .num n => if n < b.bound then some (padTo b.align buf ++ bytesOf bo k n) else none
  | none, .str bs =>
    if strOk b bs then
      match b with
      | .signature => some (buf ++ (UInt8.ofNat bs.length :: (bs ++ [0])))
      | _ => if bs.length < 256 ^ 4 then some (padTo 4 buf ++ (bytesOf bo 4 bs.length ++ (bs ++ [0]))) else none
    else none
  | _, _ => none

mutual
/-- element-wise marshalling into the buffer (`marshal_param`, and the typed impls off the fast path) -/
def marshalM (bo : ByteOrder) : Ty → Val → List UInt8 → Option (List UInt8)
  | .base b, v, buf => marshalBaseM bo b v buf
  | .array e, .arr vs, buf =>
    let buf1 := padTo 4 buf
    let pos := buf1.length                       -- where the length placeholder goes
    let buf3 := padTo e.align (buf1 ++ [0, 0, 0, 0])
    match marshalListM bo e vs buf3 with
    | none => none
    | some buf4 =>
      let len := buf4.length - buf3.length       -- size_of_content
      if len ≤ maxArrayLen then some (insertU32 bo len pos buf4) else none
  | .dict k vt, .arr es, buf =>
    let buf1 := padTo 4 buf
    let pos := buf1.length
    let buf3 := padTo 8 (buf1 ++ [0, 0, 0, 0])
    match marshalEntriesM bo k vt es buf3 with
    | none => none
    | some buf4 =>
      let len := buf4.length - buf3.length
      if len ≤ maxArrayLen then some (insertU32 bo len pos buf4) else none
  | .struct fs, .struct vs, buf =>
    if fs.isEmpty then none else marshalFieldsM bo fs vs (padTo 8 buf)
  | .variant, .variant t v, buf =>
    if variantTypeOk t then
      let sg := sigBytes t
      marshalM bo t v (buf ++ (UInt8.ofNat sg.length :: (sg ++ [0])))
    else none
  | _, _, _ => none
def marshalListM (bo : ByteOrder) (e : Ty) : List Val → List UInt8 → Option (List UInt8)
  | [], buf => some buf
  | v :: vs, buf =>
    match marshalM bo e v buf with
    | none => none
    | some buf' => marshalListM bo e vs buf'
def marshalEntriesM (bo : ByteOrder) (k : Base) (vt : Ty) : List Val → List UInt8 → Option (List UInt8)
  | [], buf => some buf
  | .struct [kv, vv] :: rest, buf =>
    match marshalBaseM bo k kv (padTo 8 buf) with
    | none => none
    | some buf1 =>
      match marshalM bo vt vv buf1 with
      | none => none
      | some buf2 => marshalEntriesM bo k vt rest buf2
  | _ :: _, _ => none
def marshalFieldsM (bo : ByteOrder) : List Ty → List Val → List UInt8 → Option (List UInt8)
  | [], [], buf => some buf
  | t :: ts, v :: vs, buf =>
    match marshalM bo t v buf with
    | none => none
    | some buf' => marshalFieldsM bo ts vs buf'
  | _, _, _ => none
end

/-- `Signature::valid_slice`: element types whose in-memory representation in the message's byte
    order (when that is the native one) is the wire representation: every fixed-size integer and
    double, not bool, not fd -/
def fastElem (b : Base) : Bool :=
  match b with
  | .byte | .i16 | .u16 | .i32 | .u32 | .i64 | .u64 | .double => true
  | _ => false

/-- the fast path of `<&[E] as Marshal>::marshal`: length first (`alignment * len`), pad, then the raw
    element bytes (which in the native byte order are `bytesOf bo k n` for every element) -/
def marshalSliceFastM (bo : ByteOrder) (b : Base) (k : Nat) (ns : List Nat) (buf : List UInt8) :
    Option (List UInt8) :=
  let buf1 := padTo 4 buf
  let len := k * ns.length
  if len ≤ maxArrayLen then
    some (padTo k (buf1 ++ bytesOf bo 4 len) ++ (ns.map (bytesOf bo k)).flatten)
  else none

end Rustbus.Marshal
