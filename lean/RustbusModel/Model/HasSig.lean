import RustbusModel.Model.Sig
/-
Model of the `Signature::has_sig` implementations of the typed API (C04, C15, C16):
basic types (`starts_with`), `[E]`/`Vec<E>` (strip 'a', first piece of the rest), `HashMap<K,V>`
("a{", pieces of the inside), tuples and DERIVED structs (strip the parentheses, one piece per field, no
piece left over), variants. The pieces come from `SignatureIter`, whose `unwrap` panics on malformed
input: `none` below means "the real code panics". Import: model files only.
-/
namespace Rustbus.HasSig
open Rustbus

/-- `SignatureIter::new(s).next()`: `some none` = iterator exhausted, `none` = panic (unwrap on missing byte) -/
def iterHead (s : List Char) : Option (Option (List Char × List Char)) :=
  if s.isEmpty then some none
  else match Sig.iterNext s with
    | some r => some (some r)
    | none => none

mutual
/-- `T::has_sig(sig)` where `T::signature() = t`; `none` = panic -/
def hasSig : Ty → List Char → Option Bool
  | .base b, s => some (s.head? == some b.char)
  | .variant, s => some (s.head? == some 'v')
  | .array e, s =>
    match s with
    | 'a' :: rest =>
      -- `E::has_sig(iter.next().unwrap())`
      match iterHead rest with
      | some (some (piece, _)) => hasSig e piece
      | _ => none
    | _ => some false
  | .dict k v, s =>
    match s with
    | 'a' :: '{' :: rest =>
      -- `SignatureIter::new(&sig[2..sig.len() - 1])`
      let inside := rest.dropLast
      match iterHead inside with
      | some (some (kp, r1)) =>
        match iterHead r1 with
        | some (some (vp, _)) =>
          match (some (kp.head? == some k.char) : Option Bool), hasSig v vp with
          | some a, some b => some (a && b)
          | _, _ => none
        | _ => none
      | _ => none
    | _ => some false
  | .struct fs, s =>
    -- tuples: strip_prefix('(') and strip_suffix(')'); derived structs: len >= 2, starts '(' ends ')'
    match s with
    | '(' :: rest =>
      if rest.getLast? == some ')' then hasSigFields fs rest.dropLast
      else some false
    | _ => some false
/-- one `iter.next()` per field, then `iter.next().is_none()` -/
def hasSigFields : List Ty → List Char → Option Bool
  | [], s =>
    match iterHead s with
    | some none => some true
    | some (some _) => some false
    | none => none
  | t :: ts, s =>
    match iterHead s with
    | some none => some false
    | some (some (piece, rest)) =>
      match hasSig t piece with
      | some true => hasSigFields ts rest
      | some false => some false
      | none => none
    | none => none
end

end Rustbus.HasSig
