/-
Model of rustbus/src/peer/peer_handling.rs (C20):
  format_machine_uuid, get_machine_id (file = one Option cell), handle_peer_message / filter_peer decision logic.
Import-free.
-/
namespace Rustbus.PeerId

/-- upper-case hex digit, as `{:X}` prints it -/
def hexUpper (n : Nat) : Char :=
  if n < 10 then Char.ofNat (48 + n) else Char.ofNat (55 + n)

/-- digits of `n` in base 16, most significant first, with `fuel` digits at most.
    (`fuel` = 16 suffices for every u64; see `hexDigits_fuel`) -/
def hexDigitsAux : Nat → Nat → List Char → List Char
  | 0, _, acc => acc
  | fuel + 1, n, acc =>
    if n < 16 then hexUpper n :: acc
    else hexDigitsAux fuel (n / 16) (hexUpper (n % 16) :: acc)

/-- `format!("{:X}", n)` for n < 2^64 -/
def hexDigits (n : Nat) : List Char := hexDigitsAux 16 n []

/-- `format!("{:0wX}", n)`: *minimum* width `w`, zero padded on the left -/
def fmtHexMin (w n : Nat) : List Char :=
  let ds := hexDigits n
  List.replicate (w - ds.length) '0' ++ ds

/-- `format_machine_uuid(rand1: u64, rand2: u32, secs: u32)` -/
def formatMachineUuid (r1 r2 secs : Nat) : List Char :=
  fmtHexMin 16 r1 ++ fmtHexMin 8 r2 ++ fmtHexMin 8 secs

/-- `get_machine_id`: the file is a cell; if it does not exist the id is created from the
    draw and stored, then the cell is read back. Returns (id, new cell). -/
def getMachineId (cell : Option (List Char)) (r1 r2 secs : Nat) : List Char × Option (List Char) :=
  match cell with
  | some s => (s, some s)
  | none =>
    let s := formatMachineUuid r1 r2 secs
    (s, some s)

/-- Outcome of `handle_peer_message` on a header with the given interface / member. -/
inductive Outcome
  | notHandled                    -- Ok(false), nothing written
  | replied (withId : Bool)       -- Ok(true), exactly one method return written (body = id iff withId)
  deriving Repr, DecidableEq

def peerIface : List Char := ['o', 'r', 'g', '.', 'f', 'r', 'e', 'e', 'd', 'e', 's', 'k', 't', 'o', 'p', '.', 'D', 'B', 'u', 's', '.', 'P', 'e', 'e', 'r']
def pingM : List Char := ['P', 'i', 'n', 'g']
def getIdM : List Char := ['G', 'e', 't', 'M', 'a', 'c', 'h', 'i', 'n', 'e', 'I', 'd']

def handlePeer (iface member : Option (List Char)) : Outcome :=
  match iface with
  | none => .notHandled
  | some i =>
    if i = peerIface then
      match member with
      | none => .notHandled
      | some m =>
        if m = pingM then .replied false
        else if m = getIdM then .replied true
        else .notHandled
    else .notHandled

/-- `filter_peer` -/
def filterPeer (iface member : Option (List Char)) : Bool :=
  match handlePeer iface member with
  | .notHandled => false
  | .replied _ => true

end Rustbus.PeerId
