import RustbusModel.Model.Wire
/-
C04: mechanism-level model of the slice fast path of the typed unmarshaller
(rustbus/src/wire/unmarshal/traits/container.rs: `unmarshal_slice_bytes`, `copy_slice_bytes`,
`Cow<[E]>::unmarshal`, `Vec<E>::unmarshal`), the only `unsafe` code on the decoding side.

The memory address of the first byte of the buffer is a parameter (`base`); at every unsafe call the model
records a `Site` with the numbers the safety contract of that call talks about; `Site.ok` is that contract
(from the std documentation of `slice::from_raw_parts`, `ptr::copy_nonoverlapping`, `Vec::set_len`).
`Props/C04.lean` proves that every recorded site is ok for all buffers, bases, offsets and byte orders, and
that the fast path returns exactly what the generic decoder `dec` returns for `array (base b)`.
Model files may only import other model files.
-/
namespace Rustbus
namespace Slice
open Bytes Wire

/-- `E::valid_slice(ctx.byteorder)`: `u8` always; `i16 u16 i32 u32 i64 u64 f64` iff the message is in the
    native byte order; every other type `false` (trait default) -/
def validSlice (native bo : ByteOrder) : Base → Bool
  | .byte => true
  | .i16 | .u16 | .i32 | .u32 | .i64 | .u64 | .double => bo == native
  | _ => false

/-- `std::mem::size_of::<E>()` and `std::mem::align_of::<E>()` of the Rust type behind a fixed-size base
    type on the 64-bit targets (`u8` 1, `i16/u16` 2, `i32/u32` 4, `i64/u64/f64` 8). -/
def memSize (b : Base) : Option Nat := b.fixedSize

/-- one executed unsafe operation, with the quantities its safety contract mentions -/
inductive Site
  /-- `std::slice::from_raw_parts(ptr.cast::<E>(), cnt)`, `ptr` = address `addr` of byte `start` of the
      buffer (`bufLen` bytes long), `len` = length of the source byte slice, `align/size` of `E` -/
  | fromRawParts (addr align size cnt start len bufLen : Nat)
  /-- `let mut ret = Vec::<E>::with_capacity(cap); copy_nonoverlapping(src, ret.as_mut_ptr() as *mut u8, n);
      ret.set_len(setLen)` with `src` = byte `start` of the buffer, `size` = `size_of::<E>()` -/
  | copy (size cap start n bufLen setLen : Nat)
  deriving Repr, DecidableEq

/-- the safety contract of a site -/
def Site.ok : Site → Prop
  | .fromRawParts addr align size cnt start len bufLen =>
    -- pointer aligned for E; the `cnt` elements are exactly the source bytes, which lie inside the buffer
    -- (one allocated object, initialised, borrowed for 'buf); total size below isize::MAX
    addr % align = 0 ∧ cnt * size = len ∧ start + len ≤ bufLen ∧ cnt * size < 2 ^ 63
  | .copy size cap start n bufLen setLen =>
    -- source readable for n bytes; destination (capacity cap elements, freshly allocated, so disjoint)
    -- writable for n bytes; set_len within capacity and only over initialised elements
    start + n ≤ bufLen ∧ n ≤ cap * size ∧ setLen ≤ cap ∧ setLen * size ≤ n

/-- `unmarshal_slice_bytes::<E>`: `read_array_len` (= `read_u32`: align to 4, `parse_u32`; then the 64 MiB
    test), `align_to(E::alignment())`, whole number of elements, `read_raw(len)`.
    Returns (start offset of the element bytes, their length). -/
def sliceBytes (bo : ByteOrder) (buf : List UInt8) (b : Base) (off lim : Nat) : Option (Nat × Nat) :=
  match skipPad buf off lim 4 with
  | none => none
  | some o =>
    match readNum bo buf o lim 4 with
    | none => none
    | some len =>
      if len ≤ maxArrayLen then
        match skipPad buf (o + 4) lim b.align with
        | none => none
        | some o2 =>
          if len % b.align ≠ 0 then none
          else if o2 + len ≤ lim then some (o2, len)
          else none
      else none

/-- the elements seen through a `&[E]` over `cnt * size` bytes at `start` (or copied out of them):
    each is the native-order reading of its `size` bytes -/
def elems (native : ByteOrder) (buf : List UInt8) (size : Nat) : Nat → Nat → List Val
  | _, 0 => []
  | start, cnt + 1 => .num (valOf native (slice buf start size)) :: elems native buf size (start + size) cnt

/-- how the value was produced -/
inductive How | borrowed | copied | generic
  deriving Repr, DecidableEq

structure Out where
  /-- value, offset after it, and how it was produced; `none` = `Err(_)` -/
  res : Option (Val × Nat × How)
  sites : List Site

/-- `<Cow<'buf, [E]> as Unmarshal>::unmarshal` for `E` = the Rust type of base type `b`, on a context at
    `off` clipped at `lim`, the buffer lying at address `base`; `d` = nesting budget left for the generic path -/
def cowSlice (native : ByteOrder) (base : Nat) (bo : ByteOrder) (buf : List UInt8) (nfds : Option Nat)
    (d : Nat) (b : Base) (off lim : Nat) : Out :=
  match validSlice native bo b, memSize b with
  | true, some size =>
    match sliceBytes bo buf b off lim with
    | none => ⟨none, []⟩
    | some (start, len) =>
      let cnt := len / b.align                          -- `src.len() / E::alignment()`
      if (base + start) % size = 0 then                 -- `ptr.align_offset(align_of::<E>()) == 0`
        ⟨some (.arr (elems native buf size start cnt), start + len, .borrowed),
         [.fromRawParts (base + start) size size cnt start len buf.length]⟩
      else
        ⟨some (.arr (elems native buf size start cnt), start + len, .copied),
         [.copy size cnt start len buf.length cnt]⟩
  | _, _ =>
    -- `Vec::unmarshal(ctx).map(Cow::Owned)`, element by element
    match dec bo buf nfds (d + 1) (.array (.base b)) off lim with
    | none => ⟨none, []⟩
    | some (v, o') => ⟨some (v, o', .generic), []⟩

/-- `<Vec<E> as Unmarshal>::unmarshal`: the fast path always copies -/
def vecSlice (native : ByteOrder) (bo : ByteOrder) (buf : List UInt8) (nfds : Option Nat)
    (d : Nat) (b : Base) (off lim : Nat) : Out :=
  match validSlice native bo b, memSize b with
  | true, some size =>
    match sliceBytes bo buf b off lim with
    | none => ⟨none, []⟩
    | some (start, len) =>
      let cnt := len / b.align
      ⟨some (.arr (elems native buf size start cnt), start + len, .copied),
       [.copy size cnt start len buf.length cnt]⟩
  | _, _ =>
    match dec bo buf nfds (d + 1) (.array (.base b)) off lim with
    | none => ⟨none, []⟩
    | some (v, o') => ⟨some (v, o', .generic), []⟩

end Slice
end Rustbus
