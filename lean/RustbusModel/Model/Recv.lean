import RustbusModel.Model.Header
/-
Model of the receive path (C09, capacity part also used by C18):
  connection/ll_conn.rs: `IncomingBuffer::{reserve, read, take, peek}`, `RecvConn::{refill_buffer,
  bytes_needed_for_current_message, buffer_contains_whole_message, read_whole_message, read_once,
  get_next_message}`.
The frame size announced by a header is `Header.bytesNeeded` (Model/Header.lean), the decoding of a complete
buffer is `Header.decodeHeader` / `Header.decodeMessage`.

Environment (kernel + peer), an explicit input:
  * the peer's byte stream is a list of *cells*: one byte together with the descriptors that ride on it.
    SCM_RIGHTS descriptors ride on the FIRST byte of the `sendmsg` they were attached to; which byte of the frame
    that is, is the peer's choice (`cells`, placement `p`).
  * `World.avail` of the unread cells have arrived in the socket's receive queue; `arrive n` makes n more arrive.
  * one `recvmsg(buffer of req bytes)` is answered by EAGAIN or by `k ≥ 1`: the kernel hands over
    `min k req avail` bytes, in order, and the descriptors riding on those bytes (at most `cmsgCap` = 10 fit
    into `cmsg_space!([RawFd; 10])`, the others are discarded by the kernel: MSG_CTRUNC).
    `k` is arbitrary: this covers short reads and a kernel that stops at a descriptor boundary.
  * a `recvmsg` with a ZERO length buffer (observed on Linux 6.18, AF_UNIX stream): EAGAIN when nothing is
    queued, otherwise 0 bytes are returned and the descriptors riding on the next queued byte are handed
    over (detached from the queue) all the same. Since the repair of `refill_buffer` (early return when
    `max_buffer_size <= filled`) the client never issues such a call: `refill_request_pos` (Lemmas/Recv.lean).
Descriptors are identified by a number (the open file they refer to, what `fstat` shows), not by the fd value.
-/
namespace Rustbus.Recv
open Rustbus Rustbus.Bytes Rustbus.Header

/-- one message as the peer wrote it: its bytes and the descriptors attached to it -/
structure Frame where
  bytes : List UInt8
  fds : List Nat
  deriving Repr, DecidableEq

/-- the cells of a byte string of which byte `pos` (counted from `i`) carries the descriptors `fds` -/
def cellsFrom (fds : List Nat) (pos : Nat) : Nat → List UInt8 → List (UInt8 × List Nat)
  | _, [] => []
  | i, b :: bs => (b, if i = pos then fds else []) :: cellsFrom fds pos (i + 1) bs

/-- the cells of one frame: its descriptors ride on byte `p f` of the frame — the first byte of the `sendmsg` the peer
    attached them to. `p` is the peer's PLACEMENT: rustbus itself attaches them to the first write of a message
    (`p f = 0`), the D-Bus specification allows any byte of the message. -/
def cells (p : Frame → Nat) (f : Frame) : List (UInt8 × List Nat) :=
  cellsFrom f.fds (p f) 0 f.bytes

/-- the peer's stream: the frames back to back -/
def stream (p : Frame → Nat) : List Frame → List (UInt8 × List Nat)
  | [] => []
  | f :: fs => cells p f ++ stream p fs

/-- kernel + peer: `rest` = cells not yet read by the client, of which the first `avail` have arrived -/
structure World where
  rest : List (UInt8 × List Nat)
  avail : Nat
  deriving Repr, DecidableEq

def World.init (p : Frame → Nat) (frames : List Frame) : World := { rest := stream p frames, avail := 0 }

def World.arrive (w : World) (n : Nat) : World := { w with avail := w.avail + n }

/-- `cmsg_space!([RawFd; 10])` -/
def cmsgCap : Nat := 10

inductive RecvMsg
  | eagain
  | data (bytes : List UInt8) (fds : List Nat)
  deriving Repr, DecidableEq

/-- one `recvmsg` into a buffer of `req` bytes; `k` = how much the kernel is willing to return (0: EAGAIN) -/
def recvmsg (w : World) (req k : Nat) : RecvMsg × World :=
  let av := min w.avail w.rest.length
  if av = 0 ∨ k = 0 then (.eagain, w)
  else if req = 0 then
    match w.rest with
    | [] => (.eagain, w)
    | (b, fds) :: tl => (.data [] (fds.take cmsgCap), { rest := (b, []) :: tl, avail := av })
  else
    let m := min k (min req av)
    let got := w.rest.take m
    (.data (got.map Prod.fst) ((got.flatMap Prod.snd).take cmsgCap), { rest := w.rest.drop m, avail := av - m })

/-- `RecvConn`: `msg_buf_in.peek()` (= `buf[..filled]`), `msg_buf_in.buf.len()`, `fds_in` -/
structure State where
  buf : List UInt8
  cap : Nat
  fds : List Nat
  deriving Repr, DecidableEq

/-- a fresh connection, and the state after `IncomingBuffer::take` + `mem::take(&mut fds_in)` -/
def State.empty : State := { buf := [], cap := 0, fds := [] }

/-- `MAX_GROWTH` -/
def maxGrowth : Nat := 65536

/-- results of the client calls, as error classes -/
inductive Res
  | readOk                                  -- `Ok(())` of read_once / read_whole_message
  | skipped                                 -- the caller saw a complete buffer and did not read
  | msg (bytes : List UInt8) (fds : List Nat)  -- `Ok(message)`: the bytes it was built from, its descriptors
  | timedOut                                -- `Error::TimedOut`
  | closed                                  -- `Error::ConnectionClosed` (recvmsg returned 0 bytes)
  | invalid                                 -- bad fixed header
  | tooLong                                 -- `MessageTooLong`
  | malformed                               -- complete frame that does not decode
  deriving Repr, DecidableEq

/-- `IncomingBuffer::reserve(min(max_buffer_size, filled + MAX_GROWTH))`: only ever grows -/
def reserve (st : State) (maxBuf : Nat) : State :=
  { st with cap := max st.cap (min maxBuf (st.buf.length + maxGrowth)) }

/-- `refill_buffer(max_buffer_size, _)` with the kernel's answer `k`:
    `if max_buffer_size <= self.msg_buf_in.len() { return Ok(()) }` - the buffer already holds everything it
    may hold for the current message: nothing is reserved, NO `recvmsg` is issued, state and socket are
    untouched; otherwise reserve, ONE `recvmsg` into `buf[filled..]`, 0 bytes → `ConnectionClosed` (before
    the control messages are looked at), otherwise descriptors appended to `fds_in` and `filled += bytes` -/
def refill (st : State) (w : World) (maxBuf k : Nat) : Res × State × World :=
  if maxBuf ≤ st.buf.length then (.readOk, st, w)
  else
    let st1 := reserve st maxBuf
    match recvmsg w (st1.cap - st.buf.length) k with
    | (.eagain, w') => (.timedOut, st1, w')
    | (.data bytes fds, w') =>
      if bytes.isEmpty then (.closed, st1, w')
      else (.readOk, { st1 with buf := st.buf ++ bytes, fds := st.fds ++ fds }, w')

/-- what happens during one client call: more bytes arrive, the kernel answers a `recvmsg` -/
inductive Ev
  | arrive (n : Nat)
  | deliver (k : Nat)
  | wouldBlock
  deriving Repr, DecidableEq

/-- `buffer_contains_whole_message` / `bytes_needed_for_current_message` -/
inductive Check
  | whole
  | need (n : Nat)
  | err (r : Res)
  deriving Repr, DecidableEq

def check (st : State) : Check :=
  if st.buf.length < 16 then .need 16
  else
    match bytesNeeded st.buf with
    | .bytes n => if n ≤ st.buf.length then .whole else .need n
    | .tooLong => .err .tooLong
    | .invalid => .err .invalid

/-- the single `recvmsg` of `read_once`: events until the kernel answers; no event left = EAGAIN -/
def recvWith (st : State) (w : World) (need : Nat) : List Ev → Res × State × World
  | [] => refill st w need 0
  | .arrive n :: evs => recvWith st (w.arrive n) need evs
  | .wouldBlock :: _ => refill st w need 0
  | .deliver k :: _ => refill st w need k

/-- `read_once`: `refill_buffer(bytes_needed_for_current_message()?, timeout)` -/
def readOnce (st : State) (w : World) (evs : List Ev) : Res × State × World :=
  match bytesNeeded st.buf with
  | .bytes n => recvWith st w n evs
  | .tooLong => (.tooLong, st, w)
  | .invalid => (.invalid, st, w)

/-- the documented use of `read_once`: only while `buffer_contains_whole_message()` is false -/
def readMore (st : State) (w : World) (evs : List Ev) : Res × State × World :=
  match check st with
  | .whole => (.skipped, st, w)
  | .err r => (r, st, w)
  | .need _ => readOnce st w evs

/-- `read_whole_message`: `while !buffer_contains_whole_message()? { refill_buffer(bytes_needed()?, ..)? }` -/
def readWhole : State → World → List Ev → Res × State × World
  | st, w, [] =>
    match check st with
    | .whole => (.readOk, st, w)
    | .err r => (r, st, w)
    | .need n => refill st w n 0
  | st, w, .arrive a :: evs =>
    match check st with
    | .whole => (.readOk, st, w)
    | .err r => (r, st, w)
    | .need _ => readWhole st (w.arrive a) evs
  | st, w, .wouldBlock :: _ =>
    match check st with
    | .whole => (.readOk, st, w)
    | .err r => (r, st, w)
    | .need n => refill st w n 0
  | st, w, .deliver k :: evs =>
    match check st with
    | .whole => (.readOk, st, w)
    | .err r => (r, st, w)
    | .need n =>
      match refill st w n k with
      | (.readOk, st', w') => readWhole st' w' evs
      | r => r

/-- `get_next_message`: read whole; decode the header (an error here leaves the buffer in place);
    `take()` the buffer and the descriptors; build the message from exactly those -/
def getNext (st : State) (w : World) (evs : List Ev) : Res × State × World :=
  match readWhole st w evs with
  | (.readOk, st', w') =>
    match decodeHeader st'.buf with
    | none => (.malformed, st', w')
    | some _ =>
      match decodeMessage st'.buf with
      | none => (.malformed, State.empty, w')
      | some _ => (.msg st'.buf st'.fds, State.empty, w')
  | r => r

inductive Call
  | readOnce
  | readMore
  | getNext
  deriving Repr, DecidableEq

def step : Call → State → World → List Ev → Res × State × World
  | .readOnce => readOnce
  | .readMore => readMore
  | .getNext => getNext

/-- a history: bytes arriving between calls, and client calls each with the events that happen during it -/
inductive Action
  | arrive (n : Nat)
  | call (c : Call) (evs : List Ev)
  deriving Repr, DecidableEq

/-- run a history: the result of every call in order, the final state and world -/
def run : State → World → List Action → List Res × State × World
  | st, w, [] => ([], st, w)
  | st, w, .arrive n :: acts => run st (w.arrive n) acts
  | st, w, .call c evs :: acts =>
    match step c st w evs with
    | (r, st', w') =>
      match run st' w' acts with
      | (tr, st'', w'') => (r :: tr, st'', w'')

/-- the messages handed to the caller -/
def msgs : List Res → List Frame
  | [] => []
  | .msg b f :: rs => { bytes := b, fds := f } :: msgs rs
  | _ :: rs => msgs rs

/-- one frame is well formed for the receive loop: its first 16 bytes announce exactly its length, it
    decodes, and it carries no more descriptors than one control buffer holds -/
def FrameOk (f : Frame) : Prop :=
  16 ≤ f.bytes.length ∧ bytesNeeded (f.bytes.take 16) = .bytes f.bytes.length ∧
  (decodeMessage f.bytes).isSome = true ∧ f.fds.length ≤ cmsgCap

instance (f : Frame) : Decidable (FrameOk f) := by unfold FrameOk; infer_instance

end Rustbus.Recv
