import RustbusModel.Model.Wire
/-
Model of message headers (C05, C06):
  wire/marshal.rs (`marshal`, `marshal_header`, `marshal_header_field`, the per-field writers),
  wire/unmarshal.rs (`unmarshal_header`, `unmarshal_header_fields`, `unmarshal_header_field`,
  `unmarshal_dynamic_header`, `unmarshal_next_message`), params/validation.rs::validate_header_fields,
  connection/ll_conn.rs::bytes_needed_for_current_message, message_builder.rs::HeaderFlags.
Strings are byte lists; name validators see them as the characters U+00..U+FF (see `Bytes.latin1`).
-/
namespace Rustbus.Header
open Rustbus Rustbus.Bytes Rustbus.Wire

/-- header field as decoded (`wire::HeaderField`) -/
inductive Field
  | path (s : List UInt8)
  | interface (s : List UInt8)
  | member (s : List UInt8)
  | errorName (s : List UInt8)
  | replySerial (n : Nat)
  | destination (s : List UInt8)
  | sender (s : List UInt8)
  | signature (s : List UInt8)
  | unixFds (n : Nat)
  deriving Repr, DecidableEq

def Field.code : Field → Nat
  | .path _ => 1 | .interface _ => 2 | .member _ => 3 | .errorName _ => 4 | .replySerial _ => 5
  | .destination _ => 6 | .sender _ => 7 | .signature _ => 8 | .unixFds _ => 9

/-- `MessageType` as its wire code; 0 = Invalid -/
abbrev MsgType := Nat

/-- the fixed part: `unmarshal::Header` -/
structure Fixed where
  bo : ByteOrder
  typ : MsgType
  flags : Nat
  bodyLen : Nat
  serial : Nat
  deriving Repr, DecidableEq

def maxMessageLen : Nat := 134217728

/-! ### decoding -/

/-- `unmarshal_header` -/
def decodeFixed (buf : List UInt8) : Option Fixed :=
  if buf.length < 12 then none
  else
    match buf with
    | e :: t :: f :: ver :: _ =>
      let bo? : Option ByteOrder := if e = 108 then some .le else if e = 66 then some .be else none
      match bo? with
      | none => none
      | some bo =>
        if 1 ≤ t.toNat ∧ t.toNat ≤ 4 then
          if ver = 1 then
            let bodyLen := valOf bo (slice buf 4 4)
            let serial := valOf bo (slice buf 8 4)
            if serial = 0 then none
            else some { bo := bo, typ := t.toNat, flags := f.toNat, bodyLen := bodyLen, serial := serial }
          else none
        else none
    | _ => none

/-- `Cursor::read_signature` / `util::unmarshal_signature` without any content rule beyond UTF-8:
    the callers parse or validate the text themselves. (Non-ASCII text is rejected by those callers, so
    the UTF-8 test itself is not modelled separately here.) -/
def readSig (buf : List UInt8) (off lim : Nat) : Option (List UInt8 × Nat) :=
  match readNum .le buf off lim 1 with
  | none => none
  | some len =>
    if off + len + 2 ≤ lim then
      if slice buf (off + 1 + len) 1 = [0] then some (slice buf (off + 1) len, off + len + 2) else none
    else none

def nameOk (code : Nat) (s : List UInt8) : Bool :=
  match code with
  | 1 => Names.validateObjectPath (latin1 s)
  | 2 => Names.validateInterface (latin1 s)
  | 3 => Names.validateMembername (latin1 s)
  | 4 => Names.validateErrorname (latin1 s)
  | 6 => Names.validateBusname (latin1 s)
  | 7 => Names.validateBusname (latin1 s)
  | _ => false

/-- `Cursor::read_str` (string framing, UTF-8, no NUL) as used for the name-valued fields -/
def readStr (bo : ByteOrder) (buf : List UInt8) (off lim : Nat) : Option (List UInt8 × Nat) :=
  match decBase bo buf none .string off lim with
  | some (.str s, o) => some (s, o)
  | _ => none

/-- `unmarshal_header_field`. `some (some f, o)`: a known field; `some (none, o)`: an unknown code whose
    value was validated and skipped (`Err(UnknownHeaderField)` after `cursor.advance`); `none`: error.
    Offsets are relative to the start of the message (the field region starts at 16 ≡ 0 mod 8, the
    code's sub-cursor restarts at 0 there: same residues). -/
def decodeField (bo : ByteOrder) (buf : List UInt8) (off lim : Nat) : Option (Option Field × Nat) :=
  match skipPad buf off lim 8 with
  | none => none
  | some o =>
    match readNum .le buf o lim 1 with
    | none => none
    | some code =>
      match readSig buf (o + 1) lim with
      | none => none
      | some (sg, o2) =>
        match Sig.parseDescription (latin1 sg) with
        | some [t] =>
          let strField (mk : List UInt8 → Field) : Option (Option Field × Nat) :=
            match t with
            | .base .string =>
              match readStr bo buf o2 lim with
              | some (s, o3) => if nameOk code s then some (some (mk s), o3) else none
              | none => none
            | _ => none
          match code with
          | 0 => none
          | 1 =>
            match t with
            | .base .objpath =>
              match decBase bo buf none .objpath o2 lim with
              | some (.str s, o3) => some (some (.path s), o3)
              | _ => none
            | _ => none
          | 2 => strField .interface
          | 3 => strField .member
          | 4 => strField .errorName
          | 5 =>
            match t with
            | .base .u32 =>
              match decBase bo buf none .u32 o2 lim with
              | some (.num n, o3) => if n = 0 then none else some (some (.replySerial n), o3)
              | _ => none
            | _ => none
          | 6 => strField .destination
          | 7 => strField .sender
          | 8 =>
            match t with
            | .base .signature =>
              match decBase bo buf none .signature o2 lim with
              | some (.str s, o3) => some (some (.signature s), o3)
              | _ => none
            | _ => none
          | 9 =>
            match t with
            | .base .u32 =>
              match decBase bo buf none .u32 o2 lim with
              | some (.num n, o3) => some (some (.unixFds n), o3)
              | _ => none
            | _ => none
          | _ =>
            -- unknown code: any valid value of the announced type, skipped
            match dec bo buf none maxDepth t o2 lim with
            | some (_, o3) => some (none, o3)
            | none => none
        | _ => none

/-- the `while !cursor.remainder().is_empty()` loop over the field region -/
def decodeFields (bo : ByteOrder) (buf : List UInt8) (off lim : Nat) : Nat → Option (List Field)
  | 0 => if off = lim then some [] else none
  | fuel + 1 =>
    if off = lim then some []
    else
      match decodeField bo buf off lim with
      | none => none
      | some (f?, o') =>
        match decodeFields bo buf o' lim fuel with
        | none => none
        | some fs =>
          match f? with
          | some f => some (f :: fs)
          | none => some fs

def hasCode (fs : List Field) (c : Nat) : Bool := fs.any (fun f => f.code == c)

/-- `validate_header_fields`: no duplicates, required fields for the message type -/
def fieldsOk (typ : MsgType) (fs : List Field) : Bool :=
  (fs.map Field.code).Nodup &&
  (match typ with
   | 1 => hasCode fs 1 && hasCode fs 3
   | 4 => hasCode fs 1 && hasCode fs 3 && hasCode fs 2
   | 2 => hasCode fs 5
   | 3 => hasCode fs 4 && hasCode fs 5
   | _ => false)

/-- `unmarshal_header` + `unmarshal_dynamic_header`: fixed part, decoded known fields (in wire order),
    bytes consumed (12 + 4 + field array length) -/
def decodeHeader (buf : List UInt8) : Option (Fixed × List Field × Nat) :=
  match decodeFixed buf with
  | none => none
  | some fx =>
    match readNum fx.bo buf 12 buf.length 4 with
    | none => none
    | some len =>
      if 16 + len ≤ buf.length then
        match decodeFields fx.bo buf 16 (16 + len) len with
        | none => none
        | some fs => if fieldsOk fx.typ fs then some (fx, fs, 16 + len) else none
      else none

/-- `unmarshal_next_message` after the header: zero padding to 8, then exactly `bodyLen` bytes
    (or, for `bodyLen = 0`, an empty body whatever follows) -/
def decodeMessage (buf : List UInt8) : Option (Fixed × List Field × List UInt8) :=
  match decodeHeader buf with
  | none => none
  | some (fx, fs, used) =>
    match skipPad buf used buf.length 8 with
    | none => none
    | some o =>
      if fx.bodyLen = 0 then some (fx, fs, [])
      else if buf.length - o = fx.bodyLen then some (fx, fs, buf.drop o)
      else none

/-- outcome of `bytes_needed_for_current_message` on the bytes buffered so far -/
inductive Needed
  | bytes (n : Nat)
  | tooLong
  | invalid
  deriving Repr, DecidableEq

def bytesNeeded (buf : List UInt8) : Needed :=
  if buf.length < 16 then .bytes 16
  else
    match decodeFixed buf with
    | none => .invalid
    | some fx =>
      let fieldsLen := valOf fx.bo (slice buf 12 4)
      let hdr := 12 + fieldsLen + 4
      let total := hdr + padLen 8 hdr + fx.bodyLen
      if fieldsLen > maxArrayLen ∨ total > maxMessageLen then .tooLong else .bytes total

/-! ### encoding -/

/-- what `marshal::marshal` looks at: type, flags, the optional header fields, the body -/
structure Msg where
  bo : ByteOrder
  typ : MsgType
  flags : Nat
  replySerial : Option Nat
  interface : Option (List UInt8)
  destination : Option (List UInt8)
  sender : Option (List UInt8)
  member : Option (List UInt8)
  path : Option (List UInt8)
  errorName : Option (List UInt8)
  bodySig : List UInt8
  body : List UInt8
  nfds : Nat
  deriving Repr

def padTo (a : Nat) (buf : List UInt8) : List UInt8 := buf ++ zeros (padLen a buf.length)

/-- `marshal_header_field(field_no, sig, buf)`: pad 8, code, 1-char signature, pad 4 -/
def fieldStart (code : Nat) (sigChar : UInt8) (buf : List UInt8) : List UInt8 :=
  padTo 4 (padTo 8 buf ++ [UInt8.ofNat code, 1, sigChar, 0])

/-- a name-valued field: validate, header, `write_string` -/
def putStrField (bo : ByteOrder) (code : Nat) (sigChar : UInt8) (s : Option (List UInt8))
    (buf : List UInt8) : Option (List UInt8) :=
  match s with
  | none => some buf
  | some s =>
    if nameOk code s then
      some (fieldStart code sigChar buf ++ (bytesOf bo 4 s.length ++ (s ++ [0])))
    else none

def putU32Field (bo : ByteOrder) (code : Nat) (n : Option Nat) (buf : List UInt8) : List UInt8 :=
  match n with
  | none => buf
  | some n => fieldStart code 117 buf ++ bytesOf bo 4 n

/-- `marshal::marshal`: the header bytes including the padding before the body; `none` = refused -/
def marshalHeader (m : Msg) (serial : Nat) : Option (List UInt8) :=
  if m.typ = 0 ∨ 4 < m.typ then none
  else
    let start : List UInt8 :=
      [if m.bo = .le then 108 else 66, UInt8.ofNat m.typ, UInt8.ofNat m.flags, 1] ++
        (bytesOf m.bo 4 m.body.length ++ (bytesOf m.bo 4 serial ++ [0, 0, 0, 0]))
    let b1 := putU32Field m.bo 5 m.replySerial start
    match putStrField m.bo 2 115 m.interface b1 with
    | none => none
    | some b2 =>
    match putStrField m.bo 6 115 m.destination b2 with
    | none => none
    | some b3 =>
    match putStrField m.bo 7 115 m.sender b3 with
    | none => none
    | some b4 =>
    match putStrField m.bo 3 115 m.member b4 with
    | none => none
    | some b5 =>
    match putStrField m.bo 1 111 m.path b5 with
    | none => none
    | some b6 =>
    match putStrField m.bo 4 115 m.errorName b6 with
    | none => none
    | some b7 =>
      let b8? : Option (List UInt8) :=
        if m.body.isEmpty then some b7
        else if Sig.validateSignature (latin1 m.bodySig) then
          some (fieldStart 8 103 b7 ++ (UInt8.ofNat m.bodySig.length :: (m.bodySig ++ [0])))
        else none
      match b8? with
      | none => none
      | some b8 =>
        let b9 := if m.nfds = 0 then b8 else putU32Field m.bo 9 (some m.nfds) b8
        -- the field array is an array: at most 64 MiB
        if b9.length - 16 > maxArrayLen then none else
        -- patch the field array length (everything after byte 16), then pad to 8
        let patched := b9.take 12 ++ (bytesOf m.bo 4 (b9.length - 16) ++ b9.drop 16)
        let out := padTo 8 patched
        if out.length + m.body.length > maxMessageLen then none else some out

/-! ### flags -/

/-- `HeaderFlags::into_raw` for NoReplyExpected / NoAutoStart / AllowInteractiveAuthorization (index 0,1,2) -/
def flagRaw (i : Nat) : Nat := if i = 0 then 1 else if i = 1 then 2 else 4
def isSet (i flags : Nat) : Bool := (flags &&& flagRaw i) != 0
def setFlag (i flags : Nat) : Nat := flags ||| flagRaw i
def unsetFlag (i flags : Nat) : Nat := flags &&& (255 - flagRaw i)
def toggleFlag (i flags : Nat) : Nat := if isSet i flags then unsetFlag i flags else setFlag i flags

end Rustbus.Header
