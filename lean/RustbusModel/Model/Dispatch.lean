import RustbusModel.Model.Serial
/-
Model of connection/dispatch_conn.rs (C19): `ObjectPathPattern::{new, matches}`,
`PathMatcher::{insert, get_match}`, one iteration of `DispatchConn::run`, and the loop over a
history of incoming messages. `DynamicHeader::make_response` is `Serial.makeResponse`.

Conventions
* `&str` is `List Char`; `Vec<PathPart>` is `List PathPart`.
* `HashMap<String, String>` (the captures) is an association list without duplicate keys; only
  lookups are observable.
* `HashMap<ObjectPathPattern, Box<HandleFn>>` (the routes) is an association list *in the order in
  which the map happens to iterate*; `get_match` returns the first matching entry of that order.
  The order is not under the control of the program, therefore the loop (`Runs`) may see the table
  in a different permutation at every message. `runAll` is the instance "iteration order = list
  order" that the driver executes.
* handlers are opaque identifiers `H`; what a handler does when invoked (`Ok(Some(reply))`,
  `Ok(None)`, `Err(_)`, and which routes it inserted into `env.new_dispatches`) is an input of the
  step (`Event.behave`), and so is the outcome of `send_message(..)` + `write_all()` (`Event.sendOk`).
-/
namespace Rustbus.Dispatch

abbrev Seg := List Char

/-- `enum PathPart { MatchExact(String), MatchAs(String), AcceptAll }` -/
inductive PathPart
  | exact (s : Seg)
  | as (name : Seg)
  | all
  deriving DecidableEq, Repr

/-- `str::split('/')` with the segment collected so far in `cur`: always at least one part -/
def splitAux (cur : Seg) : List Char → List Seg
  | [] => [cur]
  | c :: cs => if c = '/' then cur :: splitAux [] cs else splitAux (cur ++ [c]) cs

def splitSlash (s : List Char) : List Seg := splitAux [] s

/-- the closure in `ObjectPathPattern::new`: `starts_with(':')` → `MatchAs(part)` (the name keeps its
    colon), `== "*"` → `AcceptAll`, otherwise `MatchExact(part)` -/
def classify (part : Seg) : PathPart :=
  if part.head? = some ':' then .as part
  else if part = ['*'] then .all
  else .exact part

abbrev Pattern := List PathPart

/-- `ObjectPathPattern::new` -/
def patternNew (p : List Char) : Pattern := (splitSlash p).map classify

/-- `Matches.matches : HashMap<String, String>` -/
abbrev Caps := List (Seg × Seg)

/-- `HashMap::insert`: an existing entry for the key is replaced -/
def capsInsert (m : Caps) (k v : Seg) : Caps := (k, v) :: m.filter (fun e => decide (e.1 ≠ k))

/-- the closure given to `try_fold` in `ObjectPathPattern::matches` -/
def foldStep (pat : Pattern) (caps : Caps) (idx : Nat) (part : Seg) : Option Caps :=
  if idx ≥ pat.length then
    -- path longer than the pattern: fine iff the last pattern part is the wildcard.
    -- (`self.0.last().unwrap()`: a pattern built by `new` is never empty; for the empty list the
    --  model answers `none`)
    match pat.getLast? with
    | some .all => some caps
    | _ => none
  else
    match pat[idx]? with
    | some .all => some caps
    | some (.exact e) => if e = part then some caps else none
    | some (.as name) => some (capsInsert caps name part)
    | none => none

/-- `parts.into_iter().enumerate().try_fold(..)` from index `idx` on -/
def tryFold (pat : Pattern) : Nat → List Seg → Caps → Option Caps
  | _, [], caps => some caps
  | idx, part :: rest, caps =>
    match foldStep pat caps idx part with
    | none => none
    | some caps' => tryFold pat (idx + 1) rest caps'

/-- `ObjectPathPattern::matches` -/
def patMatches (pat : Pattern) (query : List Char) : Option Caps :=
  let parts := splitSlash query
  if parts.length < pat.length then none else tryFold pat 0 parts []

/-- `PathMatcher.pathes`, in iteration order -/
abbrev Routes (H : Type) := List (Pattern × H)

/-- `HashMap::insert(pattern, handler)`: the handler of an existing equal pattern is replaced -/
def insertRoute {H : Type} : Routes H → Pattern → H → Routes H
  | [], pat, h => [(pat, h)]
  | (p, g) :: rest, pat, h =>
    if p = pat then (p, h) :: rest else (p, g) :: insertRoute rest pat h

/-- `PathMatcher::insert` -/
def pmInsert {H : Type} (rs : Routes H) (pattern : List Char) (h : H) : Routes H :=
  insertRoute rs (patternNew pattern) h

/-- `PathMatcher::get_match`: first entry (in iteration order) whose pattern matches -/
def getMatch {H : Type} : Routes H → List Char → Option (Caps × H)
  | [], _ => none
  | (p, h) :: rest, q =>
    match patMatches p q with
    | some caps => some (caps, h)
    | none => getMatch rest q

/-- which `HandleFn` is invoked -/
inductive Chosen (H : Type)
  | default
  | route (h : H)
  deriving DecidableEq, Repr

/-- Can the lookup for `q` end with this choice under SOME iteration order of the table?
    (Used by the driver to judge the choice the real `HashMap` made; `Props/C19.legal_iff_some_order`
    proves that this is exactly "some permutation of the table makes `getMatch` return it".) -/
def legalChoice {H : Type} [DecidableEq H] (rs : Routes H) (q : List Char) : Chosen H → Bool
  | .default => rs.all (fun e => (patMatches e.1 q).isNone)
  | .route h => rs.any (fun e => decide (e.2 = h) && (patMatches e.1 q).isSome)

/-- `HandleResult`: `Ok(Some(reply))`, `Ok(None)`, `Err(_)` -/
inductive Outcome
  | reply (r : Serial.Hdr)
  | empty
  | err
  deriving DecidableEq, Repr

/-- what an invoked handler does: its result and its `env.new_dispatches.insert(pattern, handler)` calls, in order -/
structure Behaviour (H : Type) where
  result : Outcome
  added : List (List Char × H)

/-- the part of an incoming message `run` looks at -/
structure Msg where
  hdr : Serial.Hdr
  object : Option (List Char)
  deriving Repr, DecidableEq

structure Event (H : Type) where
  msg : Msg
  /-- behaviour of whichever handler gets the message (it sees who it is and the captures) -/
  behave : Chosen H → Caps → Behaviour H
  /-- `send_conn.send_message(&response)` and `ctx.write_all()` both succeed -/
  sendOk : Bool

/-- how one iteration of the loop ends -/
inductive Ended
  | continues   -- next iteration
  | handlerErr  -- `Err(error) => return Err((Some(msg), error))`
  | sendErr     -- `return Err((Some(msg), e.into()))` from one of the two send branches
  deriving DecidableEq, Repr

structure StepOut (H : Type) where
  /-- handler invocations of this iteration, with the `Matches` they were given -/
  invoked : List (Chosen H × Caps)
  /-- messages completely written to the connection -/
  written : List Serial.Hdr
  /-- `self.objects` afterwards -/
  routes : Routes H
  ended : Ended

/-- `env.new_dispatches` after the handler's inserts (a `PathMatcher` of its own) -/
def newDispatches {H : Type} (added : List (List Char × H)) : Routes H :=
  added.foldl (fun nd a => pmInsert nd a.1 a.2) []

/-- `for (k, v) in env.new_dispatches.pathes.into_iter() { self.objects.pathes.insert(k, v); }` -/
def mergeRoutes {H : Type} (rs : Routes H) (nd : Routes H) : Routes H :=
  nd.foldl (fun acc e => insertRoute acc e.1 e.2) rs

/-- the handler selection at the top of the loop body -/
def select {H : Type} (rs : Routes H) (m : Msg) : Chosen H × Caps :=
  match m.object with
  | some obj =>
    match getMatch rs obj with
    | some (caps, h) => (.route h, caps)
    | none => (.default, [])            -- `Matches::default()`
  | none => (.default, [])

/-- one iteration of `DispatchConn::run` after `get_next_message` returned `Ok(msg)`;
    `rs` is `self.objects` in the order in which `get_match` iterates it this time -/
def step {H : Type} (rs : Routes H) (ev : Event H) : StepOut H :=
  let sel := select rs ev.msg
  let b := ev.behave sel.1 sel.2
  match b.result with
  | .err =>
    -- `result.is_ok()` false: `env` is dropped, nothing is sent, `run` returns
    { invoked := [sel], written := [], routes := rs, ended := .handlerErr }
  | .reply r =>
    let rs' := mergeRoutes rs (newDispatches b.added)
    if ev.sendOk then { invoked := [sel], written := [r], routes := rs', ended := .continues }
    else { invoked := [sel], written := [], routes := rs', ended := .sendErr }
  | .empty =>
    let rs' := mergeRoutes rs (newDispatches b.added)
    if ev.sendOk then
      { invoked := [sel], written := [Serial.makeResponse ev.msg.hdr], routes := rs', ended := .continues }
    else { invoked := [sel], written := [], routes := rs', ended := .sendErr }

/-- The loop over a history of incoming messages. When an iteration ends with an error `run`
    returns; the documented reaction ("you may choose to just call this function again") resumes
    with the same `self.objects`, so the history simply goes on. Before every message the table may
    be seen in any iteration order (`seen`). `Runs rs evs outs final`. -/
inductive Runs {H : Type} : Routes H → List (Event H) → List (StepOut H) → Routes H → Prop
  | nil (rs : Routes H) : Runs rs [] [] rs
  | cons {rs seen : Routes H} {ev : Event H} {evs : List (Event H)} {outs : List (StepOut H)}
      {final : Routes H} :
      seen.Perm rs → Runs (step seen ev).routes evs outs final →
      Runs rs (ev :: evs) (step seen ev :: outs) final

/-- the executable instance: iteration order = list order -/
def runAll {H : Type} : Routes H → List (Event H) → List (StepOut H) × Routes H
  | rs, [] => ([], rs)
  | rs, ev :: evs =>
    let o := step rs ev
    let r := runAll o.routes evs
    (o :: r.1, r.2)

end Rustbus.Dispatch
